#!/usr/bin/env python3
"""Run every seeded change against the check of its property (quick tier) and write seeded/MATRIX.md.

  tools/matrix.py [ID ...]      # default: all seeded changes
Each change is applied to a scratch worktree of /repo and the check is run against that worktree (tools/seed.py run)."""
import json
import subprocess
import sys
from pathlib import Path

VERIF = Path(__file__).resolve().parent.parent
SEEDED = VERIF / "seeded"
EXTRA = {"C05-t2": ["C05", "C10"], "C02-m2": ["C02", "C10"], "C06-m1": ["C06", "C07"], "C07-m2": ["C07", "C06"], "C17-m3": ["C17", "C02"]}


def report():
    """write seeded/MATRIX.md from the results recorded in the meta.json files (no runs)"""
    rows = []
    for d in sorted(p for p in SEEDED.iterdir() if p.is_dir()):
        meta = json.loads((d / "meta.json").read_text())
        res = meta.get("results", {})
        rows.append((d.name, ", ".join(f"{c}: {'DETECTED' if v.get('exit') == 1 else 'missed (exit %s)' % v.get('exit')}" for c, v in sorted(res.items())) or "not run",
                     meta.get("summary", "")[:160].replace("\n", " ").replace("|", "/")))
    out = ["# Seeded changes vs checks (quick tier, latest recorded run of each)", "",
           "Each change compiles, passes the repository's 112 tests and breaks the named property (demo.py).",
           "m, n, r, s, t, u = first ... sixth round of sub-agents (each round was told what the earlier ones had done and asked for subtler changes).", "",
           "| change | result | what it does |", "|---|---|---|"]
    out += [f"| {a} | {b} | {c} |" for a, b, c in rows]
    (SEEDED / "MATRIX.md").write_text("\n".join(out) + "\n")
    print(f"{len(rows)} changes; detected by the check of their own property: "
          f"{sum(1 for a, b, c in rows if (a.split('-')[0] + ': DETECTED') in b)}")


def main():
    if sys.argv[1:] == ["--report"]:
        return report()
    ids = sys.argv[1:] or sorted(p.name for p in SEEDED.iterdir() if p.is_dir())
    rows = []
    for sid in ids:
        pid = sid.split("-")[0]
        checks = EXTRA.get(sid, [pid])
        chk = subprocess.run(["git", "-C", "/repo", "apply", "--check", str(SEEDED / sid / "patch.diff")], capture_output=True, text=True)
        if chk.returncode != 0:
            rows.append((sid, "patch does not apply to the current tree", ""))
            print(sid, "DOES NOT APPLY", flush=True)
            continue
        r = subprocess.run([sys.executable, str(VERIF / "tools" / "seed.py"), "run", sid, *checks], capture_output=True, text=True, cwd=VERIF)
        lines = [l for l in r.stdout.splitlines() if l.startswith(sid)]
        for l in lines:
            print(l, flush=True)
        meta = json.loads((SEEDED / sid / "meta.json").read_text())
        res = meta.get("results", {})
        rows.append((sid, ", ".join(f"{c}: {'DETECTED' if res.get(c, {}).get('exit') == 1 else 'missed (exit %s)' % res.get(c, {}).get('exit')}" for c in checks),
                     meta.get("summary", "")[:160].replace("\n", " ").replace("|", "/")))
    out = ["# Seeded changes vs checks (quick tier)", "",
           "Each change compiles, passes the repository's 112 tests and breaks the named property (demo.py).", "",
           "| change | result | what it does |", "|---|---|---|"]
    out += [f"| {a} | {b} | {c} |" for a, b, c in rows]
    report()


if __name__ == "__main__":
    main()
