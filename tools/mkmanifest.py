#!/usr/bin/env python3
"""Regenerate MANIFEST.json from the table below (keeps the file valid at all times)."""
import json
import sys
from pathlib import Path

ROOT = Path(__file__).resolve().parent.parent
sys.path.insert(0, str(ROOT))

CHECKS = {
    "C01": dict(
        level="model_checking",
        technique="TLA+ specs RenderLocate.tla (Render + LocateCart actions; premises and OnePerOriginal/ExactVolume/HalfCell as integer invariants) and LocateSym.tla (polar/spherical/cylindrical pipelines; RadialHalfCell, CylOne) model-checked by TLC over all lattice placements; spec->code replay; TraceLocate.tla for random non-lattice emulsions",
        text="TLC enumerates every placement of 1-3 droplets with centres on the quarter-cell lattice (incl. outside the box on periodic axes), integer squared radii, anisotropic spacings and offsets satisfying the explicit premises, renders them and runs the locate actions; OnePerOriginal, ExactVolume, HalfCell (periodic metric), NoWinding are integer invariants. Radial grids: all squared radii 36..1600; cylindrical: on-axis droplets on the quarter lattice, with and without periodic z. Every configuration is rendered by the real code (mask must equal the spec's cell for cell, integral = covered volume) and located by the real locate_droplets (count, exact volume, rational centre of mass, bounds). Random non-lattice emulsions (incl. pairs of large discs placed diagonally on 40x40 grids so that their bounding boxes overlap) are judged clause by clause (count, half cell, ExactVolume against an independent count of covered cells) and validated by TraceLocate.tla.",
        note="Premises (Resolvable/Separated/InBox) are my formalisation of 'well-separated, resolvable' and are part of the spec. Cylindrical droplets are kept r+1 cell away from the z boundaries (py-pde's periodic cylindrical metric wraps the wrong component; dependency issue, see DESIGN §3 C01). Non-lattice placements only sampled (TraceLocate).",
        ref="§3 C01",
    ),
    "C02": dict(
        level="model_checking",
        technique="TLA+ specs LocateCart.tla (label / per-boundary-point merge / select vs declarative lifted torus components from Lattice.tla) + Overlap.tla, model-checked by TLC over every binary image of small lattices; spec->code replay; code->spec trace validation (TraceLocate.tla, TraceOverlap.tla)",
        text="TLC enumerates every binary image (SUBSET Cells) of 1-D/2-D/3-D lattices for all listed periodicity masks and checks Correct (one cluster per torus component, volume = cell count, moment = moment of the lifted component modulo the period for non-winding components), Ordered, MaskIntact, Termination; the pre-repair merge design is kept as Variant=\"original\" and is refuted by TLC (F1). Every image is replayed through locate_droplets_in_mask on concrete anisotropic/offset CartesianGrids; candidates captured before overlap removal must match the clusters, and the overlap stage is judged by TLC (Separated/Dominated/Subsequence) on the exact rational projection of the candidates. Large random images (noise, blobs, rings, stripes, polydisperse bar/speck 'sandwiches' on open grids in which the overlapping pair is nobody's nearest neighbour; 1-D..3-D) are validated by TraceLocate.tla and TraceOverlap.tla. The cylindrical replays also run on grids whose spacing and origin are not exactly representable (F25).",
        note="Trusted: TLC; scipy.ndimage.label's raster numbering (affects order only); exact-rational projection; pde grid metric. Winding components: only volume/cells are judged (position unspecified by the property). Cylindrical clause: LocateSym.tla (every binary image of 3x3..4x4, 2x6, 3x6 lattices with and without periodic z): exactly one droplet per non-winding on-axis torus component (PeriodicCorrect), the padded analysis abandoned exactly for winding components (SpanSound); the pre-repair closed central filter is refuted by TLC in every run (F18).",
        ref="§3 C02",
    ),
    "C03": dict(
        level="model_checking",
        technique="TLA+ spec Render.tla (exact squared min-image distance field of lattice droplets; Inside as strict sub-level set; translation/roll, period, monotonicity, union laws) model-checked by TLC over every lattice droplet; spec->code replay cell by cell for SphericalDroplet/DiffuseDroplet; independent numeric oracle (associated Legendre series) for perturbed classes and symmetric grids",
        text="TLC enumerates every droplet with centre on the (sub-)cell lattice within a margin of up to more than a period around 1-D/2-D/3-D Cartesian boxes of all periodicity masks (on cell centres, on faces, outside the box) and squared radii from 0 to beyond the box, and checks RollEquivariant (every shift, every cell of the distance field), PeriodInvariant, Monotone, OrderFree, NoWrapOpenAxes. Each is rendered by the real code as SphericalDroplet and DiffuseDroplet with width None / 0 / positive and two (vmin, vmax) pairs (incl. negative, reversed and not exactly representable ones such as (-0.1, 0.3): F22): finite, within range (exactly, no tolerance), exact indicator when sharp, '> midpoint iff Q < r2' for every cell incl. cells exactly on the interface, non-increasing in the spec's exact Q, translation by whole cells equals np.roll, emulsion field = clipped sum = indicator of the union when sharp, independent of order. 1600 (thorough 32000) random perturbed 2-D/3-D/axisymmetric droplets (also exactly on cell centres, on periodic grids, on cylindrical grids) and diffuse droplets on polar/spherical/cylindrical grids are compared with an independent evaluation of the documented shape series.",
        note="Trusted: TLC; numpy/scipy lpmv for the oracle. The general-direction inside/outside decision of perturbed shapes is a numeric comparison (cells within 1e-9 of the interface skipped), not model checking. Found and repaired F3 (NaN for a 3-D perturbed droplet on a cell centre) and F4 (axisymmetric droplets could not be rendered).",
        ref="§3 C03",
    ),
    "C04": dict(
        level="other",
        technique="TLA+ spec Refine.tla: the protocol of refine_droplet around the black-box solver (Promote, DefaultWidth, Region, FreeMask, Bounds, Solve = any non-worsening step inside the bounds, Wrap) model-checked by TLC on every request; spec->code conformance with scipy's least_squares replaced by a recording proxy",
        text="TLC checks ClassKept, ConstraintsFrozen, BoundsLayout, RadiusWidthBounded, NeverWorse, WrapRespectsSymmetry, Termination on all requests family (10 grid families incl. periodicity) x candidate class (5) x modes x width option x level option (quick 100, thorough 360). Each request is executed on clean, noisy, self-rendered and neighbour-disturbed images (thorough: three grid spacings) with candidates displaced from the truth, outside the box on periodic axes and off the symmetry axis: the start vector and bounds handed to the solver must have the spec's layout (free parameters, 0 / -1 / 1 / inf pattern, two intensity parameters); the number of residuals must equal the spec's region (binary image dilated 1+floor(2w/h) times, the width counted in cells on grids of spacing 1, 1/2, 1/4: F23); every fitted parameter of the returned droplet must be bit-identical to the solver's result (the proxy only watches the objective, it never evaluates it itself); the handed-over objective and the independently recomputed documented deviation must not increase; result class/layout, radius, width >= 0, |amplitudes| <= 1, finite; frozen coordinates bit-identical; position inside the box on periodic axes; image bytes unchanged; self-rendered image returns the candidate within 1e-5 spacings.",
        note="Level 'other': model checking of the protocol plus conformance observation of an opaque numeric step; nothing is claimed about the optimiser's quality. Found and repaired F12 (start vector used vmax for the range) and F17 (off-axis candidates rotated on symmetric grids).",
        ref="§3 C04",
    ),
    "C05": dict(
        level="exploration",
        technique="TLA+ spec Recover.tla: the complete scenario space of the property with its premises (resolvable, wrapped or inside, well separated, levels supplied or fitted) enumerated by TLC; spec-generated scenarios replayed through locate_droplets(refine=True) with the property's numeric tolerance (numeric oracle, not model checking)",
        text="TLC enumerates all 64 200 admissible scenarios family (1-3 D Cartesian, polar, spherical, cylindrical) x periodicity x spacing ratio (1, 5/4, 3/2) x threshold rule (numeric, auto, extrema, mean, otsu) x intensity map ((0,1), (-0.1,0.1), (-0.3,0.9), (5,6), (-3,-1)) x level option (supplied, supplied+fitted, automatic+fitted) x centre class (cell centre, corner, generic, 0.03 cells left/right of the periodic seam, outside the box) x radius (3, 3.25, 5.5 cells) x width (1, 1.5, 2 cells) x 1-2 droplets. Each replayed scenario is rendered with spacing 2^-20, 2^-13, 0.5, 1, 2 or 2^10 (lengths are only a unit: F23), random origin and seeded sub-cell jitter and located with refinement; every original must be matched by exactly one result with relative errors of position (per radius), radius and width < 1e-4 and periodic coordinates inside the box. Quick: 368 scenarios covering all 631 pairs of factor values; thorough: all 64 200 (worst relative error observed 1.2e-6).",
        note="Level 'exploration': TLC only enumerates the scenario space; recovery accuracy is measured. The unrefined half (one candidate per droplet within half a cell) is model-checked by C01. Very low contrast (range < 0.2) and cylindrical droplets at the ends of the axis are outside the premises used here.",
        ref="§3 C05",
    ),
    "C06": dict(
        level="model_checking",
        technique="TLA+ spec Tracking.tla model-checked by TLC (exhaustive lattice histories) + spec->code replay + code->spec trace validation (TraceTracking.tla)",
        text="TLC checks Partition/NoForeign/GapFree/FramesIntact/TracksGrow/Termination on every state of every history of small integer-lattice worlds (all frames of <=2-3 droplets, 2-3 frames, both methods, several cut-offs, periodic and open, 1-D and 2-D); every history is replayed through the real from_emulsion_time_course and must yield the spec's tracks with unchanged droplets, correct stamps, unmodified un-aliased input; random float time courses are projected with exact rationals and validated/judged by TLC.",
        note="Trusted: TLC, the lattice concretisation (integer coordinates => exact float comparisons), exact-rational projection for random traces (knife-edge inputs skipped and counted). Bounded: exhaustive only up to the stated lattice sizes.",
        ref="§3 C06",
    ),
    "C07": dict(
        level="model_checking",
        technique="TLA+ spec Tracking.tla: declarative link properties (OverlapLinks, DistanceLinks with recursive Greedy) model-checked by TLC against the operational actions + replay + TLC-judged implementation states",
        text="Same state space as C06; the identity properties are written declaratively (independent of the Pick/MatchOv actions) and checked by TLC on the spec and, for any replay mismatch or random trace, evaluated by TLC on the implementation's own final state.",
        note="As C06. A difference from the operational model that satisfies every declarative clause is counted as a deviation, not a violation.",
        ref="§3 C07",
    ),
    "C08": dict(
        level="model_checking",
        technique="TLA+ spec IO.tla (file system as state; multi-step writers Open/WriteDataset/Raise/Close; sorted-key reader through the class registry) model-checked by TLC over every object of the bounded structure space and every history of <=2 write calls; spec->code replay of every history with to_file/from_file, comparing the real HDF5 file with the spec's file state and the read-back object bit for bit",
        text="TLC enumerates all Emulsions / EmulsionTimeCourses / DropletTracks / DropletTrackLists with <=2-3 members of <=2-3 droplets over alphabets of (class, layout) pairs covering all five droplet classes, dimensions 1-3, 1-3 modes, sibling classes with one layout, broadcastable layouts, empty members in every position and two time patterns, followed by a second write of a short/empty object to the same or another path, and checks RoundTrip, NoSilentChange, OneSetPerMember, Termination; the variant with the pre-repair track writer (CheckTrackClass=FALSE) is refuted by TLC. Every history (quick 1.5e4) is replayed with real objects whose parameters come from a hostile pool (signed zeros, subnormals, 1e300, 2^53+1, NaN/None widths, int/float/negative/non-uniform/large times): after each write the HDF5 file is opened and compared with the spec's file (dataset count, keys, droplet_class, time attribute, row count, row layout), read back and compared with == and by class, dtype and data bytes; at the end every path must still hold its last object.",
        note="Trusted: TLC, h5py for inspecting files. Float payload fidelity is observed at the pool values only. Key ordering beyond 10^6 members is a stated bound, not replayed. Found and repaired F8 (track of mixed classes / broadcastable layouts written and read back unequal).",
        ref="§3 C08",
    ),
    "C09": dict(
        level="model_checking",
        technique="TLA+ spec Outcome.tla (a call has exactly two transitions: Return with finite droplets, Raise with the documented error) whose input space is enumerated by TLC; every enumerated input executed by the real code and the recorded outcome validated by TraceOutcome.tla (code->spec)",
        text="TLC enumerates (quick) 7.8e4 locate requests = option table (modes, refine, interface width, threshold rule, minimal radius, refinement arguments incl. automatic and fitted levels) x EVERY binary image of a 3x3 grid with 10:1 anisotropic cells, a 1x6 row, 3x3, 2x2x2, cylindrical 3x3 with and without periodic z, polar 4 and spherical 4 grid, plus constant, ramp and three-level noise images; all 54 droplet-class x grid-family rendering requests; all 170 (thorough 1364) time courses of <=3-4 frames over {empty, one, two, shifted, moved} x tracking method (built through the constructor and through append). Every input (quick: a seeded half of the locate space) is run through locate_droplets (affinely rescaled intensities, all periodicity masks), get_phase_field (four droplets per request, on and off cell centres, widths None/0/positive, random amplitudes) or from_emulsion_time_course (1-3 dimensions, periodic grid or none, cut-off or none); the outcome must be a finite return (all droplet parameters; NaN only as unset width) or exactly the documented ValueError (modes in 1-D, dimension mismatch). TraceOutcome.tla accepts the recorded outcome classes.",
        note="Trusted: TLC. 'Valid input' is the enumerated space (tiny grids, exhaustive binary images; larger grids sharded in the thorough tier) and the premise that supplied intensity levels are consistent with the image. Found and repaired F2 (distance tracking on an empty frame), F3, F4, F5, F13 (zero intensity range), F19 (empty fit region).",
        ref="§3 C09",
    ),
    "C10": dict(
        level="model_checking",
        technique="TLA+ spec Overlap.tla (PickMin/Pop loop over exact surface-distance order) model-checked by TLC on integer lattices + spec->code replay by object identity + code->spec trace validation (TraceOverlap.tla)",
        text="TLC checks Separated, Subsequence, Dominated, StrictMaxSurvives, NoNeedlessRemoval, Shrinks and Termination for every emulsion of <=3-4 lattice droplets (1-D/2-D/3-D, periodic/open, tied radii, min_distance of either sign; sqrt(q)-s comparisons decided exactly by squaring). Every emulsion is replayed through remove_overlapping (same objects, same order, second call no-op) and through get_pairwise_distances / overlaps / get_neighbor_distances against the spec's exact q. Random float emulsions (chains, duplicates, crowds, from_random) are projected in exact rationals and judged by TLC.",
        note="Trusted: TLC, exact-rational projection, pde's grid.distance as the definition of the periodic metric. Tie-breaking among equal radii is not fixed by the property: a different survivor among tied droplets is a deviation, not a violation. get_neighbor_distances(subtract_radius=True) judged only for tied radii (see DESIGN).",
        ref="§3 C10",
    ),
    "C11": dict(
        level="model_checking",
        technique="TLA+ spec Merge.tla (heap of droplets in exact power-sum coordinates; MergeOut / MergeIn / MergeCompiled actions) model-checked by TLC over every merge history; spec->code replay of every history on real droplets through all three code paths",
        text="TLC explores every history that merges 2-4 lattice droplets (radii incl. 0, fixed integer positions, widths unset/0/positive) in 1, 2 and 3 dimensions in any order and grouping with any of the three code paths per step, and checks TotalVolume, TotalMoment (centre of mass), Commutative, Associative (volume/moment under regrouping), FinalUnique and OperandsIntact in exact integer/rational arithmetic. Every history (quick 9e3, thorough 9e5) is executed on real SphericalDroplet/DiffuseDroplet objects; every heap object must have the spec's r^d, centre M/m and mean width (1e-12), operands are compared by bytes, in-place vs out-of-place results bit for bit, compiled path and swapped operand order within 4 ulp. Random real-valued merge trees (2-7 droplets, scales 1e-3..1e3, zero radii) are compared with exact rational power sums.",
        note="Trusted: TLC, Fractions for the random trees. The algebraic identity for all positive reals is checked on the lattice exactly and sampled elsewhere; floating-point associativity is only required to 1e-11 relative.",
        ref="§3 C11",
    ),
    "C12": dict(
        level="model_checking",
        technique="TLA+ spec SphereAlgebra.tla: every conversion as a monomial 2^a 3^b pi^c x^p with rational exponents; composition and differentiation on exponent vectors; identities model-checked by TLC (hence for all positive reals); spec->code replay of the enumerated conversion x dimension x variant x decade space against 50-digit evaluations",
        text="TLC checks RoundTripVolume, RoundTripSurface, SurfaceIsDerivative, Degrees, VolumeIsPower as equalities of exponent vectors for d = 1, 2, 3 and enumerates every (conversion, dimension, variant in {function, array, compiled(dim), nd_compiled, droplet}, decade) configuration. For each, the real variant is evaluated at seven mantissas per decade (quick 5 decades, thorough 1e-15..1e15; plus 0, 1e-150, 1e120) and must agree with the mpmath value of the spec's monomial within 16 ulp (plus 2|ln x| ulp for cube roots), arrays of shapes (2,), () and (2,3) must keep their shape, the nd variant is called both interpreted and inside numba.njit, droplet variants through volume / surface_area / interface_curvature / volume setter / from_volume of SphericalDroplet and DiffuseDroplet. Random radii 1e-6..1e6: round trips, numerical derivative of the volume, volume setter, bounding box, curvature.",
        note="Trusted: TLC, mpmath. The symbolic identities are exact; floating-point agreement is sampled. Integer-typed arguments to compiled variants are outside the checked domain (int64 overflow for radii > 2e6 in 3-D was observed, see DESIGN).",
        ref="§3 C12",
    ),
    "C13": dict(
        level="model_checking",
        technique="TLA+ spec Harmonics.tla (mode bookkeeping k<->(l,m), (sin,cos) pairing, first-order curvature coefficients as exact rationals) model-checked by TLC; configurations class x active modes x signs x radius enumerated by TLC and replayed on real droplets; independent quadrature / Legendre-series oracle for the integrals",
        text="TLC checks Bijection, InverseOnPairs, CountIsSquare, OptimalOnlySquares (k <= 120), TranslationModesFlat, HigherModesPositive, NoZerothMode and enumerates every configuration of <=2 (thorough <=3) active amplitudes among the first 8 (15) with signs for the three perturbed classes and radii 2^-3..2^3 (quick 1161, thorough 85911). For each, the real droplet with amplitudes +-2^-12 must satisfy: spherical_index_lm/k equal the spec's; interface_distance equals the documented series (independent Legendre evaluation, 1e-12); interface_position = centre + distance * direction; interface_curvature = (1/R)(1 + sum a_k h_k Y_k) with the spec's h_k within O(eps^2) at 27 directions (superposition of modes, all radii); volume_approx - exact = O(eps^2); repeated queries neither change the droplet nor the answers; zero amplitudes reduce exactly to the sphere. A shard is checked at finite amplitudes (0.05-0.25): 2-D volume (1e-10) and arclength (1e-4) and 3-D volume (1e-6) against independent quadrature, volume setter, triangulation vertices on the interface (1e-9).",
        note="Trusted: TLC; numpy/scipy (lpmv, Gauss-Legendre). The equality of volume/surface with integrals and the harmonic values are numeric comparisons, not model checking. Quantities a class does not implement (NotImplementedError) are not judged. Found and repaired F7a/F7b/F16.",
        ref="§3 C13",
    ),
    "C14": dict(
        level="model_checking",
        technique="TLA+ spec Tracker.tla (Handle per interrupt for DropletTracker, LengthScaleTracker and the storage; Finalize writes keyed datasets; offline analysis as a function of the storage) model-checked by TLC over histories x settings x sources x methods; spec->code replay through real trackers with the analysis call arguments logged, plus real solver runs",
        text="TLC enumerates every history of <=2-3 frames over a 4-frame alphabet (no droplet, one, two, one below the minimal radius) with increasing, repeated, decreasing and restarting time sequences, all 64 combinations of threshold rule x minimal radius x refine x refine_args x modes (or a covering subset with all three source selections and all three length-scale methods) and checks OnlineEqualsOffline, FilePersists, FramePerInterrupt, TimesIdentical, LengthScalePerFrame, LengthScaleFile, AppendOnly, Termination; the reader that orders datasets by time attribute is refuted by TLC. Each history (quick 3e3) is driven through real DropletTracker/LengthScaleTracker objects beside a MemoryStorage: the keyword arguments reaching locate_droplets must be the spec's call record, tracker.data must equal EmulsionTimeCourse.from_storage with the same settings (classes, dtypes, data bytes, times), the HDF5 file must read back identical, each length scale must be the value (or NaN on exception) of get_length_scale for that frame, the JSON file the two lists; LengthScaleTracker is also run on polar/spherical/cylindrical/1-D/3-D grids where the analysis raises; Cahn-Hilliard and diffusion solver runs are compared online vs offline.",
        note="Trusted: TLC; pde's MemoryStorage and solver controller. The analysis is uninterpreted in the spec (equality of results is observed, not derived).",
        ref="§3 C14",
    ),
    "C15": dict(
        level="model_checking",
        technique="TLA+ spec Parallel.tla (executor.map as Take/Finish/Yield with W workers, None-filter) model-checked by TLC over all interleavings; every complete schedule forced in real ProcessPoolExecutors (spec->code) and the workers' start/end logs validated by TraceParallel.tla (code->spec); thorough tier: inductive invariant of ParallelInd.tla discharged by Apalache for unbounded schedule length",
        text="TLC checks TypeOK, OrderPreserved, PrefixAlways, Deterministic, OnceEach, OutGrows and Termination for N<=6 tasks on W<=4 workers with sets of None results, over every interleaving. Each complete schedule (completion order) found by TLC is forced in a real process pool by gating task completion on marker files; locate_droplets(refine=True, num_processes=W|'auto') on fields with N droplets (plain, diffuse, perturbed candidates, periodic/non-periodic, a droplet cut by the boundary, forced None results) and EmulsionTimeCourse.from_storage(num_processes=W, progress=None|True|False, refine on/off) on N distinct frames must return results bit-identical (data bytes, dtype, class, order, times) to the serial run; serial runs are repeated and must be identical. The recorded start/end logs are accepted by TraceParallel.tla only if they are behaviours of the spec and the caller's output is the spec's.",
        note="Trusted: TLC, fork start method (wrappers inherited by workers), FIFO call queue of the executor. Runs whose recorded completion order is not the intended one are not judged (count in evidence). Exhaustive in schedules for the stated (N, W); inputs are a fixed family of scenarios.",
        ref="§3 C15",
    ),
    "C16": dict(
        level="model_checking",
        technique="TLA+ spec Spectrum.tla: exact DFT over Gaussian integers for axis lengths 1, 2, 4; power spectrum as exact rationals; Parseval and invariance laws model-checked by TLC for every integer field; spec->code replay in the implementation's flat order; transformation-word exploration on random fields",
        text="TLC computes |F_k|^2 exactly for every integer field over {-1,0,1,2} on 4 and 2x2 cells and over smaller alphabets on 4x2, 2x4 (thorough: 4x4, 2x2x2, 2x4x1, 2x2x4) and checks NonNegative, Parseval, ZeroMode, ScaleInvariant, RollInvariant (every shift), ReflectInvariant, Hermitian. Every field is passed to get_structure_factor(smoothing=None) on periodic CartesianGrids with dyadic anisotropic spacings and offsets: S and the wave numbers must equal |F_k|^2/(N sum f^2) and 2 pi |n/(N dx)| in flat C order with the zero mode dropped (1e-13), add_zero must prepend exactly (0, 1). 320 (thorough 16000) random float fields on shapes with odd and even sizes (1-D..3-D): DFT definition, Parseval, exact wave numbers, invariance under scaling, rolling, reflection, axis permutation with the grid, inverse scaling of k with the physical size; the smoothed variant must return the requested wave numbers identically, stay finite, prepend (0, 1) and share the invariances.",
        note="Trusted: TLC; numpy.fft as the definition of the DFT for sizes other than 1, 2, 4. Exact arithmetic only for those sizes.",
        ref="§3 C16",
    ),
    "C17": dict(
        level="model_checking",
        technique="TLA+ spec LengthScale.tla (generator words Stretch/Scale/Roll acting on an observable of scaling degree (1, 0); admissible plane-wave scenarios with >= 4 cells per period) enumerated and checked by TLC; spec->code replay of every word and every wave through get_length_scale",
        text="TLC enumerates every word of <=2 (thorough 3) generators over Stretch(2^j), Scale(c in {-2.5, 2^-33, 1024}), Roll and checks DegreeOne; every word is applied to 1-D, 2-D and 3-D periodic base fields and structure_factor_mean, structure_factor_maximum and droplet_detection (threshold='extrema', positive factors) must return 2^stretch times the base value: exactly for pure stretches with the moment method, to 1e-12 otherwise, within half a Fourier bin for the peak method. TLC enumerates every admissible plane wave on shapes 16..64 (1-D..3-D), integer mode vectors up to |n_a| <= 3 (5), spacings 2^-4..2^6 (2^-6..2^6): quick 936, thorough 16198; the peak method must return a finite value within half a Fourier bin of 2 pi |n/L| for amplitudes/offsets (1,0), (2e-3,250), (1e-7,-1), (40,3), the moment method the wavelength, droplet counting on stripes must be invariant under cyclic shifts; droplet counting on rendered emulsions (1-3 D, spacings 2^-3..2^3, affine intensities) must return (V/n)^(1/d).",
        note="Trusted: TLC. Droplet counting is measured with an automatic threshold and positive factors (see assumptions). Found and repaired F9 (peak method NaN / not covariant).",
        ref="§3 C17",
    ),
    "C18": dict(
        level="model_checking",
        technique="TLA+ spec Threshold.tla (threshold rules, Otsu's between-class variance over bin centres with the set of acceptable outcomes, strict binarisation, runs of open and periodic rows, strict size filter, all in exact integer arithmetic) model-checked by TLC over every integer image of small rows; spec->code replay through threshold_otsu / locate_droplets vs locate_droplets_in_mask of the spec's masks; brute-force Otsu oracle on random fields",
        text="TLC enumerates every image over {0,64,..,256} on 5-6 cells (256 bins) and over 0..8 on 4-6 cells (2, 4, 8 bins) and checks AffineInvariant (a in {1,2,4}, b in {-16,0,16}, numeric thresholds mapped), StrictThreshold, OtsuSplits, FilterStrict, PeriodicRuns. Every image is replayed: threshold_otsu(data, nbins) must be the centre of a bin of an optimal plateau and cut the cells as the spec says; locate_droplets(field, rule) for 'extrema', 'auto', 'mean', 'otsu' and numeric thresholds on and between values must be bit-identical to locate_droplets_in_mask(spec mask) on open and periodic rows, 2-D reshapes, polar, spherical and cylindrical grids; exactly representable affine maps must leave the droplets bit-identical; minimal radii on and off the exact run radii must keep exactly the spec's runs (also across the periodic seam). Random large fields (skewed, bimodal, exponential; four grid families) are judged against a brute-force evaluation of Otsu's objective and against data > threshold.",
        note="Trusted: TLC; locate_droplets_in_mask as the meaning of 'droplets of a binary image' (that stage is C02). Constant images are not judged under Otsu. Lattice alphabets are chosen so that histogram bin edges are exact.",
        ref="§3 C18",
    ),
    "C19": dict(
        level="model_checking",
        technique="TLA+ spec ClassSelect.tla: the implementation's decision chain (CheckArgs/Candidate/Width/Modes/Refine actions) vs the declarative class table, model-checked by TLC on the complete finite request space; spec->code replay of every request through locate_droplets",
        text="TLC enumerates every request (6 grid families x periodicity x modes 0-4 x width given/none x refine x 5 threshold rules = 1200; quick 288) and checks ClassAsRequested, ModesAsRequested, WidthCarried, WidthUnsetOtherwise, NoRaiseOtherwise, MustRaise, Termination. Every request is run through the real locate_droplets on an image with two droplets of that family (one on polar/spherical grids): class name, amplitude count, dimension, width (carried / unset / valid after refinement), zero amplitudes when unrefined, one dtype per result, the emulsion's dtype slot and Emulsion.data must match the spec's final state; ValueError exactly for modes>0 in 1-D.",
        note="Trusted: TLC. Complete enumeration of the option space; one image per family. Found and repaired F4 (cylindrical x modes>0 x refine raised TypeError).",
        ref="§3 C19",
    ),
    "C20": dict(
        level="model_checking",
        technique="TLA+ spec Collections.tla (heap of droplet/Emulsion/EmulsionTimeCourse/DropletTrack objects with explicit identity; one action per public call) model-checked by TLC over all operation sequences up to the stated depth; every transition of the state graph replayed on real objects (spec->code) with full state, aliasing and query comparison; long random operation sequences recorded from real objects and validated by TraceCollections.tla (code->spec)",
        text="TLC explores every sequence of <=3-5 public operations (append/extend with copy and force_consistency flags, constructors, copy(min_radius), slices, +, remove_small, remove_overlapping, get_linked_data + writes through the array, writes through caller references, merge of members in place and out of place, time-course append/slice/copy/index/clear, track append/slice/copy/index, explicit and default times, track lists, to_file/from_file of all four kinds with truncation on error, DropletTrackList.from_emulsion_time_course with both methods and a cut-off) over small alphabets in nine worlds (spherical, diffuse/mixed layout, two layouts of one class, time courses, tracks, track lists, files, tracking, and the pipeline images -> located emulsions / offline time courses -> tracks -> files -> reloaded objects: EmLocate, TcFromStorage) and checks Aligned, Owned (default-path members reachable from exactly one place), ArrShared, OrderFree (queries invariant under all permutations), TrackingConserves (for EVERY reachable time course, incl. repeated / decreasing times and empty frames, and every method the tracks hold exactly the (droplet value, time) pairs of the course as fresh objects and the input heap is untouched) and HeapGrows in every state. Every transition printed by TLC (quick: 8.6e4, thorough: >1e6) is replayed: API calls along a path to the source state, then the operation; compared are exception type, lengths, layouts (dtype slot), times, every reachable droplet value (exact rationals), the aliasing partition of all handles found by writing through each handle, and count / mean / std of radii and volumes / total volume / area-weighted interface width / bounding box / durations / trajectories / nearest-time lookup / `==` between emulsions, time courses and tracks / DropletTrack.time_overlaps against the spec's exact folds, also on the reversed emulsion, and count/mean/std/total volume against their definitions over the real members for every emulsion (mixed dimensions included). Code->spec: 48 (thorough 640) seeded random sequences of 25 (40) calls over all 38 operations are executed on real objects; each call is logged with arguments, exception and the canonical observable state (values in slot order, first slot holding the same object, layouts, times) and TLC accepts a log only if every event is a step of the spec's action with that outcome (Aligned/Owned/ArrShared checked along the way); a deliberately corrupted log must be rejected.",
        note="Trusted: TLC; the projection in harness/c20.py. Bounded: exhaustive up to depth 3-5 over the stated alphabets; 1-D geometry with rational coordinates (2-D droplets occur only as wrong-layout members). Non-default paths (copy=False duplicates + get_linked_data) are modelled as the code behaves. Found and repaired F10 (merge after get_linked_data raised).",
        ref="§3 C20",
    ),
}

# what the fourth to sixth sessions added to the explored space of each check (appended to the texts above)
ADDED = {
    "C01": "Every lattice placement is also located with a minimal radius of 0.6 cells (identical result demanded); random emulsions include 3-D droplets on edges / corners of boxes periodic in two or three axes.",
    "C02": "Random images include combs across the periodic seam (one piece on one side, many on the other). Known finding F28 (a non-winding on-axis staircase longer than the three-fold padded image of a periodic cylindrical grid is cut) is part of the check: TLC refutes PeriodicCorrect on exactly that image and the real code is run on it (KNOWN-FINDING line, exit 0).",
    "C03": "Mixed-class emulsions (a spherical droplet first, diffuse ones after it); axisymmetric droplets with up to nine modes and a pronounced high zonal mode on a fine grid; the droplet's own cell is judged.",
    "C04": "The sum of squares handed to the solver at its first evaluation must equal the squared deviation of the promoted candidate over the region with the documented levels; solver options are recorded (loss must be linear); 8-bit-like levels, one supplied + one automatic level, an image with a strip of NaN pixels far from the droplet.",
    "C05": "Polar / spherical grids also as annuli / shells; a deliberately sloppy analysis with its own options precedes every fourth scenario.",
    "C06": "Lattice instances also on partly periodic boxes (Tracking.tla OpenAxes); random courses with wall-hugging droplets, centres outside the periodic cell, integer stamps beyond 2^53, and frames with exact duplicates (judged by counting).",
    "C07": "As C06; additionally a periodic lattice without cut-off in the quick tier.",
    "C08": "Time patterns that are not ascending, repeat a stamp, or mix ints and fractions; objects of 12, 103 and 1001 members; emulsions that were linked to an array and then edited without changing their length; lateral noise in axisymmetric droplets.",
    "C09": "Width exactly 0 as an option; every fifth enumerated image stored as uint8; both trackers driven with every way of naming the field (None, index 0, index 1, callable).",
    "C10": "Random emulsions with nearly equal radii, vanished droplets inside others, exactly touching pairs at irrational distances (overlaps must agree with the sign of the library's own surface distance); from_random on polar / spherical / cylindrical grids.",
    "C11": "Operands that went through pickle / copy; self-merge through all three paths; droplets as the image analysis returns them (unrefined and refined); members linked to an array; small droplets far from the origin against exact rationals.",
    "C12": "Arrays mixing zeros with ordinary values; droplets restored by pickle / copy / from_data; volume changes of 1e-12..7e-10 (relative); compiled variants at zero and on arrays of several shapes; 2-D perturbed droplets with odd numbers of amplitudes.",
    "C13": "Shape changed in place between reads; radii scaled by 1e-9 .. 1e9; positions for one to four directions; shape of the curvature result in the sphere limit.",
    "C14": "Repeated stamps; one persistent state object updated in place with a callable source deriving a new field (directly and in solver runs with a transformed storage); index 0 as a source; histories of 12, 103 and 1001 frames through tracker and file.",
    "C15": "Storages with many more frames than workers (7/2, 11/3, (2 cpu + 5)/auto); refine_droplets called directly with lists, emulsions and one-shot iterables, exhausted evaluation budgets, vanished / off-cell / numpy.void candidates, repeated runs.",
    "C16": "Requests in any order, repeated, beyond the largest wave number; the caller scribbles over returned arrays; grids with exchanged spacings; fields <= 0 touching zero; one 300 x 344 grid.",
    "C17": "A partly periodic base field; base fields of 34 and 26 x 17 cells; corner / edge-touching blocks and U-shaped domains under ALL cyclic shifts; 1-D waves of one-cell droplets at four spacings; the same picture on grids with exchanged spacings. Known finding F27 (droplet counting changes under translation when a cluster winds around the periodic box) is reported as KNOWN-FINDING when the seed's base field has such a cluster.",
    "C18": "Every enumerated image also stored as uint8, int16, int8 (levels -64..64) and, for small alphabets, as int8 shifted to straddle zero; minimal radii between the fitted and the cluster radius with refinement.",
    "C19": "For periodic refining requests additionally a droplet a hair beside the periodic seam (candidate and fitted centre on opposite sides).",
}

NOT_YET = {}

PROPS = [json.loads(l)["id"] for l in (ROOT / "properties.jsonl").read_text().splitlines() if l.strip()]


def main():
    checks = []
    for pid in PROPS:
        if pid not in CHECKS:
            continue
        c = CHECKS[pid]
        checks.append(
            {
                "property_id": pid,
                "quick_cmd": f"./check {pid} --tier quick",
                "thorough_cmd": f"./check {pid} --tier thorough",
                "evidence_file": f"evidence/{pid}.json",
                "replay_cmd_template": f"./check {pid} --replay {{path}}",
                "engine": "tlc+replay",
                "level_claimed": {"category": c["level"], "text": c["text"] + (" " + ADDED[pid] if pid in ADDED else ""), "design_ref": c["ref"]},
                "level_note": c["note"],
                "technique": c["technique"],
            }
        )
    na = [
        {"property_id": pid, "reason": NOT_YET.get(pid, "check not built yet in this round (see DESIGN.md §3 for the plan)")}
        for pid in PROPS
        if pid not in CHECKS
    ]
    m = {
        "version": 1,
        "setup_cmd": "./check --setup",
        "hooks": {
            "guard": "PY_DROPLETS_VERIF",
            "enable": "no source hooks: the harness wraps module attributes from outside (PYTHONPATH=/repo); PY_DROPLETS_VERIF is reserved and currently changes nothing in /repo",
            "baseline_off_cmd": "cd /repo && /venv/bin/python -m pytest -ra -q -p no:cacheprovider --timeout=900 --continue-on-collection-errors",
            "source_commits": [],
            "add_only": True,
        },
        "engines": [
            {
                "name": "tlc+replay",
                "path": "check",
                "serves_properties": [c["property_id"] for c in checks],
                "kind_free_text": "explicit TLA+ specifications (specs/*.tla) model-checked with TLC; bound to /repo by spec->code replay of TLC-emitted behaviours and code->spec validation of recorded traces",
            }
        ],
        "checks": checks,
        "notes": "See DESIGN.md. known_findings.json lists genuine defects (open => KNOWN-FINDING line, fixed => suppresses nothing).",
        "not_applicable": na,
    }
    (ROOT / "MANIFEST.json").write_text(json.dumps(m, indent=1) + "\n")
    print(f"MANIFEST.json: {len(checks)} checks, {len(na)} not claimed")


if __name__ == "__main__":
    main()
