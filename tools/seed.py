#!/usr/bin/env python3
"""Confirm a seeded change produced by a sub-agent, store it under /verif/seeded/<id>/ and run
checks against it.

  tools/seed.py confirm /tmp/mut/out_C06/m1 C06-m1      # verify in scratch worktree, copy to seeded/
  tools/seed.py run C06-m1 C06 [C07 ...] [--tier quick]  # apply to /repo, run checks, undo
"""
import json
import os
import shutil
import subprocess
import sys
from pathlib import Path

VERIF = Path(__file__).resolve().parent.parent
SEEDED = VERIF / "seeded"
PY = "/venv/bin/python"


def sh(cmd, cwd=None, env=None, timeout=3600):
    e = dict(os.environ)
    if env:
        e.update(env)
    r = subprocess.run(cmd, shell=True, cwd=cwd, env=e, capture_output=True, text=True, timeout=timeout)
    return r.returncode, (r.stdout + r.stderr)


def confirm(src, sid):
    src = Path(src)
    wt = Path(f"/tmp/seedwt_{sid}")
    if wt.exists():
        sh(f"git -C /repo worktree remove --force {wt}")
    rc, o = sh(f"git -C /repo worktree add -q --detach {wt} HEAD")
    assert rc == 0, o
    ran = []
    try:
        env = {"PYTHONPATH": str(wt), "PYTHONDONTWRITEBYTECODE": "1", "MPLBACKEND": "Agg"}
        rc0, o0 = sh(f"{PY} {src}/demo.py", cwd=wt, env=env)
        ran.append(f"demo on clean tree: exit {rc0}")
        rc, o = sh(f"git apply {src}/patch.diff", cwd=wt)
        if rc != 0:
            print("patch does not apply:", o)
            return False
        rc1, o1 = sh(f"{PY} {src}/demo.py", cwd=wt, env=env)
        ran.append(f"demo with patch: exit {rc1}")
        rct, ot = sh(f"{PY} -m pytest -q -p no:cacheprovider -n 8 tests", cwd=wt, env=env)
        tail = ot.strip().splitlines()[-1] if ot.strip() else ""
        ran.append(f"full test suite with patch: exit {rct}: {tail}")
        ok = rc0 == 0 and rc1 != 0 and rct == 0
        print(sid, "confirm:", ran, "=>", "OK" if ok else "REJECTED")
        if not ok:
            print(o1[-800:])
            return False
        dst = SEEDED / sid
        dst.mkdir(parents=True, exist_ok=True)
        shutil.copy(src / "patch.diff", dst / "patch.diff")
        shutil.copy(src / "demo.py", dst / "demo.py")
        meta = json.loads((src / "meta.json").read_text()) if (src / "meta.json").exists() else {}
        meta["agent_ran"] = meta.pop("ran", None)
        meta["confirmed"] = ran
        meta.setdefault("results", {})
        (dst / "meta.json").write_text(json.dumps(meta, indent=1) + "\n")
        return True
    finally:
        sh(f"git -C /repo worktree remove --force {wt}")


def run(sid, pids, tier="quick"):
    """apply the change to a scratch worktree of /repo (never to /repo itself), run the checks against it with their
    work files / evidence / replays redirected to a scratch directory, remove both afterwards"""
    dst = SEEDED / sid
    wt = Path(f"/tmp/seedrun_{sid}")
    scratch = Path(f"/tmp/seedrun_{sid}_out")
    if wt.exists():
        sh(f"git -C /repo worktree remove --force {wt}")
    shutil.rmtree(scratch, ignore_errors=True)
    rc, o = sh(f"git -C /repo worktree add -q --detach {wt} HEAD")
    assert rc == 0, o
    res = {}
    try:
        rc, o = sh(f"git apply {dst}/patch.diff", cwd=wt)
        assert rc == 0, o
        scratch.mkdir(parents=True)
        for pid in pids:
            rc, o = sh(f"./check {pid} --tier {tier}", cwd=VERIF, timeout=7200,
                       env={"VERIF_REPO": str(wt), "VERIF_SCRATCH": str(scratch)})
            viol = [l for l in o.splitlines() if l.startswith("VIOLATION")]
            res[pid] = {"exit": rc, "violation_lines": len(viol), "tier": tier,
                        "summary": ([l for l in o.splitlines() if l.startswith(f"[{pid}]")] or [o[-300:]])[-1]}
            # keep what the check said about the first violation (which clause failed)
            why = ""
            for l in viol[:1]:
                f = l.split("replay=")[-1].strip()
                try:
                    j = json.loads(Path(f).read_text())
                    why = json.dumps(j.get("fails") or j.get("violated") or j.get("why") or list(j)[:8])[:400]
                except Exception:  # noqa: BLE001
                    pass
            res[pid]["first_violation"] = why
            print(sid, pid, "exit", rc, res[pid]["summary"], why[:200])
    finally:
        sh(f"git -C /repo worktree remove --force {wt}")
        shutil.rmtree(scratch, ignore_errors=True)
    meta = json.loads((dst / "meta.json").read_text())
    meta.setdefault("results", {}).update(res)
    meta["detected"] = any(v["exit"] == 1 for v in meta["results"].values())
    (dst / "meta.json").write_text(json.dumps(meta, indent=1) + "\n")
    return res


if __name__ == "__main__":
    if sys.argv[1] == "confirm":
        sys.exit(0 if confirm(sys.argv[2], sys.argv[3]) else 1)
    elif sys.argv[1] == "run":
        tier = "quick"
        args = sys.argv[2:]
        if "--tier" in args:
            i = args.index("--tier")
            tier = args[i + 1]
            del args[i : i + 2]
        run(args[0], args[1:], tier)
