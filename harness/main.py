"""Entry point: ./check <ID> [--tier quick|thorough] [--replay FILE] | --setup | --list"""

from __future__ import annotations

import argparse
import importlib
import os
import sys
import traceback

from . import core

# property id -> (module, level)
CHECKS = {
    "C03": ("c03", "model_checking"),
    "C04": ("c04", "other"),
    "C05": ("c05", "exploration"),
    "C06": ("c06", "model_checking"),
    "C01": ("c01", "model_checking"),
    "C02": ("c02", "model_checking"),
    "C07": ("c07", "model_checking"),
    "C08": ("c08", "model_checking"),
    "C09": ("c09", "model_checking"),
    "C10": ("c10", "model_checking"),
    "C11": ("c11", "model_checking"),
    "C12": ("c12", "model_checking"),
    "C13": ("c13", "model_checking"),
    "C14": ("c14", "model_checking"),
    "C15": ("c15", "model_checking"),
    "C16": ("c16", "model_checking"),
    "C17": ("c17", "model_checking"),
    "C18": ("c18", "model_checking"),
    "C19": ("c19", "model_checking"),
    "C20": ("c20", "model_checking"),
}


def main() -> int:
    ap = argparse.ArgumentParser()
    ap.add_argument("pid", nargs="?")
    ap.add_argument("--tier", default=os.environ.get("VERIF_TIER", "quick"), choices=["quick", "thorough"])
    ap.add_argument("--replay")
    ap.add_argument("--setup", action="store_true")
    ap.add_argument("--list", action="store_true")
    a = ap.parse_args()
    if a.list:
        print("\n".join(sorted(CHECKS)))
        return 0
    if a.setup:
        from . import setup

        return setup.main()
    if a.pid not in CHECKS:
        print(f"unknown property {a.pid}", file=sys.stderr)
        return 2
    seed = int(os.environ.get("VERIF_SEED", "0") or 0)
    modname, level = CHECKS[a.pid]
    out = core.Outcome(a.pid, a.tier, seed, level)
    try:
        mod = importlib.import_module(f"harness.{modname}")
        if a.replay:
            return mod.replay(out, a.replay)
        mod.run(out)
    except core.MachineryError as exc:
        print(f"MACHINERY-ERROR property={a.pid}: {exc}", file=sys.stderr)
        traceback.print_exc()
        return 2
    except Exception:  # noqa: BLE001
        print(f"MACHINERY-ERROR property={a.pid}: unexpected exception", file=sys.stderr)
        traceback.print_exc()
        return 2
    return out.finish()


if __name__ == "__main__":
    sys.exit(main())
