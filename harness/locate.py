"""Shared helpers for the locate pipeline checks (C01, C02, C18, C19, C09)."""

from __future__ import annotations

import contextlib
from fractions import Fraction

import numpy as np

from . import c10, core

# dyadic spacings / origins cycled over the replayed images (all exactly representable)
SPACINGS = [1.0, 0.5, 2.0, 0.25, 4.0]
ORIGINS = [0.0, -1.5, 0.375, 16.0]


def variant(idx: int, dim: int):
    """Deterministic choice of per-axis spacing and origin for replay item idx."""
    dx = [SPACINGS[(idx // (5**a) + a) % len(SPACINGS)] for a in range(dim)]
    x0 = [ORIGINS[(idx // (3**a) + 2 * a) % len(ORIGINS)] for a in range(dim)]
    return dx, x0


def cart_grid(shape, periodic, dx, x0):
    from pde import CartesianGrid

    bounds = [(o, o + n * d) for o, n, d in zip(x0, shape, dx)]
    return CartesianGrid(bounds, list(shape), periodic=[bool(p) for p in periodic])


def mask_array(shape, cells):
    m = np.zeros(tuple(shape), dtype=bool)
    for c in cells:
        m[tuple(c)] = True
    return m


@contextlib.contextmanager
def capture_overlap_removal():
    """Record the emulsion before/after every Emulsion.remove_overlapping call (outside hook)."""
    from droplets.emulsions import Emulsion

    calls = []
    orig = Emulsion.remove_overlapping

    def wrapper(self, *a, **kw):
        before = list(self)
        r = orig(self, *a, **kw)
        calls.append({"before": before, "after": list(self), "args": a, "kwargs": kw})
        return r

    Emulsion.remove_overlapping = wrapper
    try:
        yield calls
    finally:
        Emulsion.remove_overlapping = orig


def exact_d2(grid_bounds, periodic):
    """Exact squared min-image distance on a Cartesian box (Fractions of the doubles)."""
    Ls = [Fraction(b[1]) - Fraction(b[0]) for b in grid_bounds]

    def d2(a, b):
        s = Fraction(0)
        for k, (x, y) in enumerate(zip(a[0], b[0])):
            d = abs(Fraction(float(x)) - Fraction(float(y)))
            if periodic[k]:
                d = d % Ls[k]
                d = min(d, Ls[k] - d)
            s += d * d
        return s

    return d2


def overlap_trace(cands, survivors, d2):
    """TraceOverlap trace for sphere candidates (pos, r) with M = 0; None on knife-edge."""
    drops = [(list(map(float, d.position)), float(d.radius)) for d in cands]
    tr = c10.project(drops, d2, 0)
    if tr is None:
        return None
    ids = {id(o): i + 1 for i, o in enumerate(cands)}
    tr["out"] = [ids.get(id(o), 0) for o in survivors]
    return tr


def circ_close(x, y, period, tol):
    d = abs(x - y)
    if period is not None:
        d = d % period
        d = min(d, period - d)
    return d <= tol
