"""C20 — collections stay aligned and own their droplets under any sequence of edits (Collections.tla).

spec -> code : TLC explores every operation sequence of the bounded instances of Collections.tla
               (heap of droplet / Emulsion / EmulsionTimeCourse / DropletTrack objects with explicit
               identity) and checks Aligned, Owned, ArrShared, OrderFree, HeapGrows on every state.
               Every TRANSITION of the state graph is printed; the harness replays, for every
               transition, a path of real API calls leading to its source state, performs the
               operation on the real objects and compares the complete observable state: values of
               every reachable droplet, the aliasing partition (found by writing through every handle
               and looking where the write shows up), layouts, times, exceptions, and every summary
               query against the spec's exact fold.
code -> spec : long random operation sequences are executed on the real objects, every call is logged
               with its arguments and the observed state, and TraceCollections.tla accepts the log
               only if each step is the spec's action with exactly that outcome.
"""

from __future__ import annotations

import hashlib
import json
import math
import os
import random
from fractions import Fraction

import numpy as np

from . import core

SENTINEL = 987654.25

# ---------------------------------------------------------------- configurations
COMMON_INV = ["Aligned", "Owned", "ArrShared", "OrderFree", "Bounded", "TlValid", "FilesWellFormed", "TrackingConserves"]

CFGS = {
    # name: constants
    "em3": dict(InitVals="ValsEm", EmLists="ListsEm", EvLists="NoLists", TimeLists="NoLists", Times="{0}",
                MinRs="MinRsAll", MutRs="{0, 3}", MinDists="{0}", TlLists="NoLists", MinDurs="{0}", MaxDrops=12, MaxEms=3, MaxRefs=6, MaxEv=3,
                MaxTcs=0, MaxTrks=0, MaxLen=4, Depth=3, Ops="OpsEm"),
    "em4": dict(InitVals="ValsEm", EmLists="ListsEm", EvLists="NoLists", TimeLists="NoLists", Times="{0}",
                MinRs="MinRsAll", MutRs="{0, 3}", MinDists="{0}", TlLists="NoLists", MinDurs="{0}", MaxDrops=14, MaxEms=3, MaxRefs=6, MaxEv=3,
                MaxTcs=0, MaxTrks=0, MaxLen=4, Depth=4, Ops="OpsEm"),
    "em5": dict(InitVals="ValsEm", EmLists="ListsEm2", EvLists="NoLists", TimeLists="NoLists", Times="{0}",
                MinRs="{0}", MutRs="{0}", MinDists="{0}", TlLists="NoLists", MinDurs="{0}", MaxDrops=12, MaxEms=3, MaxRefs=5, MaxEv=3,
                MaxTcs=0, MaxTrks=0, MaxLen=3, Depth=5, Ops="OpsEm"),
    "df3": dict(InitVals="ValsDf", EmLists="ListsDf", EvLists="NoLists", TimeLists="NoLists", Times="{0}",
                MinRs="MinRsAll", MutRs="{0, 3}", MinDists="MinDistsDf", TlLists="NoLists", MinDurs="{0}", MaxDrops=12, MaxEms=3, MaxRefs=6, MaxEv=3,
                MaxTcs=0, MaxTrks=0, MaxLen=4, Depth=3, Ops="OpsEm"),
    "df4": dict(InitVals="ValsDf", EmLists="ListsDf", EvLists="NoLists", TimeLists="NoLists", Times="{0}",
                MinRs="MinRsAll", MutRs="{0, 3}", MinDists="MinDistsDf", TlLists="NoLists", MinDurs="{0}", MaxDrops=14, MaxEms=3, MaxRefs=6, MaxEv=3,
                MaxTcs=0, MaxTrks=0, MaxLen=4, Depth=4, Ops="OpsEm"),
    "tc4": dict(InitVals="ValsTc", EmLists="ListsTc", EvLists="EvListsTc", TimeLists="TimeListsTc", Times="TimesTc",
                MinRs="{0}", MutRs="{0, 3}", MinDists="{0}", TlLists="NoLists", MinDurs="{0}", MaxDrops=16, MaxEms=8, MaxRefs=5, MaxEv=4,
                MaxTcs=2, MaxTrks=0, MaxLen=3, Depth=4, Ops="OpsTc"),
    "tcq": dict(InitVals="ValsTc", EmLists="ListsTc", EvLists="EvListsTcQ", TimeLists="TimeListsTcQ", Times="TimesTcQ",
                MinRs="{0}", MutRs="{3}", MinDists="{0}", TlLists="NoLists", MinDurs="{0}", MaxDrops=16, MaxEms=8, MaxRefs=5, MaxEv=4,
                MaxTcs=2, MaxTrks=0, MaxLen=3, Depth=4, Ops="OpsTc"),
    "tc5": dict(InitVals="ValsTc", EmLists="ListsTc", EvLists="EvListsTc", TimeLists="TimeListsTc", Times="TimesTc",
                MinRs="{0}", MutRs="{3}", MinDists="{0}", TlLists="NoLists", MinDurs="{0}", MaxDrops=16, MaxEms=8, MaxRefs=5, MaxEv=4,
                MaxTcs=2, MaxTrks=0, MaxLen=3, Depth=5, Ops="OpsTc"),
    "tr3": dict(InitVals="ValsTr", EmLists="ListsTr", EvLists="NoLists", TimeLists="TimeListsTr", Times="TimesTc",
                MinRs="{0}", MutRs="{0, 3}", MinDists="{0}", TlLists="NoLists", MinDurs="{0}", MaxDrops=16, MaxEms=0, MaxRefs=6, MaxEv=0,
                MaxTcs=0, MaxTrks=3, MaxLen=4, Depth=3, Ops="OpsTr"),
    "io3": dict(InitVals="ValsTc", EmLists="ListsTc", EvLists="EvListsTc", TimeLists="TimeListsTc", Times="{4}",
                MinRs="{0}", MutRs="{3}", MinDists="{0}", TlLists="NoLists", MinDurs="{0}", MaxDrops=14, MaxEms=6, MaxRefs=4, MaxEv=3,
                MaxTcs=2, MaxTrks=2, MaxLen=3, Depth=3, Ops="OpsIo"),
    "io4": dict(InitVals="ValsTc", EmLists="ListsTc", EvLists="EvListsTc", TimeLists="TimeListsTc", Times="{4}",
                MinRs="{0}", MutRs="{3}", MinDists="{0}", TlLists="NoLists", MinDurs="{0}", MaxDrops=14, MaxEms=6, MaxRefs=4, MaxEv=3,
                MaxTcs=2, MaxTrks=2, MaxLen=3, Depth=4, Ops="OpsIo"),
    "tl3": dict(InitVals="ValsTr", EmLists="ListsTr", EvLists="NoLists", TimeLists="TimeListsTr", Times="TimesTc",
                MinRs="{0}", MutRs="{3}", MinDists="{0}", TlLists="TlListsA", MinDurs="MinDursA", MaxDrops=16, MaxEms=0, MaxRefs=4, MaxEv=0,
                MaxTcs=0, MaxTrks=2, MaxLen=3, Depth=3, Ops="OpsTl"),
    "tl4": dict(InitVals="ValsTr", EmLists="ListsTr", EvLists="NoLists", TimeLists="TimeListsTr", Times="TimesTc",
                MinRs="{0}", MutRs="{3}", MinDists="{0}", TlLists="TlListsA", MinDurs="MinDursA", MaxDrops=16, MaxEms=0, MaxRefs=4, MaxEv=0,
                MaxTcs=0, MaxTrks=2, MaxLen=3, Depth=4, Ops="OpsTl"),
    "tl5": dict(InitVals="ValsTr", EmLists="ListsTr", EvLists="NoLists", TimeLists="TimeListsTr", Times="TimesTc",
                MinRs="{0}", MutRs="{3}", MinDists="{0}", TlLists="TlListsA", MinDurs="MinDursA", MaxDrops=16, MaxEms=0, MaxRefs=4, MaxEv=0,
                MaxTcs=0, MaxTrks=2, MaxLen=3, Depth=5, Ops="OpsTl"),
    "tr4": dict(InitVals="ValsTr", EmLists="ListsTr", EvLists="NoLists", TimeLists="TimeListsTr", Times="TimesTc",
                MinRs="{0}", MutRs="{0, 3}", MinDists="{0}", TlLists="NoLists", MinDurs="{0}", MaxDrops=16, MaxEms=0, MaxRefs=6, MaxEv=0,
                MaxTcs=0, MaxTrks=3, MaxLen=4, Depth=4, Ops="OpsTr"),
    "tr5": dict(InitVals="ValsTr", EmLists="ListsTr", EvLists="NoLists", TimeLists="TimeListsTr", Times="TimesTc",
                MinRs="{0}", MutRs="{3}", MinDists="{0}", TlLists="NoLists", MinDurs="{0}", MaxDrops=16, MaxEms=0, MaxRefs=6, MaxEv=0,
                MaxTcs=0, MaxTrks=3, MaxLen=3, Depth=5, Ops="OpsTr"),
    # tracking on the heap: time courses built from emulsions, tracked, then edited
    "tk4": dict(InitVals="ValsTk", EmLists="ListsTk", EvLists="EvListsTk", TimeLists="TimeListsTk", Times="{0, 1}",
                MinRs="{0}", MutRs="{3}", MinDists="{0}", TlLists="NoLists", MinDurs="{0}", TrackMethods="MethodsAll", MaxDrops=24, MaxEms=8, MaxRefs=7, MaxEv=3,
                MaxTcs=1, MaxTrks=8, MaxLen=3, Depth=4, Ops="OpsTk"),
    "tk5": dict(InitVals="ValsTk", EmLists="ListsTk", EvLists="EvListsTk", TimeLists="TimeListsTk", Times="{0, 1}",
                MinRs="{0}", MutRs="{3}", MinDists="{0}", TlLists="NoLists", MinDurs="{0}", TrackMethods="MethodsAll", MaxDrops=24, MaxEms=8, MaxRefs=7, MaxEv=3,
                MaxTcs=1, MaxTrks=8, MaxLen=3, Depth=5, Ops="OpsTk"),
    "tkq": dict(InitVals="ValsTk", EmLists="ListsTkQ", EvLists="EvListsTkQ", TimeLists="TimeListsTkQ", Times="{0}",
                MinRs="{0}", MutRs="{3}", MinDists="{0}", TlLists="NoLists", MinDurs="{0}", TrackMethods="MethodsAll", MaxDrops=24, MaxEms=8, MaxRefs=7, MaxEv=2,
                MaxTcs=1, MaxTrks=8, MaxLen=3, Depth=5, Ops="OpsTkQ"),
    # the pipeline: images -> located emulsions / offline time courses -> tracks -> files -> reloaded
    "sysq": dict(InitVals="ValsSys", EmLists="NoLists", EvLists="NoLists", TimeLists="NoLists", Times="{0}",
                 MinRs="{0}", MutRs="{3}", MinDists="{0}", TlLists="NoLists", MinDurs="{0}", TrackMethods="MethodsAll", Images="ImagesA",
                 ImgLists="ImgListsQ", LocWidths="WidthsA", MaxDrops=40, MaxEms=8, MaxRefs=3, MaxEv=1,
                 MaxTcs=2, MaxTrks=8, MaxLen=3, Depth=4, Ops="OpsSysQ"),
    "sys4": dict(InitVals="ValsSys", EmLists="NoLists", EvLists="NoLists", TimeLists="NoLists", Times="{0}",
                 MinRs="{0}", MutRs="{3}", MinDists="{0}", TlLists="NoLists", MinDurs="{0}", TrackMethods="MethodsAll", Images="ImagesA",
                 ImgLists="ImgListsA", LocWidths="WidthsA", MaxDrops=40, MaxEms=10, MaxRefs=3, MaxEv=3,
                 MaxTcs=2, MaxTrks=8, MaxLen=3, Depth=4, Ops="OpsSys"),
    "sys5": dict(InitVals="ValsSys", EmLists="NoLists", EvLists="NoLists", TimeLists="NoLists", Times="{0}",
                 MinRs="{0}", MutRs="{3}", MinDists="{0}", TlLists="NoLists", MinDurs="{0}", TrackMethods="MethodsAll", Images="ImagesA",
                 ImgLists="ImgListsA", LocWidths="WidthsA", MaxDrops=40, MaxEms=10, MaxRefs=3, MaxEv=3,
                 MaxTcs=2, MaxTrks=8, MaxLen=3, Depth=5, Ops="OpsSys"),
    # one class, two layouts: perturbed droplets with different numbers of amplitudes
    "pl3": dict(InitVals="ValsPl", EmLists="ListsPl", EvLists="NoLists", TimeLists="NoLists", Times="{0}",
                MinRs="{0}", MutRs="{3}", MinDists="{0}", TlLists="NoLists", MinDurs="{0}", MaxDrops=14, MaxEms=3, MaxRefs=5, MaxEv=3,
                MaxTcs=0, MaxTrks=0, MaxLen=3, Depth=3, Ops="OpsPl"),
    # track list files
    "tfq": dict(InitVals="ValsTr", EmLists="ListsTfQ", EvLists="NoLists", TimeLists="TimeListsTfQ", Times="{4}",
                MinRs="{0}", MutRs="{3}", MinDists="{0}", TlLists="TlListsTfQ", MinDurs="{0}", MaxDrops=20, MaxEms=0, MaxRefs=4, MaxEv=0,
                MaxTcs=0, MaxTrks=5, MaxLen=3, Depth=4, Ops="OpsTfQ"),
    "tf4": dict(InitVals="ValsTr", EmLists="ListsTr", EvLists="NoLists", TimeLists="TimeListsTr", Times="{4}",
                MinRs="{0}", MutRs="{3}", MinDists="{0}", TlLists="TlListsA", MinDurs="{0}", MaxDrops=20, MaxEms=0, MaxRefs=5, MaxEv=0,
                MaxTcs=0, MaxTrks=5, MaxLen=3, Depth=4, Ops="OpsTf"),
    "tf5": dict(InitVals="ValsTr", EmLists="ListsTr", EvLists="NoLists", TimeLists="TimeListsTr", Times="{4}",
                MinRs="{0}", MutRs="{3}", MinDists="{0}", TlLists="TlListsA", MinDurs="{0}", MaxDrops=20, MaxEms=0, MaxRefs=5, MaxEv=0,
                MaxTcs=0, MaxTrks=5, MaxLen=3, Depth=5, Ops="OpsTf"),
}
QUICK = ["em3", "df3", "tcq", "tr3", "tl3", "io3", "tkq", "tfq", "sysq", "pl3"]
# em5 (every sequence of five emulsion operations: 3.8 GB of transitions, more than two hours of replay) and tk5 are defined
# above but not part of the registered tier
THOROUGH = ["em4", "df4", "tc4", "tc5", "tr4", "tl4", "io4", "tk4", "tf4", "sys4"]


def cfg_text(name: str, observe: str = "ObservePrint") -> str:
    c = CFGS[name]
    lines = ["SPECIFICATION Spec", "CONSTANTS"]
    c = {"TrackMethods": "NoMethods", "Images": "NoImages", "ImgLists": "NoLists", "LocWidths": "NoWidths", **c}
    for k, v in c.items():
        if isinstance(v, int) or v.startswith("{"):
            lines.append(f"  {k} = {v}")
        else:
            lines.append(f"  {k} <- {v}")
    lines.append(f"  Observe <- {observe}")
    lines += [f"INVARIANT {i}" for i in COMMON_INV]
    lines.append("PROPERTY HeapGrows")
    return "\n".join(lines) + "\n"


# ---------------------------------------------------------------- the real world
# the images of MC_Collections.tla (ImagesA) / MC_TraceCollections.tla
IMAGES_A = [[0, 1, 1, 0, 0, 1, 0, 0], [0, 0, 1, 1, 0, 1, 1, 0], [0, 0, 0, 0, 0, 0, 0, 0], [1, 1, 1, 0, 0, 0, 0, 1]]
KIND_CLS = {"S1": ("SphericalDroplet", 1), "D1": ("DiffuseDroplet", 1), "S2": ("SphericalDroplet", 2),
            "P2a": ("PerturbedDroplet2D", 2), "P2b": ("PerturbedDroplet2D", 2)}


def make_droplet(v):
    from droplets import DiffuseDroplet, SphericalDroplet

    x = v["x"][0] / v["x"][1]
    if v["k"] == "S1":
        return SphericalDroplet(np.array([x], float), float(v["r"]))
    if v["k"] == "S2":
        return SphericalDroplet(np.array([x, 0.0], float), float(v["r"]))
    if v["k"] in ("P2a", "P2b"):
        from droplets.droplets import PerturbedDroplet2D

        return PerturbedDroplet2D(np.array([x, 0.0], float), float(v["r"]), None, np.zeros(2 if v["k"] == "P2a" else 4))
    return DiffuseDroplet(np.array([x], float), float(v["r"]), None if v["w"] < 0 else float(v["w"]))


class World:
    """The caller's handles on real objects; nothing else is kept."""

    images = IMAGES_A

    def __init__(self, init_vals):
        self.refs = [make_droplet(v) for v in init_vals]
        self.ev = []
        self.tcs = []
        self.trks = []
        self.tls = []
        self.arr = None
        self.dir = None
        self.file_kind = {1: "none", 2: "none"}

    def _field(self, g):
        """image number g (1-based) of the instance as a scalar field: cells of width 2 starting at 0"""
        from pde import CartesianGrid, ScalarField

        img = np.array(self.images[g - 1], float)
        return ScalarField(CartesianGrid([[0, 2 * len(img)]], len(img)), img)

    def path(self, p):
        import tempfile

        if self.dir is None:
            WORKDIR = core.WORK / "c20files"
            WORKDIR.mkdir(parents=True, exist_ok=True)
            self.dir = tempfile.mkdtemp(dir=WORKDIR)
        return os.path.join(self.dir, f"f{p}.h5")

    def cleanup(self):
        import shutil

        if self.dir is not None:
            shutil.rmtree(self.dir, ignore_errors=True)
            self.dir = None

    # ---- one public call per spec action; returns the name of the exception raised ("" if none)
    def apply(self, o) -> str:
        from droplets import DropletTrack, Emulsion, EmulsionTimeCourse

        op = o["op"]
        try:
            if op == "EmNew":
                self.ev.append(Emulsion([self.refs[i - 1] for i in o["L"]], copy=o["copy"]))
            elif op == "EmAppend":
                self.ev[o["e"] - 1].append(self.refs[o["i"] - 1], copy=o["copy"], force_consistency=o["force"])
            elif op == "EmExtend":
                self.ev[o["e"] - 1].extend(self.ev[o["e2"] - 1], copy=o["copy"], force_consistency=o["force"])
            elif op == "EmCopy":
                e = self.ev[o["e"] - 1]
                self.ev.append(e.copy() if o["mr"] == -1 else e.copy(min_radius=o["mr"]))
            elif op == "EmSlice":
                self.ev.append(self.ev[o["e"] - 1][o["lo"] : o["hi"]])
            elif op == "EmIndex":
                self.refs.append(self.ev[o["e"] - 1][o["i"] - 1])
            elif op == "EmAdd":
                self.ev.append(self.ev[o["e1"] - 1] + self.ev[o["e2"] - 1])
            elif op == "EmRemoveSmall":
                self.ev[o["e"] - 1].remove_small(o["mr"])
            elif op == "EmRemoveOv":
                self.ev[o["e"] - 1].remove_overlapping(min_distance=o["m"])
            elif op == "EmLink":
                self.arr = self.ev[o["e"] - 1].get_linked_data()
            elif op == "ArrWrite":
                self.arr[o["i"] - 1]["radius"] = o["r"]
            elif op == "Mutate":
                self.refs[o["i"] - 1].radius = o["r"]
            elif op == "EmMerge":
                e = self.ev[o["e"] - 1]
                res = e[o["i"] - 1].merge(e[o["j"] - 1], inplace=o["inplace"])
                if not o["inplace"]:
                    self.refs.append(res)
            elif op == "TcNew":
                ems = [self.ev[i - 1] for i in o["L"]]
                self.tcs.append(EmulsionTimeCourse(ems, times=list(o["times"]) if o["explicit"] else None))
            elif op == "TcAppend":
                self.tcs[o["c"] - 1].append(self.ev[o["e"] - 1], time=o["t"] if o["explicit"] else None)
            elif op == "TcSlice":
                self.tcs.append(self.tcs[o["c"] - 1][o["lo"] : o["hi"]])
            elif op == "TcCopy":
                self.tcs.append(EmulsionTimeCourse(self.tcs[o["c"] - 1]))
            elif op == "TcIndex":
                self.ev.append(self.tcs[o["c"] - 1][o["i"] - 1])
            elif op == "TcClear":
                self.tcs[o["c"] - 1].clear()
            elif op == "TrkNew":
                ds = [self.refs[i - 1] for i in o["L"]]
                self.trks.append(DropletTrack(ds, times=list(o["times"]) if o["explicit"] else None))
            elif op == "TrkAppend":
                self.trks[o["k"] - 1].append(self.refs[o["i"] - 1], time=o["t"] if o["explicit"] else None)
            elif op == "TrkSlice":
                self.trks.append(self.trks[o["k"] - 1][o["lo"] : o["hi"]])
            elif op == "TrkCopy":
                self.trks.append(DropletTrack(self.trks[o["k"] - 1]))
            elif op == "TrkIndex":
                self.refs.append(self.trks[o["k"] - 1][o["i"] - 1])
            elif op == "EmSave":
                self.file_kind[o["p"]] = "em"
                self.ev[o["e"] - 1].to_file(self.path(o["p"]))
            elif op == "EmLoad":
                self.ev.append(Emulsion.from_file(self.path(o["p"])))
            elif op == "TcSave":
                self.file_kind[o["p"]] = "tc"
                self.tcs[o["c"] - 1].to_file(self.path(o["p"]))
            elif op == "TcLoad":
                self.tcs.append(EmulsionTimeCourse.from_file(self.path(o["p"]), progress=False))
            elif op == "TrkSave":
                self.file_kind[o["p"]] = "trk"
                self.trks[o["k"] - 1].to_file(self.path(o["p"]))
            elif op == "TrkLoad":
                self.trks.append(DropletTrack.from_file(self.path(o["p"])))
            elif op == "TlNew":
                from droplets.droplet_tracks import DropletTrackList

                self.tls.append(DropletTrackList([self.trks[i - 1] for i in o["L"]]))
            elif op == "TlSlice":
                self.tls.append(self.tls[o["l"] - 1][o["lo"] : o["hi"]])
            elif op == "TlRemoveShort":
                self.tls[o["l"] - 1].remove_short_tracks(o["md"])
            elif op == "TlFromTc":
                from droplets.droplet_tracks import DropletTrackList

                kw = {"max_dist": o["md"]} if o["md"] >= 0 else {}
                tl = DropletTrackList.from_emulsion_time_course(self.tcs[o["c"] - 1], method=o["meth"], **kw)
                self.trks.extend(list.__iter__(tl))
                self.tls.append(tl)
            elif op == "EmLocate":
                from droplets import locate_droplets

                kw = {} if o["w"] < 0 else {"interface_width": float(o["w"])}
                self.ev.append(locate_droplets(self._field(o["g"]), **kw))
            elif op == "TcFromStorage":
                from pde import MemoryStorage

                storage = MemoryStorage()
                fields = [self._field(g) for g in o["L"]]
                storage.start_writing(fields[0])
                for k, f in enumerate(fields):
                    storage.append(f, k)
                kw = {} if o["w"] < 0 else {"interface_width": float(o["w"])}
                self.tcs.append(EmulsionTimeCourse.from_storage(storage, progress=False, **kw))
            elif op == "TlSave":
                self.file_kind[o["p"]] = "tl"
                self.tls[o["l"] - 1].to_file(self.path(o["p"]))
            elif op == "TlLoad":
                from droplets.droplet_tracks import DropletTrackList

                tl = DropletTrackList.from_file(self.path(o["p"]), progress=False)
                self.trks.extend(list.__iter__(tl))
                self.tls.append(tl)
            else:
                raise core.MachineryError(f"unknown op {op}")
        except core.MachineryError:
            raise
        except Exception as exc:  # noqa: BLE001
            return type(exc).__name__
        return ""

    # ---- handles: every way the caller can reach a droplet / an emulsion
    def droplet_slots(self):
        out = []
        for i, d in enumerate(self.refs):
            out.append((("r", i + 1, 0, 0), d))
        for e, em in enumerate(self.ev):
            for j, d in enumerate(list.__iter__(em)):
                out.append((("e", e + 1, j + 1, 0), d))
        for c, tc in enumerate(self.tcs):
            for i, em in enumerate(tc.emulsions):
                for j, d in enumerate(list.__iter__(em)):
                    out.append((("c", c + 1, i + 1, j + 1), d))
        for k, tr in enumerate(self.trks):
            for j, d in enumerate(tr.droplets):
                out.append((("t", k + 1, j + 1, 0), d))
        return out

    def emulsion_slots(self):
        out = [(("e", e + 1, 0), em) for e, em in enumerate(self.ev)]
        for c, tc in enumerate(self.tcs):
            for i, em in enumerate(tc.emulsions):
                out.append((("c", c + 1, i + 1), em))
        return out


def _val(d):
    """Observable value of a real droplet."""
    cls = type(d).__name__
    pos = [float(x) for x in d.position]
    w = None
    if cls == "DiffuseDroplet":
        w = d.interface_width
    return {"cls": cls, "dim": len(pos), "x": pos[0], "rest": pos[1:], "r": float(d.data["radius"]), "w": w}


def _radius_get(h):
    return float(h.data["radius"])


def observe(w: World):
    """Project the real world: values per handle + aliasing partitions (found functionally)."""
    dslots = w.droplet_slots()
    vals = {s: _val(d) for s, d in dslots}
    arr_vals = None
    if w.arr is not None:
        arr_vals = [float(w.arr[i]["radius"]) for i in range(len(w.arr))]
    # aliasing: write a sentinel through one handle, see where it appears, restore
    groups = {}
    seen = set()
    handles = [(s, d) for s, d in dslots]
    nar = len(w.arr) if w.arr is not None else 0
    for s, d in handles:
        if s in seen:
            continue
        old = d.data["radius"].copy() if hasattr(d.data["radius"], "copy") else d.data["radius"]
        d.data["radius"] = SENTINEL
        grp = [s2 for s2, d2 in handles if float(d2.data["radius"]) == SENTINEL]
        grp += [("a", i + 1, 0, 0) for i in range(nar) if float(w.arr[i]["radius"]) == SENTINEL]
        d.data["radius"] = old
        for g in grp:
            seen.add(g)
        groups[s] = sorted(grp)
    for i in range(nar):
        s = ("a", i + 1, 0, 0)
        if s in seen:
            continue
        old = float(w.arr[i]["radius"])
        w.arr[i]["radius"] = SENTINEL
        grp = [s2 for s2, d2 in handles if float(d2.data["radius"]) == SENTINEL]
        grp += [("a", j + 1, 0, 0) for j in range(nar) if float(w.arr[j]["radius"]) == SENTINEL]
        w.arr[i]["radius"] = old
        for g in grp:
            seen.add(g)
        groups[s] = sorted(grp)
    dpart = sorted(tuple(g) for g in groups.values())
    eslots = w.emulsion_slots()
    eg = {}
    for s, em in eslots:
        eg.setdefault(id(em), []).append(s)
    epart = sorted(tuple(sorted(g)) for g in eg.values())
    return vals, arr_vals, dpart, epart


def expected(t):
    """The same projection computed from an abstract state of the spec."""
    drops = t["drops"]
    slots = []
    for i, d in enumerate(t["refs"]):
        slots.append((("r", i + 1, 0, 0), d))
    for e, emid in enumerate(t["ev"]):
        for j, d in enumerate(t["ems"][emid - 1]["mem"]):
            slots.append((("e", e + 1, j + 1, 0), d))
    for c, tc in enumerate(t["tcs"]):
        for i, emid in enumerate(tc["ems"]):
            for j, d in enumerate(t["ems"][emid - 1]["mem"]):
                slots.append((("c", c + 1, i + 1, j + 1), d))
    for k, tr in enumerate(t["trks"]):
        for j, d in enumerate(tr["objs"]):
            slots.append((("t", k + 1, j + 1, 0), d))
    vals = {s: drops[d - 1] for s, d in slots}
    groups = {}
    for s, d in slots:
        groups.setdefault(d, []).append(s)
    for i, d in enumerate(t["arr"]):
        groups.setdefault(d, []).append(("a", i + 1, 0, 0))
    dpart = sorted(tuple(sorted(g)) for g in groups.values())
    eg = {}
    for e, emid in enumerate(t["ev"]):
        eg.setdefault(emid, []).append(("e", e + 1, 0))
    for c, tc in enumerate(t["tcs"]):
        for i, emid in enumerate(tc["ems"]):
            eg.setdefault(emid, []).append(("c", c + 1, i + 1))
    epart = sorted(tuple(sorted(g)) for g in eg.values())
    arr_vals = [float(drops[d - 1]["r"]) for d in t["arr"]]
    return vals, arr_vals, dpart, epart


def _close(a, b, tol=1e-12):
    return abs(a - b) <= tol * max(1.0, abs(a), abs(b))


def _layout_name(dt):
    """Emulsion.dtype -> the spec's layout name."""
    if dt is None:
        return "none"
    names = dt.names
    dim = dt["position"].shape[0]
    if names == ("position", "radius"):
        return "S1" if dim == 1 else "S2"
    if names == ("position", "radius", "interface_width") and dim == 1:
        return "D1"
    if names == ("position", "radius", "interface_width", "amplitudes") and dim == 2:
        return {2: "P2a", 4: "P2b"}.get(dt["amplitudes"].shape[0], f"?amplitudes{dt['amplitudes'].shape}")
    return f"?{names}{dim}"


def compare(w: World, t, q, fails: list) -> None:
    """Compare the real world with the spec state t (and the spec's query results q)."""
    from pde.tools.cuboid import Cuboid  # noqa: F401

    # ---- structure
    if len(w.refs) != len(t["refs"]):
        fails.append("refs-length")
    if len(w.ev) != len(t["ev"]):
        fails.append("ev-length")
    if len(w.tcs) != len(t["tcs"]):
        fails.append("tcs-length")
    if len(w.trks) != len(t["trks"]):
        fails.append("trks-length")
    if fails:
        return
    for e, emid in enumerate(t["ev"]):
        if len(w.ev[e]) != len(t["ems"][emid - 1]["mem"]):
            fails.append("emulsion-length")
        if _layout_name(w.ev[e].dtype) != t["ems"][emid - 1]["dt"]:
            fails.append("emulsion-dtype")
    for c, tc in enumerate(t["tcs"]):
        r = w.tcs[c]
        if len(r.times) != len(r.emulsions):
            fails.append("timecourse-misaligned")
        if list(r.times) != list(tc["times"]):
            fails.append("timecourse-times")
        if len(r.emulsions) != len(tc["ems"]):
            fails.append("timecourse-length")
        else:
            for i, emid in enumerate(tc["ems"]):
                if len(r.emulsions[i]) != len(t["ems"][emid - 1]["mem"]):
                    fails.append("timecourse-emulsion-length")
                if _layout_name(r.emulsions[i].dtype) != t["ems"][emid - 1]["dt"]:
                    fails.append("timecourse-emulsion-dtype")
        if len(r) != len(tc["times"]):
            fails.append("timecourse-len")
    for k, tr in enumerate(t["trks"]):
        r = w.trks[k]
        if len(r.times) != len(r.droplets):
            fails.append("track-misaligned")
        if list(r.times) != list(tr["times"]):
            fails.append("track-times")
        if len(r.droplets) != len(tr["objs"]):
            fails.append("track-length")
    for p, f in enumerate(t.get("files", []), 1):
        path = w.path(p)
        if f["kind"] == "none":
            if os.path.exists(path):
                fails.append("file exists although nothing was written")
        else:
            try:
                import h5py

                with h5py.File(path, "r") as fp:
                    nsets = len(fp)
                if nsets != len(f["sets"]):
                    fails.append(f"file {p} holds {nsets} datasets, spec {len(f['sets'])}")
            except OSError as exc:
                fails.append(f"file {p} unreadable: {exc}")
    if len(w.tls) != len(t["tls"]):
        fails.append("tracklists-count")
    else:
        from droplets.droplet_tracks import DropletTrackList

        for l, ids in enumerate(t["tls"]):
            real = w.tls[l]
            if type(real) is not DropletTrackList:
                fails.append("tracklist-class")
            if len(real) != len(ids) or any(real[i] is not w.trks[k - 1] for i, k in enumerate(ids) if i < len(real)):
                fails.append("tracklist-members (a track list holds the caller's track objects, in order)")
    if fails:
        return
    # ---- values and aliasing
    rv, ra, rd, re_ = observe(w)
    xv, xa, xd, xe = expected(t)
    if set(rv) != set(xv):
        fails.append("slots-differ")
        return
    for s, v in xv.items():
        g = rv[s]
        cls, dim = KIND_CLS[v["k"]]
        if g["cls"] != cls or g["dim"] != dim:
            fails.append("droplet-class")
            continue
        if g["r"] != float(v["r"]):
            fails.append("droplet-radius")
        if not _close(g["x"], v["x"][0] / v["x"][1]) or any(x != 0 for x in g["rest"]):
            fails.append("droplet-position")
        if v["k"] == "D1":
            if (g["w"] is None) != (v["w"] < 0) or (g["w"] is not None and g["w"] != float(v["w"])):
                fails.append("droplet-width")
    if (ra or []) != xa and not (w.arr is None and xa == []):
        fails.append("linked-array-values")
    if rd != xd:
        fails.append("aliasing-droplets")
    if re_ != xe:
        fails.append("aliasing-emulsions")
    # ---- summary queries against the spec's folds
    ems = {}
    for e, emid in enumerate(t["ev"]):
        ems[emid] = w.ev[e]
    for c, tc in enumerate(t["tcs"]):
        for i, emid in enumerate(tc["ems"]):
            ems[emid] = w.tcs[c].emulsions[i]
    for emid, em in ems.items():
        mem = t["ems"][emid - 1]["mem"]
        _definitions(em, fails)
        if any(KIND_CLS[t["drops"][d - 1]["k"]][1] != 1 for d in mem):
            continue
        _queries(em, q["em"][emid - 1], fails)
    for k, tr in enumerate(t["trks"]):
        r = w.trks[k]
        if r.duration != q["dur"][k]:
            fails.append("track-duration")
        vs = [t["drops"][d - 1] for d in tr["objs"]]
        if len(vs) > 0 and len({KIND_CLS[v["k"]][1] for v in vs}) == 1:
            traj = r.get_trajectory()
            rad = r.get_radii()
            for j, v in enumerate(vs):
                if not _close(float(traj[j][0]), v["x"][0] / v["x"][1]) or float(rad[j]) != float(v["r"]):
                    fails.append("track-trajectory")
            if r.start != tr["times"][0] or r.end != tr["times"][-1]:
                fails.append("track-start-end")
    _equalities(w, q, fails)
    for c, tc in enumerate(t["tcs"]):
        near = q["near"][c]
        r = w.tcs[c]
        if near:
            for tt, idx in near.items():
                if r.get_emulsion(int(tt)) is not r.emulsions[idx - 1]:
                    fails.append("nearest-time-lookup")
            pairs = list(r.items())
            if [p[0] for p in pairs] != list(tc["times"]) or any(p[1] is not r.emulsions[i] for i, p in enumerate(pairs)):
                fails.append("timecourse-items")


def _equalities(w, q, fails):
    """`==` between collections and DropletTrack.time_overlaps against the spec's definitions ("na": not modelled)"""
    want = {"T": True, "F": False}
    for name, objs in (("emeq", w.ev), ("tceq", w.tcs), ("trkeq", w.trks)):
        for i, row in enumerate(q.get(name, [])):
            for j, x in enumerate(row):
                if x == "na":
                    continue
                try:
                    got = objs[i] == objs[j]
                except Exception as exc:  # noqa: BLE001
                    got = f"raised {type(exc).__name__}"
                if isinstance(got, str) or bool(got) != want[x]:
                    fails.append(f"equality-{name}: {got!r} where the members are {'equal' if want[x] else 'different'}")
    for i, row in enumerate(q.get("tov", [])):
        for j, x in enumerate(row):
            if x == "na":
                continue
            if bool(w.trks[i].time_overlaps(w.trks[j])) != want[x]:
                fails.append("track-time-overlaps")


def _definitions(em, fails):
    """count, mean/spread of radii and volumes, total volume = their definitions over the members (any classes, dimensions)"""
    members = list(list.__iter__(em))
    if not members:
        return
    radii = np.array([d.radius for d in members])
    vols = np.array([d.volume for d in members])
    st = em.get_size_statistics()
    ref = {"count": len(members), "radius_mean": radii.mean(), "radius_std": radii.std(), "volume_mean": vols.mean(), "volume_std": vols.std()}
    for k, v in ref.items():
        if not _close(float(st[k]), float(v), 1e-12):
            fails.append(f"definition-{k}")
    if not _close(float(em.total_droplet_volume), float(vols.sum())):
        fails.append("definition-total-volume")


def _queries(em, q, fails, permuted=True):
    from droplets import Emulsion

    n = q["cnt"]
    if len(em) != n:
        fails.append("query-count")
        return
    st = em.get_size_statistics()
    if n == 0:
        if st["count"] != 0 or not all(math.isnan(st[k]) for k in ("radius_mean", "radius_std", "volume_mean", "volume_std")):
            fails.append("query-statistics-empty")
        try:
            em.bbox
            fails.append("query-bbox-empty-no-error")
        except RuntimeError:
            pass
    else:
        mean = q["sr"] / n
        var = max(0.0, q["sr2"] / n - mean * mean)
        ref = {"count": n, "radius_mean": mean, "radius_std": math.sqrt(var), "volume_mean": 2 * mean,
               "volume_std": 2 * math.sqrt(var)}
        for k, v in ref.items():
            if not _close(float(st[k]), v, 1e-9 if k.endswith("std") else 1e-12):
                fails.append(f"query-{k}")
        b = em.bbox
        lo, hi = q["lo"][0] / q["lo"][1], q["hi"][0] / q["hi"][1]
        if not _close(float(b.bounds[0][0]), lo) or not _close(float(b.bounds[0][1]), hi):
            fails.append("query-bbox")
    st2 = em.get_size_statistics(incl_vanished=False)
    if q["pos"] == 0 and n > 0:
        pass  # mean of an empty selection: not defined by the property
    elif n > 0:
        if st2["count"] != q["pos"] or not _close(float(st2["radius_mean"]), q["sr"] / q["pos"]):
            fails.append("query-statistics-nonvanished")
    if not _close(float(em.total_droplet_volume), 2.0 * q["sr"]):
        fails.append("query-total-volume")
    iw = em.interface_width
    if q["wd"] == 0:
        if iw is not None:
            fails.append("query-interface-width")
    elif iw is None or not _close(float(iw), q["wn"] / q["wd"]):
        fails.append("query-interface-width")
    if permuted and n >= 2:
        # order independence, observed on the implementation itself
        rev = Emulsion(list(reversed(list(list.__iter__(em)))), copy=False)
        _queries(rev, q, fails, permuted=False)


# ---------------------------------------------------------------- replay of the state graph
def _key(state) -> bytes:
    return hashlib.md5(json.dumps(state, sort_keys=True, separators=(",", ":")).encode()).digest()


_G = {}


def _path_ops(fkey):
    ops = []
    parent = _G["parent"]
    while fkey in parent:
        pk, op = parent[fkey]
        ops.append(op)
        fkey = pk
    ops.reverse()
    return ops


def _replay_lines(rng_):
    lo, hi = rng_
    core.setup_repo_import()
    bad = []
    n = 0
    nontriv = 0
    init_vals = _G["init_vals"]
    with open(_G["file"]) as fh:
        for ln, line in enumerate(fh):
            if ln < lo:
                continue
            if ln >= hi:
                break
            rec = json.loads(line)
            ops = _path_ops(_key(rec["f"])) + [rec["o"]]
            w = World(init_vals)
            fails = []
            err = ""
            for o in ops[:-1]:
                w.apply(o)
            err = w.apply(ops[-1])
            if err != rec["e"]:
                fails.append(f"outcome: expected {rec['e'] or 'return'}, got {err or 'return'}")
            try:
                compare(w, rec["t"], rec["q"], fails)
            except core.MachineryError:
                raise
            except Exception as exc:  # noqa: BLE001
                fails.append(f"observation raised {type(exc).__name__}: {exc}")
            w.cleanup()
            n += 1
            if len(ops) >= 3:
                nontriv += 1
            if fails:
                bad.append({"ops": ops, "expected_error": rec["e"], "fails": sorted(set(fails)), "expected_state": rec["t"]})
                if len(bad) > 200:
                    break
    return n, nontriv, bad


def classify(case) -> str | None:
    """Signature of a failing case for the known-findings file."""
    ops = [o["op"] for o in case["ops"]]
    if ops[-1] == "EmMerge" and "EmLink" in ops and any("AttributeError" in f for f in case["fails"]):
        return "merge-after-link-attributeerror"
    return None


def run_config(out: core.Outcome, name: str) -> None:
    import multiprocessing as mp

    core.WORK.mkdir(exist_ok=True)
    cfg = core.WORK / f"MC_Collections_{name}-{os.getpid()}.cfg"
    cfg.write_text(cfg_text(name))
    edges = core.WORK / f"c20-edges-{name}-{os.getpid()}.jsonl"
    parent: dict = {}
    seen = set()
    count = 0
    init_vals = None
    with open(edges, "w") as fh:

        def cb(rec):
            nonlocal count, init_vals
            fk = _key(rec["f"])
            tk = _key(rec["t"])
            if rec["n"] == 0:
                init_vals = rec["f"]["drops"]
            seen.add(fk)
            if tk not in seen and tk not in parent and tk != fk:
                parent[tk] = (fk, rec["o"])
            fh.write(json.dumps(rec, separators=(",", ":")) + "\n")
            count += 1

        try:
            r = core.tlc("MC_Collections", str(cfg), timeout=3400, line_cb=cb, keep_stdout=False)
        finally:
            cfg.unlink(missing_ok=True)
    try:
        if r.violated:
            out.violation({"tlc_config": name, "violated": r.violated, "tlc_tail": r.stdout[-3000:]})
            return
        out.add_tlc(name, r)
        acts = [a for a, (d, g) in r.coverage.items() if g > 0]
        out.parts[name]["transitions_replayed"] = count
        # parent pointers always lead to a state printed earlier, hence to the initial state
        _G.update(parent=parent, file=str(edges), init_vals=init_vals)
        nchunk = core.NCPU * 4
        size = max(1, (count + nchunk - 1) // nchunk)
        ranges = [(i, min(count, i + size)) for i in range(0, count, size)]
        with mp.get_context("fork").Pool(core.NCPU) as pool:
            results = pool.map(_replay_lines, ranges)
        bad = []
        for n, nt, b in results:
            out.evaluations += n
            out.nontrivial_count += nt
            bad += b
        out.parts[name]["mismatches"] = len(bad)
        out.parts[name]["actions_taken"] = sorted(acts)
        for b in bad:
            out.violation({"config": name, "init_vals": init_vals, **b}, signature=classify(b))
    finally:
        edges.unlink(missing_ok=True)


def run(out: core.Outcome) -> None:
    core.setup_repo_import()
    out.rule = (
        "TLC explores every sequence of public collection operations (depth and alphabets per config) on the heap "
        "model Collections.tla and checks Aligned, Owned, ArrShared, OrderFree, HeapGrows; every transition of the "
        "state graph is replayed on real objects (path of API calls to the source state, then the operation) and the "
        "complete observable state, the aliasing partition, exceptions and all summary queries are compared. "
        "Non-trivial = transition reached through at least two earlier operations."
    )
    out.exhaustive = True
    names = QUICK if out.tier == "quick" else QUICK + THOROUGH
    for name in names:
        run_config(out, name)
    try:
        from . import c20trace
    except ImportError:
        c20trace = None
    if c20trace is not None:
        c20trace.run(out)
    out.explanation = out.rule
    out.assumptions = [
        "geometry restricted to one dimension with rational coordinates (2-D droplets only as 'wrong layout' members)",
        "aliasing is observed functionally: a write through one handle that shows up through another",
        "merge of members is modelled for equal classes in 1-D (numerics of merging are C11)",
        "get_linked_data on one class with several dimensions is outside the model (numpy builds an object array)",
    ]


def replay(out: core.Outcome, path: str) -> int:
    core.setup_repo_import()
    case = json.loads(open(path).read())
    w = World(case["init_vals"])
    err = ""
    for o in case["ops"]:
        err = w.apply(o)
        print("op", o, "->", err or "ok")
    fails = []
    if err != case["expected_error"]:
        fails.append(f"outcome: expected {case['expected_error'] or 'return'}, got {err or 'return'}")
    # the queries cannot be recomputed without TLC; compare the state only
    q = {"em": [{"cnt": -1}] * 50, "dur": [], "near": []}
    try:
        rv, ra, rd, re_ = observe(w)
        xv, xa, xd, xe = expected(case["expected_state"])
        if rd != xd:
            fails.append("aliasing-droplets")
        if re_ != xe:
            fails.append("aliasing-emulsions")
        for s, v in xv.items():
            if s not in rv or rv[s]["r"] != float(v["r"]):
                fails.append("droplet-radius")
    except Exception as exc:  # noqa: BLE001
        fails.append(f"observation raised {type(exc).__name__}")
    print("fails:", sorted(set(fails)), "(recorded:", case["fails"], ")")
    if fails:
        print(f"VIOLATION property=C20 replay={path}")
        return 1
    return 0
