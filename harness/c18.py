"""C18 — detection depends on the image only through the documented threshold (Threshold.tla).

spec -> code : TLC enumerates EVERY integer image over small alphabets on a row of N cells and computes, in exact
               arithmetic, the binary image of every rule (numeric thresholds on and between values, extrema, mean,
               Otsu with NBins bins incl. the set of acceptable outcomes under ties), the clusters of an open and of a
               periodic row and the strict size filter; it checks AffineInvariant, StrictThreshold, OtsuSplits,
               FilterStrict, PeriodicRuns.  Every image is replayed: threshold_otsu must return an acceptable bin
               centre; locate_droplets(field, rule) must be bit-identical to locate_droplets_in_mask(spec mask) on
               Cartesian (1-D, 2-D reshape), polar, spherical and cylindrical grids; exactly representable affine
               maps must leave the result bit-identical; the filter must keep exactly the spec's runs.
code -> spec : random large fields: the returned Otsu threshold must be a bin centre maximising the between-class
               variance (recomputed by brute force), the located droplets those of the mask data > threshold.
"""

from __future__ import annotations

import json
import warnings
from fractions import Fraction

import numpy as np

from . import core

CFGS = {  # name: (N, NBins)
    "q_a5": (5, 256), "q_a9": (4, 4), "q_a9b": (4, 8),
    "t_a5": (6, 256), "t_a9": (6, 4), "t_a9b": (6, 8), "t_a9c": (6, 2), "t_a3": (8, 256),
}
QUICK = ["q_a5", "q_a9"]
THOROUGH = ["q_a5", "q_a9", "q_a9b", "t_a5", "t_a9", "t_a9b", "t_a9c", "t_a3"]
AFFINE = [(2.0, -16.0), (4.0, 16.0), (0.5, 0.25), (1.0, -300.0)]


def _same(a, b):
    if len(a) != len(b):
        return False
    for x, y in zip(a, b):
        if type(x) is not type(y) or x.data.dtype != y.data.dtype or x.data.tobytes() != y.data.tobytes():
            return False
    return True


def grids_for(n, idx):
    from pde import CartesianGrid, CylindricalSymGrid, PolarSymGrid, SphericalSymGrid

    dx = [1.0, 0.5, 2.0][idx % 3]
    x0 = [0.0, -1.5, 16.0][idx % 3]
    out = [("cart1", CartesianGrid([[x0, x0 + n * dx]], n, periodic=False), (n,)),
           ("cart1p", CartesianGrid([[x0, x0 + n * dx]], n, periodic=True), (n,)),
           ("polar", PolarSymGrid(n * dx, n), (n,)), ("spherical", SphericalSymGrid(n * dx, n), (n,))]
    if n % 2 == 0:
        out.append(("cart2", CartesianGrid([[0, 2 * dx], [x0, x0 + (n // 2)]], [2, n // 2], periodic=[idx % 2 == 0, False]), (2, n // 2)))
        out.append(("cyl", CylindricalSymGrid(2 * dx, [0, n // 2], [2, n // 2]), (2, n // 2)))
    return out, dx


def _mask_of(cells, n):
    m = np.zeros(n, dtype=bool)
    for c in cells:
        m[c - 1] = True
    return m


def check_image(rec, n, nbins, idx, shard=False):
    from pde import ScalarField

    from droplets.image_analysis import locate_droplets, locate_droplets_in_mask, threshold_otsu

    fails = []
    img = np.array(rec["img"], float)
    lo, hi = img.min(), img.max()
    grids, dx = grids_for(n, idx)
    if shard:  # quick tier: the open and periodic rows always, one of the other families per image
        rest = grids[2:]
        grids = grids[:2] + [rest[idx % len(rest)]]
    # ---- Otsu threshold itself
    otsu_masks = []
    if rec["otsu"]:
        thr = threshold_otsu(img, nbins)
        acc = []
        for o in rec["otsu"]:
            for i in range(o["b"], o["nxt"]):
                centre = float(Fraction(int(lo)) + Fraction(2 * i + 1) * Fraction(int(hi - lo)) / (2 * nbins))
                acc.append((centre, _mask_of(o["maskAtB"] if i == o["b"] else o["maskAbove"], n)))
        hit = [m for c, m in acc if abs(c - thr) <= 1e-12 * max(1.0, abs(c))]
        if not hit:
            fails.append(f"threshold_otsu={thr!r} is not the centre of a bin maximising the between-class variance")
        elif not any(np.array_equal(img > thr, m) for m in hit):
            fails.append("cells above the Otsu threshold differ from the spec's mask")
        otsu_masks = [m for _, m in acc]
    rules = [("extrema", _mask_of(rec["extrema"], n), None), ("auto", _mask_of(rec["extrema"], n), None),
             ("mean", _mask_of(rec["mean"], n), None)]
    for k, (t2, cells) in enumerate(zip(rec["thr2"], rec["numeric"])):
        if not shard or (k + idx) % 3 == 0:
            rules.append((t2 / 2, _mask_of(cells, n), t2 / 2))
    for fam, grid, shape in grids:
        data = img.reshape(shape)
        field = ScalarField(grid, data)
        with warnings.catch_warnings():
            warnings.simplefilter("ignore")
            for rule, mask, t in rules:
                ref = locate_droplets_in_mask(ScalarField(grid, mask.reshape(shape), dtype=bool))
                got = locate_droplets(field, threshold=rule)
                if not _same(got, ref):
                    fails.append(f"{fam}: rule {rule!r} does not locate the droplets of the spec's binary image")
                for a, b in (AFFINE[idx % 4 : idx % 4 + 1] if fam != "cart1" else AFFINE):
                    f2 = ScalarField(grid, a * data + b)
                    g2 = locate_droplets(f2, threshold=(a * t + b) if t is not None else rule)
                    if not _same(g2, got):
                        fails.append(f"{fam}: rule {rule!r} is not invariant under the affine map {a}*v+{b}")
            # ---- the same image stored with an integer dtype (8-bit camera images): a positive affine map into 100..228
            if hi > lo and fam in ("cart1", "cart2", "cart1p"):
                a8 = 128.0 / float(hi - lo)
                if float(a8).is_integer() or float(1 / a8).is_integer():
                    d8 = (a8 * (data - lo) + 100).astype(np.uint8)
                    for dt in (np.uint8, np.int16, np.int8):
                        # int8: levels -64 .. 64, whose difference does not fit the type either
                        arr = d8.astype(dt) if dt is not np.int8 else (d8.astype(np.int16) - 164).astype(np.int8)
                        fi = ScalarField(grid, arr, dtype=dt)
                        for rule, mask, t in rules:
                            if t is not None:
                                continue
                            ref = locate_droplets_in_mask(ScalarField(grid, mask.reshape(shape), dtype=bool))
                            gi = locate_droplets(fi, threshold=rule)
                            if not _same(gi, ref):
                                fails.append(f"{fam}: rule {rule!r} on the image stored as {np.dtype(dt).name} (values {int(d8.min())}..{int(d8.max())}) "
                                             "does not locate the droplets of the spec's binary image")
            # small signed integers with unit steps (values shifted to straddle zero): the mean and the midpoint are
            # negative fractions for many images
            if hi > lo and hi - lo <= 16 and float(hi).is_integer() and float(lo).is_integer() and fam in ("cart1", "cart1p", "cart2"):
                shift = int(round((hi + lo) / 2)) + 1
                fi = ScalarField(grid, (data - shift).astype(np.int8), dtype=np.int8)
                for rule, mask, t in rules:
                    ref = locate_droplets_in_mask(ScalarField(grid, mask.reshape(shape), dtype=bool))
                    gi = locate_droplets(fi, threshold=(t - shift) if t is not None else rule)
                    if not _same(gi, ref):
                        fails.append(f"{fam}: rule {rule!r} on the image shifted by {-shift} and stored as int8 does not locate the droplets of the spec's binary image")
            if nbins == 256 and rec["otsu"]:
                got = locate_droplets(field, threshold="otsu")
                refs = [locate_droplets_in_mask(ScalarField(grid, m.reshape(shape), dtype=bool)) for m in otsu_masks]
                if not any(_same(got, r) for r in refs):
                    fails.append(f"{fam}: rule 'otsu' does not locate the droplets of an acceptable binary image")
                for a, b in AFFINE[:2]:
                    g2 = locate_droplets(ScalarField(grid, a * data + b), threshold="otsu")
                    if not _same(g2, got):
                        fails.append(f"{fam}: rule 'otsu' is not invariant under the affine map {a}*v+{b}")
            # ---- the size filter (rows only: a run of k cells is a droplet of radius k dx / 2)
            if fam in ("cart1", "cart1p"):
                runs = rec["runs"] if fam == "cart1" else rec["runsP"]
                for r2, keep in zip(rec["rmin2"], runs):
                    rmin = r2 * dx / 2
                    got = locate_droplets(field, threshold="extrema", minimal_radius=rmin)
                    radii = sorted(float(d.radius) for d in got)
                    if radii != sorted(k * dx / 2 for k in keep):
                        fails.append(f"{fam}: minimal_radius={rmin}: radii {radii}, spec keeps runs {keep}")
                    if any(d.radius <= rmin for d in got):
                        fails.append(f"{fam}: droplet not larger than the minimal radius returned")
    return fails


def check_specks(out):
    """runs of k one-cell specks next to two droplets: every droplet not larger than the minimal radius is removed"""
    from pde import CartesianGrid, ScalarField

    from droplets.image_analysis import locate_droplets

    for k in range(0, 8):
        for dx in (1.0, 0.5):
            for per in (False, True):
                n = 2 * k + 14
                data = np.zeros(n)
                for i in range(k):
                    data[1 + 2 * i] = 1.0
                data[2 * k + 2 : 2 * k + 5] = 1.0
                data[2 * k + 7 : 2 * k + 11] = 1.0
                grid = CartesianGrid([[0, n * dx]], n, periodic=per)
                for rmin, want in ((0.5 * dx, [1.5 * dx, 2.0 * dx]), (0.0, [0.5 * dx] * k + [1.5 * dx, 2.0 * dx]), (1.5 * dx, [2.0 * dx])):
                    got = sorted(float(d.radius) for d in locate_droplets(ScalarField(grid, data), threshold=0.5, minimal_radius=rmin))
                    out.evaluations += 1
                    if got != sorted(want):
                        out.violation({"specks": {"k": k, "dx": dx, "periodic": per, "minimal_radius": rmin},
                                       "fails": [f"radii {got}, expected {sorted(want)} (droplets with radius > minimal_radius)"]})


def _chunk(args):
    items, n, nbins, shard = args
    core.setup_repo_import()
    bad = []
    for idx, rec in items:
        try:
            fails = check_image(rec, n, nbins, idx, shard)
        except Exception as exc:  # noqa: BLE001
            fails = [f"raised {type(exc).__name__}: {exc}"]
        if fails:
            bad.append({"index": idx, "n": n, "nbins": nbins, "rec": rec, "fails": sorted(set(fails))[:8]})
            if len(bad) > 50:
                break
    return len(items), bad


def _otsu_bruteforce(data, nbins=256):
    counts, edges = np.histogram(data.ravel(), bins=nbins)
    centres = (edges[1:] + edges[:-1]) / 2
    best = -1.0
    vals = np.full(nbins - 1, -1.0)
    for i in range(nbins - 1):
        w1, w2 = counts[: i + 1].sum(), counts[i + 1 :].sum()
        if w1 == 0 or w2 == 0:
            continue
        m1 = (counts[: i + 1] * centres[: i + 1]).sum() / w1
        m2 = (counts[i + 1 :] * centres[i + 1 :]).sum() / w2
        vals[i] = w1 * w2 * (m1 - m2) ** 2
    return centres, vals


def _random_fields(seed, count):
    core.setup_repo_import()
    from pde import CartesianGrid, CylindricalSymGrid, ScalarField, SphericalSymGrid
    from scipy import ndimage

    from droplets.image_analysis import locate_droplets, locate_droplets_in_mask, threshold_otsu

    rng = np.random.default_rng(seed)
    bad = []
    for k in range(count):
        kind = k % 4
        if kind == 0:
            grid = CartesianGrid([[0, 16], [0, 12]], [32, 24], periodic=[True, False])
        elif kind == 1:
            grid = CartesianGrid([[-3, 29]], 64, periodic=True)
        elif kind == 2:
            grid = SphericalSymGrid(10, 40)
        else:
            grid = CylindricalSymGrid(6, [0, 20], [12, 40], periodic_z=bool(k % 8 == 3))
        raw = ndimage.gaussian_filter(rng.standard_normal(grid.shape), sigma=rng.uniform(1, 3), mode="wrap")
        style = rng.integers(0, 3)
        if style == 0:
            data = raw**3
        elif style == 1:
            data = np.tanh(4 * raw / raw.std()) + 0.1 * rng.standard_normal(grid.shape)
        else:
            data = np.exp(raw / raw.std())
        data = data * rng.choice([1.0, 8.0, 0.125]) + rng.choice([0.0, -5.0, 100.0])
        field = ScalarField(grid, data)
        fails = []
        with warnings.catch_warnings():
            warnings.simplefilter("ignore")
            thr = threshold_otsu(data)
            centres, vals = _otsu_bruteforce(data)
            j = np.flatnonzero(np.abs(centres - thr) <= 1e-12 * max(1.0, abs(thr)))
            if len(j) == 0:
                fails.append("threshold_otsu is not a bin centre of the 256-bin histogram")
            elif j[0] >= len(vals) or vals[j[0]] < vals.max() * (1 - 1e-9):
                fails.append("threshold_otsu does not maximise the between-class variance")
            for rule, t in (("otsu", thr), ("mean", float(data.mean())), ("extrema", float(data.min() + data.max()) / 2),
                            ("auto", float(data.min() + data.max()) / 2)):
                got = locate_droplets(field, threshold=rule)
                ref = locate_droplets_in_mask(ScalarField(grid, data > t, dtype=bool))
                if not _same(got, ref):
                    fails.append(f"rule {rule}: droplets differ from those of the binary image data > threshold")
                g2 = locate_droplets(ScalarField(grid, 2.0 * data), threshold=rule)
                if not _same(g2, got):
                    fails.append(f"rule {rule}: not invariant under scaling the intensities by 2")
            rmin = float(rng.uniform(0.2, 1.5))
            got = locate_droplets(field, threshold="mean", minimal_radius=rmin)
            allc = locate_droplets(field, threshold="mean", minimal_radius=-np.inf)
            if any(d.radius <= rmin for d in got) or not _same(got, [d for d in allc if d.radius > rmin]):
                fails.append("minimal_radius filter differs from {d : radius > minimal_radius}")
        if fails:
            bad.append({"random_field": {"seed": seed, "k": k, "grid": repr(grid)}, "fails": fails})
    return count, bad


def check_refined_filter(seed, count):
    """the minimal radius also holds for what refinement returns: with a low threshold a cluster is larger than the droplet
    the fit finds in it, so a minimal radius between the two radii must leave nothing"""
    from pde import CartesianGrid, ScalarField

    from droplets import DiffuseDroplet
    from droplets.image_analysis import locate_droplets

    rng = np.random.default_rng(seed)
    bad = []
    for k in range(count):
        dx = [1.0, 0.5, 2.0][k % 3]
        grid = CartesianGrid([[0, 32 * dx], [0, 28 * dx]], [32, 28], periodic=[bool(k % 2), False])
        R, w = rng.uniform(3.6, 4.6) * dx, rng.uniform(1.2, 2.0) * dx
        pos = np.array([rng.uniform(13, 19), rng.uniform(12, 16)]) * dx
        field = DiffuseDroplet(pos, R, w).get_phase_field(grid)
        thr = [0.125, 0.0625, 0.25][k % 3]
        fails = []
        with warnings.catch_warnings():
            warnings.simplefilter("ignore")
            plain = locate_droplets(field, threshold=thr)
            fitted = locate_droplets(field, threshold=thr, refine=True)
            if len(plain) != 1 or len(fitted) != 1 or not (plain[0].radius > fitted[0].radius + 0.2 * dx):
                raise core.MachineryError("scenario: the cluster is not larger than the fitted droplet")
            rc, rf = float(plain[0].radius), float(fitted[0].radius)
            for rmin, expect in ((rf - 0.3 * dx, 1), ((rc + rf) / 2, 0), (rc + 0.3 * dx, 0)):
                got = locate_droplets(field, threshold=thr, refine=True, minimal_radius=rmin)
                if any(not (d.radius > rmin) for d in got):
                    fails.append(f"refine=True, minimal_radius={rmin!r}: a droplet of radius {[float(d.radius) for d in got]} is returned (cluster radius {rc!r})")
                elif len(got) != expect:
                    fails.append(f"refine=True, minimal_radius={rmin!r}: {len(got)} droplets, expected {expect} (cluster radius {rc!r}, fitted radius {rf!r})")
        if fails:
            bad.append({"refined_filter": {"seed": seed, "k": k}, "fails": fails})
    return count, bad


def run(out: core.Outcome) -> None:
    import multiprocessing as mp

    core.setup_repo_import()
    out.rule = (
        "TLC enumerates every image over the alphabet on N cells and computes masks, Otsu outcomes, runs and filters "
        "exactly, checking the affine-invariance / strictness invariants; every image is replayed through threshold_otsu "
        "and locate_droplets on six grid families against locate_droplets_in_mask of the spec's mask, with affine maps "
        "and minimal radii. Random large fields are judged against a brute-force Otsu objective. Non-trivial = non-constant image."
    )
    out.exhaustive = True
    for name in QUICK if out.tier == "quick" else THOROUGH:
        n, nbins = CFGS[name]
        r = core.tlc("MC_Threshold", f"MC_Threshold_{name}.cfg", timeout=3400)
        if r.violated:
            out.violation({"tlc_config": name, "violated": r.violated, "tlc_tail": r.stdout[-3000:]})
            continue
        r.require_actions(["Complete"])
        out.add_tlc(name, r)
        items = list(enumerate(r.printed))
        size = max(1, len(items) // (core.NCPU * 4))
        chunks = [(items[i : i + size], n, nbins, out.tier == "quick") for i in range(0, len(items), size)]
        with mp.get_context("fork").Pool(core.NCPU) as pool:
            results = pool.map(_chunk, chunks)
        nbad = 0
        for cnt, bad in results:
            out.evaluations += cnt
            nbad += len(bad)
            for b in bad:
                out.violation({"config": name, **b})
        out.nontrivial_count += sum(1 for _, rec in items if len(set(rec["img"])) > 1)
        out.parts[name].update(images=len(items), mismatches=nbad)
        out.sample({"config": name, "image": r.printed[len(r.printed) // 3]}, limit=3)
    check_specks(out)
    nrand = 160 if out.tier == "quick" else 3200
    per = nrand // core.NCPU
    with mp.get_context("fork").Pool(core.NCPU) as pool:
        res = pool.starmap(_random_fields, [(out.seed * 100 + k, per) for k in range(core.NCPU)])
    for cnt, bad in res:
        out.traces += cnt
        for b in bad:
            out.violation(b)
    nref = 2 if out.tier == "quick" else 12
    with mp.get_context("fork").Pool(core.NCPU) as pool:
        res = pool.starmap(check_refined_filter, [(out.seed * 100 + k, nref) for k in range(core.NCPU)])
    for cnt, bad in res:
        out.evaluations += cnt
        for b in bad:
            out.violation(b)
    out.parts["refined_filter"] = {"cases": nref * core.NCPU}
    out.explanation = out.rule
    out.assumptions = [
        "integer images with alphabets for which bin edges are exactly representable (no rounding knife-edge)",
        "constant images are not judged under the Otsu rule (the between-class variance is undefined)",
        "affine maps on lattice images are exactly representable; random fields are only scaled by 2",
    ]


def replay(out, path):
    core.setup_repo_import()
    case = json.loads(open(path).read())
    if "rec" not in case:
        print(json.dumps(case)[:1500])
        return 0
    fails = check_image(case["rec"], case["n"], case["nbins"], case["index"])
    print("fails:", fails)
    if fails:
        print(f"VIOLATION property=C18 replay={path}")
        return 1
    return 0
