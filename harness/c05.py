"""C05 — refined localisation recovers position, radius and interface width (Recover.tla).

This is a numeric-accuracy claim about a non-linear fit; TLC cannot establish it.  The specification contributes the
complete scenario space with the premises of the property written out (Recover.tla: family x periodicity x spacing ratio x
threshold rule x intensity map x level option x centre class x radius x width x count, 64 200 admissible scenarios, all
enumerated by TLC) and the expected abstract result (one result per original within 1e-4).  The harness replays scenarios
through the real code: the thorough tier all of them, the quick tier a sample that covers every PAIR of factor values.
The unrefined half of the pipeline (one candidate per droplet within half a cell) is model-checked by C01.
"""

from __future__ import annotations

import copy
import itertools
import json
import math
import random
import warnings

import numpy as np

from . import core

MAPS = {"unit": (0.0, 1.0), "pm0.1": (-0.1, 0.1), "m0.3_0.9": (-0.3, 0.9), "5_6": (5.0, 6.0), "m3_m1": (-3.0, -1.0)}
RATIO = {"1": 1.0, "5/4": 1.25, "3/2": 1.5}
FACTORS = ["fam", "per", "ratio", "rule", "map", "levels", "centre", "radius", "width", "n"]
TOL = 1e-4


def build(sc, seed):
    from pde import CartesianGrid, CylindricalSymGrid, PolarSymGrid, SphericalSymGrid

    from droplets import DiffuseDroplet, Emulsion

    rng = np.random.default_rng(seed)
    fam = sc["fam"]
    dx = [1.0, 0.5, 2.0, 2.0**-13, 2.0**-20, 2.0**10][seed % 6]   # spacings from 1e-6 to 1e3: lengths are only a unit
    ratio = RATIO[sc["ratio"]]
    R = float(sc["radius"]) * dx
    w = float(sc["width"]) * dx
    if fam.startswith("cart"):
        dim = int(fam[-1])
        shape = {1: [64], 2: [44, 32], 3: [20, 20, 18]}[dim]
        spac = [dx] * dim
        spac[-1] = dx * ratio
        if sc["radius"] == "5.5" and dim == 2:
            shape = [56, 40]
        if sc["n"] == 2 and dim == 2:
            shape = [72, 32]     # two droplets must be well separated also for the large fit regions of low thresholds
        if sc["n"] == 1 and dim == 2 and sc["rule"] == "mean" and seed % 3 == 0:
            shape = [64, 64]     # a dilute image: the mean is close to the background level
        per = {"none": [False] * dim, "first": [True] + [False] * (dim - 1), "all": [True] * dim}[sc["per"]]
        lo = [float(rng.choice([0.0, -3.0 * dx, 16.0 * dx])) for _ in range(dim)]
        grid = CartesianGrid([(l, l + n * s) for l, n, s in zip(lo, shape, spac)], shape, periodic=per)
        centres = []
        for k in range(sc["n"]):
            c = []
            for a in range(dim):
                L = shape[a] * spac[a]
                at_seam = sc["centre"] in ("seam-left", "seam-right", "outside") and per[0]
                frac = 0.5 if sc["n"] == 1 or a > 0 else ((0.27 if k == 0 else 0.73) if not at_seam else 0.5)
                mid = lo[a] + frac * L
                cell = lo[a] + (int(round((mid - lo[a]) / spac[a])) + 0.5) * spac[a]
                cls = sc["centre"]
                if a > 0 and cls in ("seam-left", "seam-right", "outside") and not per[a]:
                    cls = "generic"
                if k > 0 and cls in ("seam-left", "seam-right", "outside"):
                    cls = "generic"
                if cls == "cell-centre":
                    x = cell
                elif cls == "cell-corner":
                    x = cell + 0.5 * spac[a]
                elif cls == "generic":
                    x = cell + rng.uniform(-0.5, 0.5) * spac[a]
                elif cls == "seam-left":
                    x = lo[a] + L - 0.03 * spac[a] if per[a] else cell + 0.2 * spac[a]
                elif cls == "seam-right":
                    x = lo[a] + 0.03 * spac[a] if per[a] else cell - 0.2 * spac[a]
                else:
                    x = lo[a] + L + 2.3 * spac[a] if per[a] else cell
                c.append(x)
            centres.append(np.array(c))
        periods = [shape[a] * spac[a] if per[a] else None for a in range(dim)]
    elif fam in ("polar", "spherical"):
        # a disc / ball, or (every other seed) an annulus / shell whose hole lies well inside the droplet
        r_in = 0.0 if (seed // 6) % 2 == 0 else 4.5 * dx
        R = R * 1.6 + r_in
        cls_g = PolarSymGrid if fam == "polar" else SphericalSymGrid
        grid = cls_g((r_in, r_in + 28 * dx) if r_in else 28 * dx, 56)
        centres, periods = [np.zeros(2 if fam == "polar" else 3)], [None] * (2 if fam == "polar" else 3)
    else:
        pz = sc["per"] == "first"
        grid = CylindricalSymGrid(14 * dx, [2.0 * dx, 42.0 * dx], [28, 80], periodic_z=pz)
        centres, periods = [np.array([0.0, 0.0, 22.0 * dx + rng.uniform(-0.5, 0.5) * dx])], [None] * 3
    drops = [DiffuseDroplet(c, R * (1.0 if k == 0 else 0.9), w) for k, c in enumerate(centres)]
    vmin, vmax = MAPS[sc["map"]]
    with warnings.catch_warnings():
        warnings.simplefilter("ignore")
        field = Emulsion(drops).get_phasefield(grid)
    field.data[...] = vmin + (vmax - vmin) * field.data
    thr = vmin + 0.5 * (vmax - vmin) if sc["rule"] == "0.5" else sc["rule"]
    ra = {"supplied": dict(vmin=vmin, vmax=vmax), "supplied+fitted": dict(vmin=vmin, vmax=vmax, adjust_values=True),
          "auto+fitted": dict(vmin=None, vmax=None, adjust_values=True)}[sc["levels"]]
    return field, drops, periods, thr, ra


def run_scenario(sc, seed):
    from droplets.image_analysis import locate_droplets

    field, drops, periods, thr, ra = build(sc, seed)
    ra_before = dict(ra)
    fails = []
    try:
        with warnings.catch_warnings():
            warnings.simplefilter("ignore")
            if sc["levels"] == "auto+fitted" and seed % 2 == 0:
                # the way trackers and from_storage work: ONE options dict serves several images with different levels
                vmin, vmax = MAPS[sc["map"]]
                warm = field.copy()
                warm.data[...] = (field.data - vmin) / (vmax - vmin) * 2.5 + 1.5
                locate_droplets(warm, threshold="extrema", refine=True, refine_args=ra)
            if seed % 4 == 1:
                # an earlier, deliberately sloppy analysis with options of its own: nothing of it may linger
                locate_droplets(field, threshold=thr, refine=True, refine_args={**copy.deepcopy(ra), "tolerance": 1e-2})
            em = locate_droplets(field, threshold=thr, refine=True, refine_args=ra)
    except Exception as exc:  # noqa: BLE001
        return [f"raised {type(exc).__name__}: {str(exc)[:100]}"], None
    if ra != ra_before:
        fails.append(f"locate_droplets modified the caller's refine_args: {ra_before} -> {ra}")
    if len(em) != len(drops):
        return [f"{len(em)} droplets returned for {len(drops)} originals"], None
    worst = 0.0
    used = set()
    for d in drops:
        best = None
        for i, e in enumerate(em):
            if i in used:
                continue
            dp = np.asarray(e.position, float) - np.asarray(d.position, float)
            for a, P in enumerate(periods):
                if P is not None:
                    dp[a] = (dp[a] + P / 2) % P - P / 2
            dist = float(np.linalg.norm(dp))
            if best is None or dist < best[0]:
                best = (dist, i, e)
        dist, i, e = best
        used.add(i)
        errs = {"position": dist / d.radius, "radius": abs(e.radius - d.radius) / d.radius,
                "width": abs((e.interface_width or 0) - d.interface_width) / d.interface_width}
        for k, v in errs.items():
            worst = max(worst, v)
            if not (v < TOL):
                fails.append(f"{k} error {v:.2e} (relative) >= 1e-4")
        for a, P in enumerate(periods):
            if P is not None:
                lo_, hi_ = field.grid.axes_bounds[a]
                if not (lo_ - 1e-9 <= e.position[a] <= hi_ + 1e-9):
                    fails.append("position outside the box along a periodic axis")
    return fails, worst


def covering_sample(scens, seed, base):
    """seeded random sample extended greedily until every pair of factor values (that occurs at all) is covered"""
    rng = random.Random(seed)
    idx = list(range(len(scens)))
    rng.shuffle(idx)
    chosen = idx[:base]
    pairs_needed = set()
    for s in scens:
        for a, b in itertools.combinations(FACTORS, 2):
            pairs_needed.add((a, s[a], b, s[b]))
    covered = set()
    for i in chosen:
        s = scens[i]
        for a, b in itertools.combinations(FACTORS, 2):
            covered.add((a, s[a], b, s[b]))
    for i in idx[base:]:
        if len(covered) == len(pairs_needed):
            break
        s = scens[i]
        new = [(a, s[a], b, s[b]) for a, b in itertools.combinations(FACTORS, 2) if (a, s[a], b, s[b]) not in covered]
        if new:
            chosen.append(i)
            covered.update(new)
    return chosen, len(covered), len(pairs_needed)


def _chunk(items):
    core.setup_repo_import()
    bad = []
    worst = 0.0
    for idx, sc, seed in items:
        fails, w = run_scenario(sc, seed)
        if w is not None:
            worst = max(worst, w)
        if fails:
            bad.append({"index": idx, "scenario": sc, "seed": seed, "fails": fails})
    return len(items), worst, bad


def classify(b):
    return None


def run(out: core.Outcome) -> None:
    import multiprocessing as mp

    core.setup_repo_import()
    out.rule = (
        "TLC enumerates the complete admissible scenario space of Recover.tla (64 200 scenarios); each replayed scenario is "
        "rendered with concrete spacings between 2^-20 and 2^10 and a seeded sub-cell jitter, located with refinement, and every original "
        "must be matched by exactly one result with relative errors of position (per radius), radius and width below 1e-4. "
        "Quick: a seeded sample covering every pair of factor values; thorough: every scenario. Non-trivial = all."
    )
    r = core.tlc("MC_Recover", "MC_Recover.cfg", timeout=900)
    if r.violated:
        out.violation({"tlc_config": "MC_Recover", "violated": r.violated, "tlc_tail": r.stdout[-3000:]})
        return
    out.add_tlc("scenarios", r)
    scens = r.printed
    if out.tier == "quick":
        chosen, cov, need = covering_sample(scens, out.seed, 350)
        out.parts["scenarios"].update(pairs_covered=cov, pairs_total=need)
        if cov != need:
            raise core.MachineryError("covering sample does not cover all pairs")
    else:
        chosen = list(range(len(scens)))
    # quick: every sampled scenario at three of the six spacings (and three jitters / origins); thorough: all at one
    items = [(i, scens[i], out.seed * 7 + i + k) for i in chosen for k in ((0, 1, 3) if out.tier == "quick" else (0,))]
    # 3-D first
    items.sort(key=lambda it: -(3 if it[1]["fam"] in ("cart3",) else 1))
    chunks = [items[i :: core.NCPU * 6] for i in range(core.NCPU * 6)]
    with mp.get_context("fork").Pool(core.NCPU) as pool:
        results = pool.map(_chunk, [c for c in chunks if c])
    worst = 0.0
    nbad = 0
    for n, w, bad in results:
        out.evaluations += n
        worst = max(worst, w)
        nbad += len(bad)
        for b in bad:
            out.violation(b, signature=classify(b))
    out.nontrivial_count = out.evaluations
    out.parts["scenarios"].update(enumerated=len(scens), replayed=len(items), mismatches=nbad, worst_relative_error=worst)
    out.sample(scens[len(scens) // 3])
    out.explanation = out.rule
    out.assumptions = [
        "numeric oracle: the tolerance 1e-4 is the property's; convergence for all reals is not decided, scenarios x concrete values are sampled",
        "intensity ranges of at least 0.2 (the solver's absolute gradient tolerance limits the accuracy for very low contrast)",
        "droplets on cylindrical grids stay away from the ends of the axis; automatic levels only with widths <= 1.5 cells",
    ]


def replay(out, path):
    core.setup_repo_import()
    case = json.loads(open(path).read())
    fails, w = run_scenario(case["scenario"], case["seed"])
    print("fails:", fails, "worst:", w)
    if fails:
        print(f"VIOLATION property=C05 replay={path}")
        return 1
    return 0
