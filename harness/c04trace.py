"""C04, code -> spec: random executions of the real refine_droplet validated by TLC against Refine.tla (TraceRefine.tla).

Every run draws a grid (family, shape, spacing, periodicity), a candidate (class, modes, width option, distinct values in
every data slot so that the parameters handed to the solver identify their slots), an image (rendered truth with or without
noise, pure noise, constant, rescaled) and level options.  scipy's least_squares is replaced by a recording proxy; what the
implementation was seen to do is written into one trace record, together with the environment facts (support / flat / w2)
that the harness computes on its own.  TLC executes the spec's actions on (req, env) and compares every action with the
observation that belongs to it.
"""

from __future__ import annotations

import warnings

import numpy as np

from . import core
from .c04 import Proxy


def random_grid(rng):
    from pde import CartesianGrid, CylindricalSymGrid, PolarSymGrid, SphericalSymGrid

    kind = rng.choice(["cart1", "cart2", "cart2", "cart3", "polar", "spherical", "cyl", "cyl"])
    h = float(rng.choice([0.25, 0.5, 1.0, 0.7, 1.3]))
    if kind.startswith("cart"):
        dim = int(kind[-1])
        per = [bool(rng.integers(2)) for _ in range(dim)]
        shape = [int(rng.integers(10, 26 if dim < 3 else 13)) for _ in range(dim)]
        aniso = [h * float(rng.choice([1.0, 1.0, 1.25, 0.8])) for _ in range(dim)]
        lo = [float(rng.choice([0.0, -3.0, 2.5])) for _ in range(dim)]
        grid = CartesianGrid([[lo[a], lo[a] + shape[a] * aniso[a]] for a in range(dim)], shape, periodic=per)
        fam = {"name": "cart", "dim": dim, "constraints": [], "periodic": [a + 1 for a in range(dim) if per[a]]}
    elif kind == "polar":
        grid = PolarSymGrid(h * 24, 24)
        fam = {"name": "polar", "dim": 2, "constraints": [1, 2], "periodic": []}
    elif kind == "spherical":
        grid = SphericalSymGrid(h * 24, 24)
        fam = {"name": "spherical", "dim": 3, "constraints": [1, 2, 3], "periodic": []}
    else:
        pz = bool(rng.integers(2))
        grid = CylindricalSymGrid(h * 12, [-2.0, -2.0 + h * 32], [12, 32], periodic_z=pz)
        fam = {"name": "cylindrical-periodic" if pz else "cylindrical", "dim": 3, "constraints": [1, 2],
               "periodic": [3] if pz else []}
    # the family record is READ OFF the grid, not assumed
    cc = sorted(int(i) + 1 for i in grid.coordinate_constraints)
    if cc != fam["constraints"]:
        raise core.MachineryError(f"grid {grid} has constraints {cc}, expected {fam['constraints']}")
    return grid, fam


def make_case(seed):
    from droplets import droplets as D

    rng = np.random.default_rng(seed)
    grid, fam = random_grid(rng)
    dim = fam["dim"]
    h = float(grid.typical_discretization)
    n = fam["name"]
    classes = ["SphericalDroplet", "DiffuseDroplet"]
    if dim == 2:
        classes += ["PerturbedDroplet2D"] * 2
    if dim == 3:
        classes += ["PerturbedDroplet3D"]
        if n.startswith("cyl"):
            classes += ["PerturbedDroplet3DAxisSym"] * 2
    cand_cls = str(rng.choice(classes))
    modes = int(rng.integers(1, 5)) if cand_cls.startswith("Perturbed") else 0
    wopt = "none" if cand_cls == "SphericalDroplet" else str(rng.choice(["none", "given", "zero", "given"]))
    lopt = str(rng.choice(["fixed", "auto", "adjust", "autoadjust"]))
    imgkind = str(rng.choice(["clean", "noisy", "noise", "constant", "tiny", "rescaled", "clean", "noisy"]))
    lo = np.array([b[0] for b in grid.axes_bounds], float)
    hi = np.array([b[1] for b in grid.axes_bounds], float)
    # truth
    if n == "cart":
        pos = lo + (hi - lo) * rng.uniform(0.3, 0.7, dim)
        for a in fam["periodic"]:
            if rng.integers(2):
                pos[a - 1] = hi[a - 1] - rng.uniform(0, 1.0) * h      # straddles the periodic boundary
        R = float(min(hi - lo)) * rng.uniform(0.15, 0.28)
    elif n in ("polar", "spherical"):
        pos = np.zeros(dim)
        R = float(hi[0]) * rng.uniform(0.2, 0.6)
    else:
        pos = np.array([0.0, 0.0, lo[1] + (hi[1] - lo[1]) * rng.uniform(0.3, 0.7)])
        R = float(hi[0]) * rng.uniform(0.3, 0.6)
    w_true = h * rng.uniform(0.8, 1.6)
    # candidate: displaced; all data slots pairwise distinct and different from the levels
    cpos = pos.copy()
    for a in range(dim):
        cpos[a] += rng.uniform(-0.5, 0.5) * h
    if n == "cart":
        for a in fam["periodic"]:
            if rng.integers(3) == 0:
                cpos[a - 1] += (hi[a - 1] - lo[a - 1]) * int(rng.choice([-1, 1, 2]))   # outside the box
    else:
        for cidx in fam["constraints"]:
            if cidx <= dim:
                off = 1 if rng.integers(2) and cand_cls != "PerturbedDroplet3DAxisSym" else 0
                cpos[cidx - 1] = (0.011 + 0.007 * cidx) * h * off   # on or slightly off the axis
    cR = R * rng.uniform(0.9, 1.1)
    cw = {"none": None, "given": float(h * rng.choice([0.3, 0.6, 1.0, 1.2, 1.6, 2.1])), "zero": 0.0}[wopt]
    amps = rng.uniform(-0.06, 0.06, modes)
    camps = np.array([0.013 * (k + 1) * (-1) ** k for k in range(modes)])
    if imgkind == "tiny":
        cR = 0.04 * h
        if n == "cart":
            # between support points
            cpos = lo + (np.floor((cpos - lo) / np.array(grid.discretization)) % np.array(grid.shape)) * np.array(grid.discretization)

    def mk(c, p, r, ww, a):
        cl = getattr(D, c)
        if c == "SphericalDroplet":
            return cl(p, r)
        if c == "DiffuseDroplet":
            return cl(p, r, ww)
        return cl(p, r, ww, a)

    truth_cls = "DiffuseDroplet" if cand_cls == "SphericalDroplet" else cand_cls
    truth = mk(truth_cls, pos, R, w_true, amps)
    cand = mk(cand_cls, cpos, cR, cw, camps)
    levels = [(0.0, 1.0), (2.0, 5.0), (-3.0, -1.0), (-0.25, 0.125)][int(rng.integers(4))]
    with warnings.catch_warnings():
        warnings.simplefilter("ignore")
        field = truth.get_phase_field(grid, vmin=levels[0], vmax=levels[1])
    if imgkind == "noisy":
        field.data += 0.05 * (levels[1] - levels[0]) * rng.standard_normal(field.data.shape)
    elif imgkind == "noise":
        field.data[...] = rng.uniform(levels[0], levels[1], field.data.shape)
    elif imgkind == "constant":
        field.data[...] = float(rng.choice([0.0, 1.0, 2.75, -1.5]))
    elif imgkind == "rescaled":
        field.data[...] = 3.0 * field.data - 1.0
    if lopt in ("fixed", "adjust"):
        if imgkind == "constant" and rng.integers(2):
            v = float(field.data.flat[0]) if rng.integers(2) else 0.5
            kw = dict(vmin=v, vmax=v)                     # supplied levels coincide: intensity range zero
        else:
            kw = dict(vmin=levels[0], vmax=levels[1])
    else:
        kw = dict(vmin=None, vmax=None)
    if lopt in ("adjust", "autoadjust"):
        kw["adjust_values"] = True
    req = {"fam": fam, "cand": cand_cls, "modes": modes, "width": wopt, "levels": lopt}
    return grid, fam, cand, field, kw, req, imgkind


KINDS = {-np.inf: "ninf", 0.0: "zero", -1.0: "m1", np.inf: "inf", 1.0: "one"}


def kind(v):
    return KINDS.get(float(v), "other")


def run_trace(seed):
    """returns (trace record, info) -- the record is what TLC sees"""
    from scipy import ndimage

    from droplets import DiffuseDroplet, image_analysis

    grid, fam, cand, field, kw, req, imgkind = make_case(seed)
    dim = fam["dim"]
    h = float(grid.typical_discretization)
    cand0 = cand.copy()
    img0 = field.data.tobytes()
    # ---- environment facts, computed without the function under test
    pr = cand0.copy() if isinstance(cand0, DiffuseDroplet) else DiffuseDroplet.from_droplet(cand0)
    w_start = pr.interface_width if pr.interface_width is not None else h
    pr.interface_width = w_start
    w2 = int(np.floor(2 * w_start / h))     # in cells
    mask0 = pr._get_phase_field(grid, dtype=bool)
    support = bool(mask0.any())
    counts = {}
    for k in range(1, 9):
        counts[k] = int(ndimage.binary_dilation(mask0, iterations=k).sum())
    region = ndimage.binary_dilation(mask0, iterations=1 + w2)
    if support:
        dm = field.data[region]
        v0 = kw["vmin"] if kw["vmin"] is not None else float(dm.min())
        v1 = kw["vmax"] if kw["vmax"] is not None else float(dm.max())
        flat = bool(v1 - v0 == 0)
    else:
        v0 = v1 = 0.0
        flat = False
    env = {"support": support, "flat": flat, "w2": w2}
    # ---- the call
    obs = {"raised": "", "cls": "", "width": "", "calls": 0, "iters": [], "free": [], "lower": [], "upper": [], "nextra": 0,
           "xlo": [], "xhi": [], "notworse": True, "inbounds": True, "changed": [], "frozen_ok": True, "inbox": True,
           "finite": True, "nonneg": True, "amps_ok": True, "image_intact": True, "width_set": True, "why": ""}
    proxy = Proxy(image_analysis.optimize)
    image_analysis.optimize = proxy
    try:
        with warnings.catch_warnings():
            warnings.simplefilter("ignore")
            res = image_analysis.refine_droplet(field, cand, **kw)
    except Exception as exc:  # noqa: BLE001
        obs["raised"] = f"{type(exc).__name__}: {str(exc)[:80]}"
        return {"req": req, "env": env, "obs": obs}, {"seed": seed, "image": imgkind}
    finally:
        image_analysis.optimize = proxy.real
    obs["cls"] = type(res).__name__
    obs["calls"] = len(proxy.calls)
    why = []
    data0 = np.asarray(pr._data_array if hasattr(pr, "_data_array") else [], float)
    from numpy.lib.recfunctions import structured_to_unstructured

    slots = structured_to_unstructured(pr.data).astype(float)       # position.., radius, width, amplitudes..
    if proxy.calls:
        c = proxy.calls[0]
        x0 = c["x0"]
        obs["iters"] = [k for k, n in counts.items() if n == c["nres"]]
        # identify the slots of the parameters handed over (greedy, in order; slot values are pairwise distinct
        # unless a frozen coordinate is exactly zero, which can then not be matched twice anyway)
        free = []
        p = 0
        for i, v in enumerate(slots):
            if p < len(x0) and x0[p] == v:
                free.append(i + 1)
                p += 1
        rest = x0[p:]
        obs["free"] = free
        lo = np.broadcast_to(c["lo"], x0.shape)
        hi = np.broadcast_to(c["hi"], x0.shape)
        obs["lower"] = [kind(v) for v in lo[: len(free)]]
        obs["upper"] = [kind(v) for v in hi[: len(free)]]
        obs["nextra"] = int(len(rest))
        if len(rest) == 2:
            names_lo = {v0 - (v1 - v0): "vmin-vrng", 0.0: "zero"}
            names_hi = {v1: "vmax", 3 * (v1 - v0): "3vrng"}
            obs["xlo"] = [("vmin-vrng" if lo[-2] == v0 - (v1 - v0) else "other"), ("zero" if lo[-1] == 0.0 else "other")]
            obs["xhi"] = [("vmax" if hi[-2] == v1 else "other"), ("3vrng" if hi[-1] == 3 * (v1 - v0) else "other")]
            if list(rest) != [v0, v1 - v0]:
                obs["xlo"] = ["start-other", "start-other"]
        elif len(rest) != 0:
            obs["xlo"] = ["?"] * len(rest)
            obs["xhi"] = ["?"] * len(rest)
        obs["notworse"] = bool(c["c1"] <= c["c0"] * (1 + 1e-12) + 1e-300)
        obs["inbounds"] = bool(np.all(c["x"] >= lo - 1e-12) and np.all(c["x"] <= hi + 1e-12))
        # width the fit started with
        wslot = dim + 2
        if wslot in free:
            wv = x0[free.index(wslot)]
        else:
            wv = None
        sol_pos = {i: c["x"][k] for k, i in enumerate(free) if i <= dim}
    else:
        wv = res.interface_width if isinstance(res, DiffuseDroplet) else None
        sol_pos = {i + 1: pr.position[i] for i in range(dim)}
    if wv is None:
        obs["width"] = "unobserved"
    elif cand0.__class__.__name__ != "SphericalDroplet" and getattr(cand0, "interface_width", None) is not None:
        obs["width"] = ("zero" if wv == 0.0 else "given") if wv == cand0.interface_width else "other"
    else:
        obs["width"] = "typical" if wv == h else "other"
    # ---- the returned droplet
    changed = [i for i, v in sol_pos.items() if res.position[i - 1] != v]
    obs["changed"] = sorted(changed)
    for cidx in fam["constraints"]:
        if cidx <= dim and res.position[cidx - 1].tobytes() != cand0.position[cidx - 1].tobytes():
            obs["frozen_ok"] = False
            why.append(f"coordinate {cidx} fixed by symmetry changed")
    for a in fam["periodic"]:
        ax = a - 1 if fam["name"] == "cart" else 1
        lo_, hi_ = grid.axes_bounds[ax]
        if not (lo_ - 1e-12 <= res.position[a - 1] <= hi_ + 1e-12):
            obs["inbox"] = False
            why.append("position outside the box along a periodic axis")
    if not np.all(np.isfinite(res._data_array)):
        obs["finite"] = False
        why.append("non-finite parameter")
    if not isinstance(res, DiffuseDroplet) or res.interface_width is None:
        obs["width_set"] = False
        why.append("no interface width")
    elif res.radius < 0 or res.interface_width < 0:
        obs["nonneg"] = False
        why.append("negative radius or width")
    if req["modes"] and (len(res.amplitudes) != req["modes"] or np.any(np.abs(res.amplitudes) > 1)):
        obs["amps_ok"] = False
        why.append("amplitudes")
    if field.data.tobytes() != img0:
        obs["image_intact"] = False
        why.append("image modified")
    if changed and not set(changed) <= set(fam["periodic"]):
        why.append(f"coordinates {changed} differ from the solver's result")
    obs["why"] = "; ".join(why)
    return {"req": req, "env": env, "obs": obs}, {"seed": seed, "image": imgkind}


def _chunk(seeds):
    core.setup_repo_import()
    out = []
    for s in seeds:
        try:
            out.append(run_trace(s))
        except core.MachineryError:
            raise
        except Exception as exc:  # noqa: BLE001
            raise core.MachineryError(f"trace driver failed for seed {s}: {type(exc).__name__}: {exc}") from exc
    return out


def run(out: core.Outcome, n: int, seed0: int = 0) -> None:
    import multiprocessing as mp

    seeds = [seed0 + i for i in range(n)]
    chunks = [seeds[i :: core.NCPU * 2] for i in range(core.NCPU * 2)]
    with mp.get_context("fork").Pool(core.NCPU) as pool:
        parts = pool.map(_chunk, [c for c in chunks if c])
    cases = [c for p in parts for c in p]
    rows, st = core.judge_traces("TraceRefine", [c[0] for c in cases], modes=("run",), cfg_text=None)
    stats = {"traces": len(cases), "tlc_states_generated": st, "rejected": 0, "no_support": 0, "flat": 0,
             "adjusted": 0, "wrapped": 0, "off_axis_candidates": 0}
    for (tr, info), row in zip(cases, rows):
        v = row["run"]
        stats["no_support"] += not tr["env"]["support"]
        stats["flat"] += tr["env"]["flat"]
        stats["adjusted"] += tr["obs"]["nextra"] == 2
        stats["wrapped"] += bool(tr["obs"]["changed"])
        props = all(v[k] for k in ("classkept", "frozen", "layout", "levels", "region", "neverworse"))
        if not v["accepted"] or not props:
            stats["rejected"] += 1
            out.violation({"kind": "trace", "clause": v["clause"], "verdict": v, "trace": tr, **info})
    out.traces += len(cases)
    out.evaluations += len(cases)
    out.parts["trace_validation"] = stats
    for k in ("no_support", "flat", "adjusted", "wrapped"):
        if stats[k] == 0:
            raise core.MachineryError(f"vacuity: no random trace exercised '{k}'")
    out.sample({"random_trace": cases[0][0]})
