"""C16 — the structure factor is a normalised, symmetry-invariant power spectrum (Spectrum.tla).

spec -> code : for axis lengths 1, 2, 4 the DFT of an integer field is a Gaussian integer; TLC computes |F_k|^2 exactly for
               EVERY integer field over a small alphabet and checks NonNegative, Parseval, ZeroMode, ScaleInvariant,
               RollInvariant, ReflectInvariant, Hermitian.  Every field is handed to get_structure_factor(smoothing=None)
               on a periodic CartesianGrid with dyadic anisotropic spacing and offset; wave numbers and S must equal the
               spec's values IN THE IMPLEMENTATION'S FLAT ORDER (zero mode dropped).
exploration  : transformation words (scale, roll, reflect, permute axes with the grid, stretch) on random float fields of
               odd and even shapes, Parseval, the smoothed variant with explicit wave numbers and add_zero.
"""

from __future__ import annotations

import itertools
import json
import math
import warnings

import numpy as np

from . import core

SHAPES = {"q_4": (4,), "q_22": (2, 2), "q_42": (4, 2), "q_24": (2, 4), "t_42": (4, 2), "t_222": (2, 2, 2), "t_44": (4, 4),
          "t_241": (2, 4, 1), "t_224": (2, 2, 4)}
QUICK = ["q_4", "q_22", "q_42", "q_24"]
THOROUGH = QUICK + ["t_42", "t_44", "t_241", "t_222", "t_224"]
DXS = [1.0, 0.5, 4.0, 0.125]


def grid_for(shape, idx):
    from pde import CartesianGrid

    dx = [DXS[(idx + 2 * a) % len(DXS)] for a in range(len(shape))]
    x0 = [[0.0, -1.5, 16.0][(idx + a) % 3] for a in range(len(shape))]
    return CartesianGrid([(o, o + n * d) for o, n, d in zip(x0, shape, dx)], list(shape), periodic=True), dx


def check_exact(rec, shape, idx):
    from pde import ScalarField

    from droplets.image_analysis import get_structure_factor

    fails = []
    grid, dx = grid_for(shape, idx)
    data = np.array(rec["f"], float).reshape(shape)
    ntot = data.size
    with warnings.catch_warnings():
        warnings.simplefilter("ignore")
        k, sf = get_structure_factor(ScalarField(grid, data), smoothing=None)
    p = np.array(rec["p"], float)[1:]
    ref_sf = p / (ntot * rec["norm2"])
    ref_k = np.array([2 * math.pi * math.sqrt(sum((n[a] / (shape[a] * dx[a])) ** 2 for a in range(len(shape)))) for n in rec["n"]])[1:]
    if len(sf) != ntot - 1 or len(k) != ntot - 1:
        return [f"{len(sf)} values for {ntot} cells (zero mode must be dropped)"]
    if np.max(np.abs(sf - ref_sf)) > 1e-13:
        fails.append("structure factor differs from |F_k|^2 / (N sum f^2) in flat order")
    if np.max(np.abs(k - ref_k)) > 1e-12 * max(1.0, ref_k.max()):
        fails.append("wave numbers differ from the discrete Fourier wave numbers of the grid in flat order")
    if sf.min() < 0:
        fails.append("negative structure factor")
    if abs(sf.sum() - (1 - data.sum() ** 2 / (ntot * rec["norm2"]))) > 1e-12:
        fails.append("Parseval: sum differs from 1 - N mean^2 / sum f^2")
    with warnings.catch_warnings():
        warnings.simplefilter("ignore")
        k0, s0 = get_structure_factor(ScalarField(grid, data), smoothing=None, add_zero=True)
    if len(k0) != ntot or k0[0] != 0 or s0[0] != 1 or not np.array_equal(k0[1:], k) or not np.array_equal(s0[1:], sf):
        fails.append("add_zero does not prepend exactly (0, 1)")
    return fails


def _chunk(args):
    items, shape = args
    core.setup_repo_import()
    bad = []
    for idx, rec in items:
        try:
            fails = check_exact(rec, shape, idx)
        except Exception as exc:  # noqa: BLE001
            fails = [f"raised {type(exc).__name__}: {exc}"]
        if fails:
            bad.append({"index": idx, "shape": list(shape), **rec, "fails": fails})
            if len(bad) > 30:
                break
    return len(items), bad


def _pairs(k, s, digits=9):
    """multiset of (|k|, S) pairs, sorted, for comparison up to rounding"""
    order = np.lexsort((np.round(s, 12), np.round(k, digits)))
    return k[order], s[order]


def _same_spectrum(a, b, tol=1e-10):
    ka, sa = _pairs(*a)
    kb, sb = _pairs(*b)
    if len(ka) != len(kb):
        return False
    if np.max(np.abs(ka - kb)) > tol * max(1.0, np.abs(ka).max()):
        return False
    # within groups of equal k the order of S may differ: compare group sums and sorted values
    return np.max(np.abs(np.sort(sa) - np.sort(sb))) < tol and abs(sa.sum() - sb.sum()) < tol


def metamorphic(seed, count):
    core.setup_repo_import()
    from pde import CartesianGrid, ScalarField

    from droplets.image_analysis import get_structure_factor

    rng = np.random.default_rng(seed)
    bad = []
    shapes = [(9,), (10,), (13,), (5, 6), (8, 3), (7, 7), (13, 4), (3, 17), (4, 5, 3), (6, 2, 5), (3, 3, 4)]
    for t in range(count):
        shape = shapes[t % len(shapes)]
        dim = len(shape)
        dx = [float(rng.choice([0.25, 0.5, 1.0, 2.0, 3.0])) for _ in range(dim)]
        x0 = [float(rng.uniform(-3, 3)) for _ in range(dim)]
        grid = CartesianGrid([(o, o + n * d) for o, n, d in zip(x0, shape, dx)], list(shape), periodic=True)
        data = rng.standard_normal(shape) + float(rng.choice([0.0, 0.7, -5.0]))
        fails = []
        try:
            fails = _metamorphic_case(rng, grid, data, shape, dx, x0, dim)
        except Exception as exc:  # noqa: BLE001
            fails = [f"raised {type(exc).__name__}: {str(exc)[:150]}"]
        if fails:
            bad.append({"metamorphic": {"seed": seed, "t": t, "shape": list(shape), "dx": dx}, "fails": sorted(set(fails))})
    return count, bad


def _metamorphic_case(rng, grid, data, shape, dx, x0, dim):
    from pde import CartesianGrid, ScalarField

    from droplets.image_analysis import get_structure_factor

    fails = []
    if True:
        with warnings.catch_warnings():
            warnings.simplefilter("ignore")
            base = get_structure_factor(ScalarField(grid, data), smoothing=None)
            k, sf = base
            ntot = data.size
            if sf.min() < -1e-15:
                fails.append("negative structure factor")
            if abs(sf.sum() - (1 - ntot * data.mean() ** 2 / (data**2).sum())) > 1e-10:
                fails.append("Parseval")
            # exact wave numbers
            ks = np.meshgrid(*[2 * np.pi * np.fft.fftfreq(n, d) for n, d in zip(shape, dx)], indexing="ij")
            kref = np.sqrt(sum(x**2 for x in ks)).ravel()[1:]
            if np.max(np.abs(k - kref)) > 1e-12 * kref.max():
                fails.append("wave numbers differ from the discrete Fourier wave numbers")
            # direct DFT definition of S for a few modes
            fk = np.fft.fftn(data).ravel()[1:]
            if np.max(np.abs(sf - np.abs(fk) ** 2 / (ntot * (data**2).sum()))) > 1e-12:
                fails.append("structure factor differs from |F_k|^2 / (N sum f^2)")
            c = float(rng.choice([-2.5, 0.01, 1e6, 2.0**-30, 2.0**-60]))
            if not _same_spectrum(get_structure_factor(ScalarField(grid, c * data), smoothing=None), base):
                fails.append("not invariant under multiplication by a constant")
            a = int(rng.integers(0, dim))
            sh = int(rng.integers(1, shape[a] + 1))
            if not _same_spectrum(get_structure_factor(ScalarField(grid, np.roll(data, sh, axis=a)), smoothing=None), base):
                fails.append("not invariant under translation by whole cells")
            if not _same_spectrum(get_structure_factor(ScalarField(grid, np.flip(data, axis=a)), smoothing=None), base):
                fails.append("not invariant under reflection")
            if dim > 1:
                perm = list(rng.permutation(dim))
                g2 = CartesianGrid([grid.axes_bounds[p] for p in perm], [shape[p] for p in perm], periodic=True)
                if not _same_spectrum(get_structure_factor(ScalarField(g2, np.transpose(data, perm)), smoothing=None), base):
                    fails.append("not invariant under permuting the axes together with the grid")
            lam = float(rng.choice([0.5, 2.0, 8.0]))
            g3 = CartesianGrid([(o * lam, (o + n * d) * lam) for o, n, d in zip(x0, shape, dx)], list(shape), periodic=True)
            k3, s3 = get_structure_factor(ScalarField(g3, data), smoothing=None)
            if np.max(np.abs(k3 * lam - k)) > 1e-12 * k.max() or np.max(np.abs(s3 - sf)) > 1e-14:
                fails.append("wave numbers do not scale inversely with the physical size of the grid")
            # the caller owns what is returned: scribbling over the returned arrays must not change later answers
            # (same grid, another field; and a grid of the same shape and MEAN spacing with the spacings permuted)
            k_keep, sf_keep = k.copy(), sf.copy()
            k *= 3.0
            k.sort()
            sf[...] = -1.0
            again = get_structure_factor(ScalarField(grid, data), smoothing=None)
            if not np.array_equal(again[0], k_keep) or np.max(np.abs(again[1] - sf_keep)) > 1e-14:
                fails.append("a second call on the same grid is affected by what the caller did to the arrays returned first")
            k, sf = k_keep, sf_keep
            base = (k, sf)
            if dim > 1:
                rot = list(range(1, dim)) + [0]
                g4 = CartesianGrid([(0.0, shape[a] * dx[rot[a]]) for a in range(dim)], list(shape), periodic=True)
                k4, _ = get_structure_factor(ScalarField(g4, data), smoothing=None)
                ks4 = np.meshgrid(*[2 * np.pi * np.fft.fftfreq(shape[a], dx[rot[a]]) for a in range(dim)], indexing="ij")
                if np.max(np.abs(k4 - np.sqrt(sum(x**2 for x in ks4)).ravel()[1:])) > 1e-12 * k4.max():
                    fails.append("wave numbers of a grid with the same shape and permuted spacings are not its Fourier wave numbers")
            # a field that is nowhere positive and touches zero (a mask times -1): same spectrum as the mask itself
            msk = (data > np.median(data)).astype(float)
            if msk.any() and not msk.all():
                sp = get_structure_factor(ScalarField(grid, msk), smoothing=None)
                sn = get_structure_factor(ScalarField(grid, -3.0 * msk), smoothing=None)
                if not np.all(np.isfinite(sn[1])) or not _same_spectrum(sn, sp):
                    fails.append("not invariant under multiplication by a negative constant (field <= 0 touching zero)")
            # ---- smoothed variant
            wn = np.sort(rng.uniform(k.min(), k.max(), 7))
            wn[-1] = 1.5 * k.max()          # a request beyond the largest wave number of the grid is still returned as asked
            sm = float(0.3 * k.max())
            kk, ss = get_structure_factor(ScalarField(grid, data), smoothing=sm, wave_numbers=wn)
            if not np.array_equal(kk, wn):
                fails.append("smoothed variant does not return exactly the requested wave numbers")
            if not np.all(np.isfinite(ss)):
                fails.append("smoothed variant not finite")
            kz, sz = get_structure_factor(ScalarField(grid, data), smoothing=sm, wave_numbers=wn, add_zero=True)
            if kz[0] != 0 or sz[0] != 1 or not np.array_equal(kz[1:], wn) or np.max(np.abs(sz[1:] - ss)) > 1e-12:
                fails.append("smoothed variant: add_zero does not prepend exactly (0, 1)")
            wn0 = np.r_[0.0, wn]
            k0, s0 = get_structure_factor(ScalarField(grid, data), smoothing=sm, wave_numbers=wn0, add_zero=True)
            if len(k0) != len(wn0) + 1 or k0[0] != 0 or s0[0] != 1 or not np.array_equal(k0[1:], wn0):
                fails.append("smoothed variant: add_zero does not prepend (0, 1) when the requested wave numbers contain 0")
            # the requested wave numbers in ANY order (descending, shuffled, with a repeated value): returned identically, and
            # the value reported for a wave number does not depend on where in the request it stands
            for order in (np.arange(len(wn))[::-1], rng.permutation(len(wn)), np.r_[np.arange(len(wn)), 2]):
                wq = wn[order]
                kq, sq = get_structure_factor(ScalarField(grid, data), smoothing=sm, wave_numbers=wq)
                if not np.array_equal(kq, wq):
                    fails.append("smoothed variant does not return exactly the requested wave numbers (request not ascending)")
                elif np.max(np.abs(sq - ss[order])) > 1e-12 * max(1e-3, np.abs(ss).max()):
                    fails.append("smoothed variant: the value at a requested wave number depends on its place in the request")
            for name, d2, g in (("constant", c * data, grid), ("translation", np.roll(data, sh, axis=a), grid), ("reflection", np.flip(data, axis=a), grid)):
                _, s2 = get_structure_factor(ScalarField(g, d2), smoothing=sm, wave_numbers=wn)
                if np.max(np.abs(s2 - ss)) > 1e-9 * max(1e-3, np.abs(ss).max()):
                    fails.append(f"smoothed variant not invariant under {name}")
    return fails


def large_grid_case(out):
    """a grid with more than 2^16 modes (300 x 344, lamellar field + noise): the smoothed variant shares the invariances"""
    from pde import CartesianGrid, ScalarField

    from droplets.image_analysis import get_structure_factor

    rng = np.random.default_rng(out.seed + 99)
    shape, dx = (300, 344), (0.5, 0.25)
    grid = CartesianGrid([(0.0, n * d) for n, d in zip(shape, dx)], list(shape), periodic=True)
    x = grid.cell_coords
    data = np.sin(2 * np.pi * 11 * x[..., 0] / (shape[0] * dx[0])) + 0.2 * rng.standard_normal(shape)
    gt = CartesianGrid([(0.0, n * d) for n, d in zip(shape[::-1], dx[::-1])], list(shape[::-1]), periodic=True)
    fails = []
    with warnings.catch_warnings():
        warnings.simplefilter("ignore")
        k, sf = get_structure_factor(ScalarField(grid, data), smoothing=None)
        wn = np.linspace(0.2 * k.max(), 0.8 * k.max(), 9)
        wn[3] = 2 * np.pi * 11 / (shape[0] * dx[0])     # the lamellar peak itself
        sm = 0.01 * k.max()
        _, s0 = get_structure_factor(ScalarField(grid, data), smoothing=sm, wave_numbers=wn)
        for name, g, d in (("permuting the axes together with the grid", gt, data.T),
                           ("reflection", grid, data[::-1, :]), ("translation", grid, np.roll(data, 7, axis=1)),
                           ("multiplication by a constant", grid, -3.0 * data)):
            _, s1 = get_structure_factor(ScalarField(g, d), smoothing=sm, wave_numbers=wn)
            if not np.all(np.isfinite(s1)) or np.max(np.abs(s1 - s0)) > 1e-9 * np.abs(s0).max():
                fails.append(f"large grid: smoothed variant not invariant under {name}")
    out.evaluations += 1
    if fails:
        out.violation({"large_grid": {"shape": list(shape), "dx": list(dx)}, "fails": fails})
    out.parts["large_grid"] = {"shape": list(shape)}


def run(out: core.Outcome) -> None:
    import multiprocessing as mp

    core.setup_repo_import()
    out.rule = (
        "TLC computes the exact power spectrum of every integer field on shapes with axis lengths in {1,2,4} and checks "
        "Parseval and the invariances; every field is replayed through get_structure_factor on anisotropic offset periodic "
        "grids and compared in flat order. Random float fields of other shapes are checked against the transformation laws, "
        "the DFT definition and for the smoothed variant. Non-trivial = field with non-zero mean or non-constant."
    )
    for name in QUICK if out.tier == "quick" else THOROUGH:
        shape = SHAPES[name]
        r = core.tlc("MC_Spectrum", f"MC_Spectrum_{name}.cfg", timeout=3400)
        if r.violated:
            out.violation({"tlc_config": name, "violated": r.violated, "tlc_tail": r.stdout[-3000:]})
            continue
        r.require_actions(["Complete"])
        out.add_tlc(name, r)
        items = list(enumerate(r.printed))
        size = max(1, len(items) // (core.NCPU * 2))
        with mp.get_context("fork").Pool(core.NCPU) as pool:
            results = pool.map(_chunk, [(items[i : i + size], shape) for i in range(0, len(items), size)])
        nbad = 0
        for cnt, bad in results:
            out.evaluations += cnt
            nbad += len(bad)
            for b in bad:
                out.violation({"config": name, **b})
        out.nontrivial_count += sum(1 for _, rec in items if len(set(rec["f"])) > 1)
        out.parts[name].update(fields=len(items), mismatches=nbad)
        out.sample({"config": name, "field": r.printed[len(r.printed) // 2]}, limit=2)
    n = 320 if out.tier == "quick" else 16000
    per = n // core.NCPU
    with mp.get_context("fork").Pool(core.NCPU) as pool:
        res = pool.starmap(metamorphic, [(out.seed * 77 + k, per) for k in range(core.NCPU)])
    for cnt, bad in res:
        out.traces += cnt
        for b in bad:
            out.violation(b)
    out.exhaustive = True
    large_grid_case(out)
    out.explanation = out.rule
    out.assumptions = [
        "exact DFT only for axis lengths 1, 2, 4 (twiddle factors are powers of -i); other sizes via transformation laws, numpy's FFT as definition and Parseval",
        "fields with sum f^2 > 0 (non-zero fields)",
    ]


def replay(out, path):
    core.setup_repo_import()
    case = json.loads(open(path).read())
    if "metamorphic" in case:
        m = case["metamorphic"]
        n, bad = metamorphic(m["seed"], m["t"] + 1)
        fails = [f for b in bad if b["metamorphic"]["t"] == m["t"] for f in b["fails"]]
    else:
        fails = check_exact(case, tuple(case["shape"]), case["index"])
    print("fails:", fails)
    if fails:
        print(f"VIOLATION property=C16 replay={path}")
        return 1
    return 0
