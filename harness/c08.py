"""C08 — saving and loading returns an equal object (IO.tla).

spec -> code : TLC enumerates every object of the bounded structure space (kind x members x droplets per
               member x droplet class/layout, homogeneous and mixed, empty members anywhere, time patterns)
               and every history of <= 2 write calls to <= 2 paths, checking RoundTrip / NoSilentChange /
               OneSetPerMember on the file-system model.  Every history is replayed with real objects whose
               parameters come from a pool chosen to stress the encoder; after every write call the real HDF5
               file is opened and compared with the spec's file state (datasets in key order, droplet_class,
               time attribute, rows), then read back through from_file and compared with the written object
               by `==` and bit for bit.
"""

from __future__ import annotations

import json
import math
import os
import re
import shutil

import numpy as np

from . import core

CFG_KIND = {"q_em": "Emulsion", "q_tc": "TimeCourse", "q_tr": "Track", "q_tl": "TrackList",
            "t_em3": "Emulsion", "t_em": "Emulsion", "t_tc": "TimeCourse", "t_tr": "Track", "t_tl": "TrackList"}
QUICK = ["q_em", "q_tc", "q_tr", "q_tl"]
THOROUGH = QUICK + ["t_em3", "t_em", "t_tc", "t_tr", "t_tl"]

POOL = [0.0, -0.0, 5e-324, 2.2250738585072014e-308, 1e-300, 1e300, 0.1, 1 / 3, 9007199254740993.0, 1.5, math.pi,
        123456.789, 1.0000000000000002, 4.9e-324, 7.0]
POOL_SIGNED = POOL + [-1e300, -0.1, -math.pi, -5e-324, -2.5]
AMPL = [0.0, -0.0, 0.3, -0.25, 1e-17, 0.9999999999999999, -1.0, 5e-324]
WIDTHS = [None, 0.0, 1.0, 0.1, 5e-324, 1e300, None, 2.5]


def parse_layout(lay):
    m = re.fullmatch(r"d(\d)(w?)(\d*)", lay)
    return int(m.group(1)), bool(m.group(2)), int(m.group(3) or 0)


def make_droplet(d, salt):
    from droplets import droplets as D

    dim, has_w, modes = parse_layout(d["lay"])
    k = d["pay"] * 7 + salt
    pos = [POOL_SIGNED[(k + 3 * a) % len(POOL_SIGNED)] for a in range(dim)]
    radius = POOL[(k + 1) % len(POOL)]
    width = WIDTHS[(k + 2) % len(WIDTHS)]
    cls = getattr(D, d["cls"])
    if d["cls"] == "SphericalDroplet":
        return cls(np.array(pos), radius)
    if d["cls"] == "DiffuseDroplet":
        return cls(np.array(pos), radius, width)
    amps = [AMPL[(k + 5 * a) % len(AMPL)] for a in range(modes)]
    if d["cls"] == "PerturbedDroplet3DAxisSym":
        pos = [0.0, -0.0 if k % 2 else 0.0, pos[2]]
        obj = cls(np.array(pos), radius, width, np.array(amps))
        if k % 3 == 0:
            # numerical noise in the lateral position (written after construction, as a solver would): stored as it is
            obj.data["position"][:2] = [3e-13, -7e-12]
        return obj
    return cls(np.array(pos), radius, width, np.array(amps))


def make_time(t, salt):
    """abstract time (tenths) -> int / float / numpy scalar, below 2**53"""
    mode = salt % 5
    if mode == 4:
        # ints and fractions mixed in ONE object (an int first, fractions later; or the other way round)
        return int(t) if t % 2 == 0 else t / 10
    if mode == 0:
        return t / 10
    if mode == 1:
        return t * 1000 + 1 if isinstance(t, int) else t        # ints, non-uniform, negative
    if mode == 2:
        return np.float64(t) * 0.3
    return t * 4503599627370496 // 1000 if t >= 0 else t / 8    # large ints (exact in float64)


def build(o, salt):
    """abstract object -> real object; returns None if the API refuses to construct it"""
    import logging

    from droplets import Emulsion, EmulsionTimeCourse
    from droplets.droplet_tracks import DropletTrack, DropletTrackList

    kind = o["kind"]
    if kind == "Emulsion":
        return Emulsion([make_droplet(d, salt) for d in o["drops"]], copy=False)
    if kind == "Track":
        return DropletTrack([make_droplet(d, salt) for d in o["drops"]], [make_time(t, salt) for t in o["times"]])
    if kind == "TimeCourse":
        return EmulsionTimeCourse([Emulsion([make_droplet(d, salt) for d in ds], copy=False) for ds in o["mem"]],
                                  times=[make_time(t, salt) for t in o["times"]])
    tl = DropletTrackList()
    for ds, ts in zip(o["mem"], o["times"]):
        tl.append(DropletTrack([make_droplet(d, salt) for d in ds], [make_time(t, salt) for t in ts]))
    return tl


def _drops_same(a, b):
    if len(a) != len(b):
        return False
    for x, y in zip(a, b):
        if type(x) is not type(y) or x.data.dtype != y.data.dtype or x.data.tobytes() != y.data.tobytes():
            return False
    return True


def _times_same(a, b):
    a, b = list(a), list(b)
    return len(a) == len(b) and all(float(x) == float(y) and int(np.sign(x)) == int(np.sign(y)) for x, y in zip(a, b))


def identical(kind, a, b):
    """same classes, bit-identical parameters, same times in the same order"""
    if kind == "Emulsion":
        return _drops_same(list(a), list(b))
    if kind == "Track":
        return _drops_same(a.droplets, b.droplets) and _times_same(a.times, b.times)
    if kind == "TimeCourse":
        return (_times_same(a.times, b.times) and len(a.emulsions) == len(b.emulsions)
                and all(_drops_same(list(x), list(y)) for x, y in zip(a.emulsions, b.emulsions)))
    return len(a) == len(b) and all(identical("Track", x, y) for x, y in zip(a, b))


def file_structure(path):
    """what is in the real file, in the order the reader visits it"""
    import h5py

    out = []
    with h5py.File(path, "r") as fp:
        for key in sorted(fp.keys()):
            ds = fp[key]
            cls = ds.attrs["droplet_class"]
            rows = 0 if ds.shape == () else ds.shape[0]
            out.append({"key": key, "cls": cls, "rows": rows, "time": ds.attrs.get("time", None),
                        "fields": list(ds.dtype.names) if ds.dtype.names else []})
    return out


def check_file(kind, path, spec_file, fails):
    real = file_structure(path)
    if len(real) != len(spec_file):
        fails.append(f"file holds {len(real)} datasets, spec {len(spec_file)}")
        return
    prefix = {"Emulsion": "emulsion", "Track": "droplet_track", "TimeCourse": "time_", "TrackList": "track_"}[kind]
    for i, (r, s) in enumerate(zip(real, spec_file)):
        if not r["key"].startswith(prefix):
            fails.append("dataset-key")
        if kind in ("TimeCourse", "TrackList") and r["key"] != f"{prefix}{i:06d}":
            fails.append("dataset-key-sequence")
        if r["cls"] != s["cls"]:
            fails.append("droplet_class-attribute")
        if r["rows"] != len(s["rows"]):
            fails.append("row-count")
        if s["cls"] != "None":
            dim, has_w, modes = parse_layout(s["lay"])
            want = (["time"] if kind in ("Track", "TrackList") else []) + ["position", "radius"] + \
                   (["interface_width"] if has_w else []) + (["amplitudes"] if modes else [])
            if r["fields"] != want:
                fails.append("row-layout")
        if kind == "TimeCourse" and r["time"] is None:
            fails.append("time-attribute-missing")


def _replay_chunk(args):
    items, kind, workdir = args
    core.setup_repo_import()
    from droplets import Emulsion, EmulsionTimeCourse
    from droplets.droplet_tracks import DropletTrack, DropletTrackList

    cls = {"Emulsion": Emulsion, "TimeCourse": EmulsionTimeCourse, "Track": DropletTrack, "TrackList": DropletTrackList}[kind]
    d = os.path.join(workdir, f"w{os.getpid()}")
    os.makedirs(d, exist_ok=True)
    bad, n, deviations, unbuilt, nontriv = [], 0, 0, 0, 0
    try:
        for idx, rec in items:
            paths = {}
            lastobj = {}
            fails = []
            ok_hist = True
            for step, h in enumerate(rec["hist"]):
                salt = idx * 3 + step
                try:
                    obj = build(h["obj"], salt)
                except ValueError:
                    unbuilt += 1
                    ok_hist = False
                    break
                path = os.path.join(d, f"{h['path']}.h5")
                raised = None
                try:
                    if kind == "Emulsion":
                        obj.to_file(path)
                    else:
                        obj.to_file(path)
                except Exception as exc:  # noqa: BLE001
                    raised = type(exc).__name__
                if raised:
                    lastobj.pop(h["path"], None)
                    if not h["raised"]:
                        fails.append(f"step {step}: to_file raised {raised} for an object of one class and layout per member")
                    continue
                lastobj[h["path"]] = (obj, h["obj"])
                try:
                    back = cls.from_file(path, progress=False) if kind in ("TimeCourse", "TrackList") else cls.from_file(path)
                except Exception as exc:  # noqa: BLE001
                    fails.append(f"step {step}: from_file raised {type(exc).__name__}: {exc}")
                    continue
                try:
                    eq = bool(back == obj)
                except Exception:  # noqa: BLE001
                    eq = False
                if not eq:
                    fails.append(f"step {step}: file was written but reads back unequal (==)")
                elif not identical(kind, back, obj):
                    fails.append(f"step {step}: file was written but reads back with different bits/classes/times")
                elif h["raised"]:
                    deviations += 1
            if not ok_hist:
                continue
            n += 1
            if len(rec["hist"]) > 1:
                nontriv += 1
            # final state of the file system against the spec
            for p, (obj, aobj) in lastobj.items():
                path = os.path.join(d, f"{p}.h5")
                if rec["last"][p]["ok"]:
                    try:
                        check_file(kind, path, rec["files"][p], fails)
                        back = cls.from_file(path, progress=False) if kind in ("TimeCourse", "TrackList") else cls.from_file(path)
                        if not identical(kind, back, obj):
                            fails.append("final read differs from the last object written to this path")
                    except Exception as exc:  # noqa: BLE001
                        fails.append(f"final read raised {type(exc).__name__}: {exc}")
            for p in ("a", "b"):
                fp = os.path.join(d, f"{p}.h5")
                if os.path.exists(fp):
                    os.remove(fp)
            if fails:
                bad.append({"index": idx, "hist": rec["hist"], "fails": sorted(set(fails))})
    finally:
        shutil.rmtree(d, ignore_errors=True)
    return n, nontriv, deviations, unbuilt, bad


def classify(b):
    objs = [h["obj"] for h in b["hist"]]
    for o in objs:
        seqs = [o["drops"]] if "drops" in o else o["mem"]
        for ds in seqs:
            if len({d["cls"] for d in ds}) > 1 and len({d["lay"] for d in ds}) == 1 and o["kind"] in ("Track", "TrackList"):
                return "track-mixed-classes-same-layout"
    return None


def long_objects(out, workdir):
    """members 10, 11, ... and 100, 101: the reader's key order is the writer's member order only if the keys sort
    numerically (the exhaustive structures above hold at most three members)"""
    from droplets import DiffuseDroplet, Emulsion, EmulsionTimeCourse, SphericalDroplet
    from droplets.droplet_tracks import DropletTrack, DropletTrackList

    for n in (12, 103, 1001):
        fails = []
        ems = [Emulsion([DiffuseDroplet(np.array([0.5 * k, -1.0 * j]), 1.0 + 0.01 * k, 0.1 * (j + 1)) for j in range(k % 3)])
               for k in range(n)]
        tc = EmulsionTimeCourse(ems, times=[0.25 * k - 3 for k in range(n)])
        p = os.path.join(workdir, f"long_tc_{n}.h5")
        tc.to_file(p)
        back = EmulsionTimeCourse.from_file(p, progress=False)
        if not identical("TimeCourse", tc, back) or not (back == tc):
            fails.append(f"time course of {n} frames does not read back equal (frames in member order)")
        tl = DropletTrackList()
        for k in range(n):
            tl.append(DropletTrack([SphericalDroplet(np.array([1.0 * k + i, 2.0]), 0.5 + 0.001 * k) for i in range(1 + k % 2)],
                                   [float(k + i) for i in range(1 + k % 2)]))
        p = os.path.join(workdir, f"long_tl_{n}.h5")
        tl.to_file(p)
        back = DropletTrackList.from_file(p, progress=False)
        if not identical("TrackList", tl, back):
            fails.append(f"track list of {n} tracks does not read back equal (tracks in member order)")
        out.evaluations += 2
        if fails:
            out.violation({"long_objects": n, "fails": fails})
    out.parts["long_objects"] = {"members": "12, 103 (thorough: 1001)"}


def after_linking(out, workdir):
    """objects that were linked to an array (get_linked_data) and edited afterwards -- through the array, through the
    members, by replacing / reordering members without changing their number -- are written as they are NOW"""
    from droplets import DiffuseDroplet, Emulsion, EmulsionTimeCourse, SphericalDroplet

    rng = np.random.default_rng(out.seed + 5)
    for k in range(12):
        cls = [SphericalDroplet, DiffuseDroplet][k % 2]
        mk = (lambda i: SphericalDroplet(rng.uniform(-3, 3, 2), float(rng.uniform(0.2, 2)))) if cls is SphericalDroplet else \
             (lambda i: DiffuseDroplet(rng.uniform(-3, 3, 2), float(rng.uniform(0.2, 2)), float(rng.uniform(0.1, 1))))
        em = Emulsion([mk(i) for i in range(4)])
        arr = em.get_linked_data()
        edit = ["array", "member", "setitem", "reverse", "sort", "pop-append", "slice-assign"][k % 7]
        if edit == "array":
            arr["radius"][2] = 7.25
        elif edit == "member":
            em[1].radius = 3.5
        elif edit == "setitem":
            em[1] = mk(9)
        elif edit == "reverse":
            em.reverse()
        elif edit == "sort":
            em.sort(key=lambda d: -d.radius)
        elif edit == "pop-append":
            em.pop(0)
            em.append(mk(9))
        else:
            em[1:3] = [mk(8), mk(9)]
        fails = []
        p = os.path.join(workdir, f"linked_{k}.h5")
        em.to_file(p)
        back = Emulsion.from_file(p)
        if not identical("Emulsion", em, back):
            fails.append(f"emulsion linked to an array and then edited ({edit}) does not read back equal")
        tc = EmulsionTimeCourse([em, em], times=[0.5, 1.5])
        p2 = os.path.join(workdir, f"linked_tc_{k}.h5")
        tc.to_file(p2)
        if not identical("TimeCourse", tc, EmulsionTimeCourse.from_file(p2, progress=False)):
            fails.append(f"time course of emulsions linked and edited ({edit}) does not read back equal")
        out.evaluations += 1
        if fails:
            out.violation({"after_linking": edit, "fails": fails})
    out.parts["after_linking"] = {"cases": 12}


def run(out: core.Outcome) -> None:
    import multiprocessing as mp

    core.setup_repo_import()
    out.rule = (
        "TLC enumerates every object of the structure space and every history of <=2 write calls (second object from a "
        "small set) to <=2 paths on the file-system model IO.tla; each history is replayed with real objects (hostile "
        "payload pool), each real file is compared with the spec's file state and read back; equality is checked with == "
        "and bit for bit. Non-trivial = history with two writes."
    )
    out.exhaustive = True
    workdir = core.WORK / f"c08-{os.getpid()}"
    workdir.mkdir(parents=True, exist_ok=True)
    try:
        # the pre-repair track writer (class not checked) is refuted by TLC itself
        r = core.tlc("MC_IO", "MC_IO_dev_tr.cfg", timeout=600)
        if r.violated != "RoundTrip":
            raise core.MachineryError(f"IO.tla with CheckTrackClass=FALSE should violate RoundTrip, got {r.violated}")
        out.parts["dev_tr"] = {"expected_violation": "RoundTrip", "tlc_states_generated": r.generated}
        for name in QUICK if out.tier == "quick" else THOROUGH:
            kind = CFG_KIND[name]
            r = core.tlc("MC_IO", f"MC_IO_{name}.cfg", timeout=3000)
            if r.violated:
                out.violation({"tlc_config": name, "violated": r.violated, "tlc_tail": r.stdout[-3000:]})
                continue
            r.require_actions(["Open", "WriteDataset", "Raise", "Close"])
            out.add_tlc(name, r)
            items = list(enumerate(r.printed))
            size = max(1, len(items) // (core.NCPU * 4))
            chunks = [(items[i : i + size], kind, str(workdir)) for i in range(0, len(items), size)]
            with mp.get_context("fork").Pool(core.NCPU) as pool:
                results = pool.map(_replay_chunk, chunks)
            dev = unb = 0
            nbad = 0
            for n, nt, dv, ub, bad in results:
                out.evaluations += n
                out.nontrivial_count += nt
                dev += dv
                unb += ub
                nbad += len(bad)
                for b in bad:
                    out.violation({"config": name, "kind": kind, **b}, signature=classify(b))
            out.parts[name].update(histories=len(items), mismatches=nbad, accepted_where_spec_raises=dev,
                                   not_constructible=unb)
            out.sample({"config": name, "history": r.printed[len(r.printed) // 2]["hist"]})
        long_objects(out, str(workdir))
        after_linking(out, str(workdir))
    finally:
        shutil.rmtree(workdir, ignore_errors=True)
    out.explanation = out.rule
    out.assumptions = [
        "times below 2**53 (track times are stored as float64 columns)",
        "perturbed droplets with at least one amplitude (h5py cannot store zero-length sub-arrays)",
        "keys sort numerically below 10**6 members (checked in KeyOrder of IO.tla only as a stated bound)",
        "a write that the spec expects to raise but that succeeds and reads back identical is a deviation, not a violation",
    ]


def replay(out, path):
    core.setup_repo_import()
    case = json.loads(open(path).read())
    workdir = core.WORK / f"c08-replay-{os.getpid()}"
    workdir.mkdir(parents=True, exist_ok=True)
    try:
        rec = {"hist": case["hist"], "files": {}, "last": {"a": {"ok": False}, "b": {"ok": False}}}
        n, nt, dv, ub, bad = _replay_chunk(([(case["index"], rec)], case["kind"], str(workdir)))
    finally:
        shutil.rmtree(workdir, ignore_errors=True)
    for b in bad:
        print("fails:", b["fails"])
    if bad:
        print(f"VIOLATION property=C08 replay={path}")
        return 1
    print("no violation reproduced")
    return 0
