"""C17 — length scales are physical lengths (LengthScale.tla).

spec -> code : (1) TLC enumerates every word of <=2-3 generators Stretch(2^j) / Scale(c) / Roll and checks that the expected
               observable depends on the word only through the total stretch (degree one in length, zero in amplitude,
               translation invariant); every word is applied to real fields and grids and get_length_scale must return
               2^stretch times the base value for all three methods (exactly for pure stretches with the moment and
               droplet-counting methods, 1e-12 otherwise; within half a Fourier bin for the peak method).
               (2) TLC enumerates every admissible plane wave (shape, integer mode vector with >= 4 cells per period,
               spacing 2^j); the peak method must return a finite value whose wave number is within half a Fourier bin of
               2 pi |n / L|, for every spacing, amplitude and offset; the moment method must return the wavelength.
               (3) droplet counting returns (box volume / number of droplets)^(1/d) on rendered emulsions.
"""

from __future__ import annotations

import json
import math
import warnings

import numpy as np

from . import core

FACT = {"-2.5": -2.5, "2^-33": 2.0**-33, "1024": 1024.0}
METHODS = ["structure_factor_mean", "structure_factor_maximum", "droplet_detection"]


def base_fields(seed):
    """(name, shape, dx, periodic, data) base fields"""
    from scipy import ndimage

    rng = np.random.default_rng(seed)
    out = []
    for shape, dx in (((48,), 1.0), ((32, 24), 0.5), ((12, 12, 16), 2.0), ((34,), 0.25), ((26, 17), 1.0)):
        raw = ndimage.gaussian_filter(rng.standard_normal(shape), sigma=2.0, mode="wrap")
        out.append((f"smooth{len(shape)}d", shape, dx, True, raw / raw.std() + 0.3))
    # a box that is periodic along its first axis only: translations along THAT axis must not matter either
    raw = ndimage.gaussian_filter(rng.standard_normal((32, 20)), sigma=2.0, mode=["wrap", "nearest"])
    raw *= np.hanning(22)[1:-1][None, :]          # the field is localised away from the two walls
    out.append(("mixed2d", (32, 20), 0.5, [True, False], raw / raw.std() + 0.3))
    return out


def make_field(shape, dx, data, stretch=0, periodic=True):
    from pde import CartesianGrid, ScalarField

    s = 2.0**stretch
    grid = CartesianGrid([(0.0, n * dx * s) for n in shape], list(shape), periodic=periodic)
    return ScalarField(grid, data)


def measure(field, method):
    from droplets.image_analysis import get_length_scale

    with warnings.catch_warnings():
        warnings.simplefilter("ignore")
        if method == "droplet_detection":
            return float(get_length_scale(field, method=method, threshold="extrema"))
        return float(get_length_scale(field, method=method))


def check_word(rec, idx, fields, base_vals):
    fails = []
    rng = np.random.default_rng(idx)
    for (name, shape, dx, per, data0), base in zip(fields, base_vals):
        data = data0
        st = 0
        sign = 1.0
        pure = True
        for g in rec["word"]:
            if g["g"] == "stretch":
                st += g["j"]
            elif g["g"] == "scale":
                c = FACT[g["c"]]
                data = data * c
                sign *= math.copysign(1.0, c)
                pure = False
            else:
                axes = [a for a in range(len(shape)) if per is True or per[a]]
                a = axes[int(rng.integers(0, len(axes)))]
                data = np.roll(data, int(rng.integers(1, shape[a])), axis=a)
                pure = False
        if st != rec["stretch"]:
            raise core.MachineryError("stretch bookkeeping")
        f = make_field(shape, dx, data, st, per)
        bin_ = max(2 * np.pi / (n * dx * 2.0**st) for n in shape)
        for m in METHODS:
            if m == "droplet_detection" and sign < 0:
                continue  # a negative factor turns droplets into background: a different image for this method
            want = base[m] * 2.0**st
            got = measure(f, m)
            if not np.isfinite(want):
                continue
            if not np.isfinite(got):
                fails.append(f"{name}/{m}: not finite after {rec['word']}")
            elif m == "structure_factor_maximum":
                if abs(2 * np.pi / got - 2 * np.pi / want) > 0.5 * bin_:
                    fails.append(f"{name}/{m}: {got!r} vs {want!r} (more than half a Fourier bin)")
            elif pure and m == "structure_factor_mean" and got != want:
                fails.append(f"{name}/{m}: pure stretch by 2^{st} is not exact: {got!r} vs {want!r}")
            elif abs(got - want) > 1e-12 * abs(want):
                fails.append(f"{name}/{m}: {got!r} vs {want!r} after {rec['word']}")
    return fails


def check_wave(rec, idx):
    from pde import CartesianGrid, ScalarField

    w = rec["wave"]
    shape, n, j = w["shape"], w["n"], w["j"]
    dx = 2.0**j
    dim = len(shape)
    grid = CartesianGrid([(0.0, N * dx) for N in shape], shape, periodic=True)
    cc = grid.cell_coords
    amp, off = [(1.0, 0.0), (2e-3, 250.0), (1e-7, -1.0), (40.0, 3.0)][idx % 4]
    ph = 0.3 + 0.7 * (idx % 5)
    arg = sum(2 * np.pi * n[a] * cc[..., a] / (shape[a] * dx) for a in range(dim))
    f = ScalarField(grid, off + amp * np.sin(arg + ph))
    ktrue = 2 * np.pi * math.sqrt(rec["k2num"]) / (math.prod(shape) * dx)
    kref = 2 * np.pi * math.sqrt(sum((n[a] / (shape[a] * dx)) ** 2 for a in range(dim)))
    if abs(ktrue - kref) > 1e-12 * kref:
        raise core.MachineryError("wave number bookkeeping")
    bin_ = max(2 * np.pi / (N * dx) for N in shape)
    fails = []
    L = measure(f, "structure_factor_maximum")
    if not np.isfinite(L):
        fails.append(f"peak method returns {L!r} for a resolved plane wave (spacing {dx})")
    elif abs(2 * np.pi / L - ktrue) > 0.5 * bin_:
        fails.append(f"peak method: wave number {2 * np.pi / L!r} not within half a Fourier bin of {ktrue!r}")
    # droplet counting on stripes (one axis-aligned wave vector, 3 or 5 periods): invariant under cyclic shifts
    nz = [a for a in range(dim) if n[a] != 0]
    if dim == 2 and len(nz) == 1 and abs(n[nz[0]]) in (3, 5):
        vals = []
        for sh in (0, 1, shape[nz[0]] // 2 + 1, shape[nz[0]] - 2):
            g = ScalarField(grid, np.roll(np.roll(f.data, sh, axis=nz[0]), sh // 2, axis=1 - nz[0]))
            vals.append(measure(g, "droplet_detection"))
        if not all(np.isfinite(v) for v in vals) or max(vals) - min(vals) > 1e-12 * max(vals):
            fails.append(f"droplet counting is not invariant under translation along periodic axes: {vals}")
    if off == 0.0:
        Lm = measure(f, "structure_factor_mean")
        if not np.isfinite(Lm) or abs(2 * np.pi / Lm - ktrue) > 0.5 * bin_:
            fails.append(f"moment method: {Lm!r} is not the wavelength {2 * np.pi / ktrue!r}")
    return fails


def check_emulsions(seed, count):
    core.setup_repo_import()
    from pde import CartesianGrid

    from droplets import DiffuseDroplet, Emulsion

    rng = np.random.default_rng(seed)
    bad = []
    for t in range(count):
        dim = 1 + t % 3
        ncell = [64, 32, 16][dim - 1]
        dx = float(2.0 ** rng.integers(-3, 4))
        per = bool(rng.integers(0, 2))
        grid = CartesianGrid([(0.0, ncell * dx)] * dim, ncell, periodic=per)
        k = int(rng.integers(1, 4))
        sep = ncell // (k if dim == 1 else 2)
        centres = []
        for i in range(k if dim == 1 else min(k, 2) ** 1):
            centres.append([(sep * (i + 0.5)) * dx] + [ncell * dx / 2] * (dim - 1))
        rad, wid = ((2.0, 0.5) if dim == 3 else (2.5, 1.0))
        ds = [DiffuseDroplet(np.array(c) + rng.uniform(-0.3, 0.3, dim) * dx, (rad + rng.uniform(0, 0.5)) * dx, wid * dx) for c in centres]
        f = Emulsion(ds).get_phasefield(grid)
        f.data[...] = float(rng.choice([1.0, 7.0])) * f.data + float(rng.choice([0.0, -2.0]))
        L = measure(f, "droplet_detection")
        want = ((ncell * dx) ** dim / len(ds)) ** (1 / dim)
        if not np.isfinite(L) or abs(L - want) > 1e-12 * want:
            bad.append({"emulsion_case": {"seed": seed, "t": t, "dim": dim, "droplets": len(ds), "dx": dx}, "fails": [f"droplet counting: {L!r} vs (V/n)^(1/d) = {want!r}"]})
    return count, bad


_G = {}


def _chunk_words(items):
    core.setup_repo_import()
    bad = []
    for idx, rec in items:
        try:
            fails = check_word(rec, idx, _G["fields"], _G["base"])
        except core.MachineryError:
            raise
        except Exception as exc:  # noqa: BLE001
            fails = [f"raised {type(exc).__name__}: {exc}"]
        if fails:
            bad.append({"index": idx, **rec, "fails": sorted(set(fails))[:6]})
    return len(items), bad


def _chunk_waves(items):
    core.setup_repo_import()
    bad = []
    for idx, rec in items:
        try:
            fails = check_wave(rec, idx)
        except core.MachineryError:
            raise
        except Exception as exc:  # noqa: BLE001
            fails = [f"raised {type(exc).__name__}: {exc}"]
        if fails:
            bad.append({"index": idx, **rec, "fails": fails})
    return len(items), bad


def check_translates(seed):
    """every cyclic translate of an image along its periodic axes has the same length scales: images whose clusters touch at
    corners or edges only (face connectivity decides how many droplets there are -- also across the periodic boundary)"""
    fails = []
    n = 0
    rng = np.random.default_rng(seed)
    cases = []
    a = np.zeros((32, 32))
    a[4:10, 5:11] = 1
    a[10:16, 11:17] = 1          # two squares meeting at one corner
    a[22:26, 20:24] = 1
    cases.append(("corner2d", a, 1.0, [True, True]))
    b = np.zeros((24, 18))
    b[3:8, 2:7] = 1
    b[8:12, 7:12] = 1
    b[12:17, 12:16] = 1          # a staircase of three
    cases.append(("stairs2d", b, 0.5, [True, False]))
    u = np.zeros((40, 40))
    u[6:9, 8:24] = 1
    u[6:22, 8:11] = 1
    u[6:22, 21:24] = 1           # a U-shaped domain: the seam cuts it into one piece on one side and two on the other
    ii, jj = np.indices((40, 40))
    u[(ii - 30) ** 2 + (jj - 30) ** 2 < 16] = 1
    cases.append(("ushape2d", u, 1.0, [True, True]))
    # the same domain upside down and lying on its side: which side of the seam holds the single piece matters
    cases.append(("ushape2d-flipped", u[::-1, :].copy(), 1.0, [True, True]))
    cases.append(("ushape2d-transposed", u.T.copy(), 0.5, [True, True]))
    cases.append(("ushape2d-transposed-flipped", u.T[:, ::-1].copy(), 0.5, [True, False]))
    c = np.zeros((12, 12, 12))
    c[1:5, 1:5, 1:5] = 1
    c[5:9, 5:9, 1:5] = 1         # two cubes sharing an edge
    c[5:9, 5:9, 7:11] = 1
    cases.append(("edge3d", c, 2.0, [True, True, True]))
    # ---- one-dimensional waves with exactly four cells per period, sampled as 0, 1, 0, -1: every droplet is ONE cell
    # (radius exactly half a cell); counted length = box / number of periods = 4 cells, for every spacing
    from pde import CartesianGrid, ScalarField

    for nper, dx1 in ((3, 1.0), (8, 0.25), (5, 2.0**-9), (16, 64.0)):
        ncell = 4 * nper
        g1 = CartesianGrid([(0.0, ncell * dx1)], ncell, periodic=True)
        j = np.arange(ncell)
        vals = np.array([0.0, 1.0, 0.0, -1.0])[j % 4]
        n += 1
        for shift in (0, 1, 2, 3):
            got = measure(ScalarField(g1, np.roll(vals, shift)), "droplet_detection")
            if not (abs(got - 4 * dx1) <= 1e-12 * 4 * dx1):
                fails.append(f"wave1d/droplet_detection: {got!r} for {nper} one-cell droplets in a box of {ncell} cells of size {dx1} (expected {4 * dx1})")
    # ---- the same picture on two grids of equal shape whose spacings are exchanged (0.5, 2) <-> (2, 0.5): one after the
    # other in this process
    rngp = np.random.default_rng(seed + 17)
    shp = (24, 24)
    xx = (np.arange(24) + 0.5)
    pic = np.sin(2 * np.pi * 3 * xx / 24)[:, None] * np.ones(24)[None, :] + 0.05 * rngp.standard_normal(shp)
    ga = CartesianGrid([(0.0, 24 * 0.5), (0.0, 24 * 2.0)], list(shp), periodic=True)
    gb = CartesianGrid([(0.0, 24 * 2.0), (0.0, 24 * 0.5)], list(shp), periodic=True)
    va = {m: measure(ScalarField(ga, pic), m) for m in METHODS}
    vb = {m: measure(ScalarField(gb, pic.T), m) for m in METHODS}
    n += 1
    for m in METHODS:
        if m == "structure_factor_maximum":
            bin_ = 2 * np.pi / (24 * 0.5)
            ok = np.isfinite(va[m]) and np.isfinite(vb[m]) and abs(2 * np.pi / va[m] - 2 * np.pi / vb[m]) <= 0.5 * bin_ \
                and abs(2 * np.pi / va[m] - 2 * np.pi * 3 / 12.0) <= 0.5 * bin_
        else:
            ok = np.isfinite(va[m]) and abs(va[m] - vb[m]) <= 1e-9 * abs(va[m])
        if not ok:
            fails.append(f"aniso/{m}: {va[m]!r} on spacings (0.5, 2), {vb[m]!r} for the transposed picture on spacings (2, 0.5)")
    for name, data, dx, per in cases:
        shape = data.shape
        ref = {m: measure(make_field(shape, dx, data, 0, per), m) for m in METHODS}
        shifts = []
        for ax in range(len(shape)):
            if per[ax]:
                shifts += [(ax, k) for k in range(1, shape[ax])]
        for ax, k in shifts:
            d2 = np.roll(data, k, axis=ax)
            if len(shape) == 2 and per[1 - ax] and k % 3 == 0:
                d2 = np.roll(d2, int(rng.integers(0, shape[1 - ax])), axis=1 - ax)
            f = make_field(shape, dx, d2, 0, per)
            n += 1
            for m in METHODS:
                got = measure(f, m)
                if m == "droplet_detection":
                    if got != ref[m]:
                        fails.append(f"{name}/{m}: {got!r} after a shift by {k} cells along axis {ax}, {ref[m]!r} before")
                elif m == "structure_factor_maximum":
                    # a numerical search: the property only asks for the box's Fourier resolution
                    bin_ = max(2 * np.pi / (nn * dx) for nn in shape)
                    if np.isfinite(ref[m]) and not (np.isfinite(got) and abs(2 * np.pi / got - 2 * np.pi / ref[m]) <= 0.5 * bin_):
                        fails.append(f"{name}/{m}: {got!r} after a shift by {k} cells along axis {ax}, {ref[m]!r} before")
                elif np.isfinite(ref[m]) and abs(got - ref[m]) > 1e-9 * abs(ref[m]):
                    fails.append(f"{name}/{m}: {got!r} after a shift by {k} cells along axis {ax}, {ref[m]!r} before")
    return n, sorted(set(fails))[:10]


def has_winding_cluster(mask, periodic):
    """does a face-connected cluster of the binary image wind around a periodic axis? (breadth-first search that carries
    the displacement of every cell from the cluster's first cell; meeting a cell again with another displacement = winding)"""
    shape = mask.shape
    per = [True] * len(shape) if periodic is True else list(periodic)
    seen = {}
    for start in map(tuple, np.argwhere(mask)):
        if start in seen:
            continue
        seen[start] = tuple([0] * len(shape))
        todo = [start]
        while todo:
            c = todo.pop()
            for a in range(len(shape)):
                for d in (-1, 1):
                    n = list(c)
                    off = list(seen[c])
                    n[a] += d
                    if n[a] < 0 or n[a] >= shape[a]:
                        if not per[a]:
                            continue
                        off[a] += d
                        n[a] %= shape[a]
                    n, off = tuple(n), tuple(off)
                    if not mask[n]:
                        continue
                    if n not in seen:
                        seen[n] = off
                        todo.append(n)
                    elif seen[n] != off:
                        return True
    return False


def classify(b):
    if "wave" in b and b["wave"].get("shape") and any("peak method returns nan" in f for f in b["fails"]):
        return "peak-method-default-smoothing"
    # droplet counting on an image with a cluster that winds around the box: the reported position of such a cluster is
    # not defined (C02 leaves it open), it moves with the translation and with it the outcome of the overlap removal
    fl = b.get("fails", [])
    if fl and b.get("winding_fields") and all("/droplet_detection:" in f and f.split("/")[0] in b["winding_fields"] for f in fl):
        return "droplet-count-winding-cluster"
    return None


def known_winding_case(out):
    """F27 (open): the fixed field on which the finding was made (the smooth 2-D base field of seed 3), whatever the seed
    of this run: one cluster winds around the box, and the droplet count differs between the shifts 0 and 7 along axis 1"""
    name, shape, dx, per, data = base_fields(6)[1]
    thr = (float(data.min()) + float(data.max())) / 2
    if not has_winding_cluster(data > thr, per):
        raise core.MachineryError("the field of finding F27 has no winding cluster any more")
    v0 = measure(make_field(shape, dx, data, 0, per), "droplet_detection")
    v7 = measure(make_field(shape, dx, np.roll(data, 7, axis=1), 0, per), "droplet_detection")
    out.evaluations += 1
    if v0 != v7:
        out.violation({"winding_cluster_field": {"base_field_seed": 6, "shape": list(shape), "dx": dx},
                       "fails": [f"smooth2d/droplet_detection: {v7!r} after a shift by 7 cells along axis 1, {v0!r} before"]},
                      signature="droplet-count-winding-cluster")


def run(out: core.Outcome) -> None:
    import multiprocessing as mp

    core.setup_repo_import()
    out.rule = (
        "TLC enumerates generator words and admissible plane waves of LengthScale.tla; words are applied to three base "
        "fields (1-D..3-D) and all three methods must scale by 2^stretch and ignore amplitude and translation; every plane "
        "wave is measured with the peak (and moment) method and must lie within half a Fourier bin of 2 pi |n/L|; droplet "
        "counting is compared with (V/n)^(1/d) on rendered emulsions. Non-trivial = non-empty word / any wave."
    )
    fields = base_fields(out.seed + 3)
    base = [{m: measure(make_field(shape, dx, data, 0, per), m) for m in METHODS} for (_, shape, dx, per, data) in fields]
    winding = []
    for (fname, shape, dx, per, data) in fields:
        thr = (float(data.min()) + float(data.max())) / 2
        if has_winding_cluster(data > thr, per):
            winding.append(fname)
    out.extra["base_fields_with_a_winding_cluster"] = winding
    _G.update(fields=fields, base=base, winding=winding)
    out.extra["base_values"] = [{k: v for k, v in b.items()} for b in base]
    for name, fn in ((("q_words", _chunk_words), ("q_waves", _chunk_waves)) if out.tier == "quick"
                     else (("t_words", _chunk_words), ("t_waves", _chunk_waves))):
        r = core.tlc("MC_LengthScale", f"MC_LengthScale_{name}.cfg", timeout=1800)
        if r.violated:
            out.violation({"tlc_config": name, "violated": r.violated, "tlc_tail": r.stdout[-3000:]})
            continue
        out.add_tlc(name, r)
        items = list(enumerate(r.printed))
        size = max(1, len(items) // (core.NCPU * 4))
        with mp.get_context("fork").Pool(core.NCPU) as pool:
            results = pool.map(fn, [items[i : i + size] for i in range(0, len(items), size)])
        nbad = 0
        for cnt, bad in results:
            out.evaluations += cnt
            nbad += len(bad)
            for b in bad:
                b = {**b, "winding_fields": winding}
                out.violation({"config": name, **b}, signature=classify(b))
        out.nontrivial_count += sum(1 for _, rec in items if rec["word"] or rec["wave"]["shape"])
        out.parts[name].update(cases=len(items), mismatches=nbad)
        out.sample({"config": name, "case": r.printed[len(r.printed) // 2]}, limit=2)
    known_winding_case(out)
    cnt, fails = check_translates(out.seed)
    out.evaluations += cnt
    out.parts["translates"] = {"images_times_shifts": cnt}
    if fails:
        out.violation({"translates": "corner/edge-touching clusters under all cyclic shifts", "fails": fails})
    n = 48 if out.tier == "quick" else 1600
    per = max(1, n // core.NCPU)
    with mp.get_context("fork").Pool(core.NCPU) as pool:
        res = pool.starmap(check_emulsions, [(out.seed * 31 + k, per) for k in range(core.NCPU)])
    for cnt, bad in res:
        out.traces += cnt
        for b in bad:
            out.violation(b)
    out.exhaustive = True
    out.explanation = out.rule
    out.assumptions = [
        "droplet counting is measured with threshold='extrema' (the default absolute threshold 0.5 is not amplitude invariant by "
        "construction) and only positive factors (a negative factor exchanges droplets and background)",
        "the Fourier bin is the largest of the per-axis spacings 2 pi / L_a of the wave-number lattice",
        "pure power-of-two stretches must be reproduced exactly by the moment method; other words to 1e-12 relative",
    ]


def replay(out, path):
    core.setup_repo_import()
    case = json.loads(open(path).read())
    if "emulsion_case" in case:
        e = case["emulsion_case"]
        n, bad = check_emulsions(e["seed"], e["t"] + 1)
        fails = [f for b in bad if b["emulsion_case"]["t"] == e["t"] for f in b["fails"]]
    elif case["wave"]["shape"]:
        fails = check_wave(case, case["index"])
    else:
        fields = base_fields(out.seed + 3)
        base = [{m: measure(make_field(shape, dx, data, 0, per), m) for m in METHODS} for (_, shape, dx, per, data) in fields]
        fails = check_word(case, case["index"], fields, base)
    print("fails:", fails)
    if fails:
        print(f"VIOLATION property=C17 replay={path}")
        return 1
    return 0
