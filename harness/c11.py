"""C11 — merging droplets conserves volume and centre of mass (Merge.tla).

spec -> code : TLC explores every merge history (any order, any grouping, any of the three code paths per
               step) of 2-4 lattice droplets in 1-3 dimensions in exact power-sum coordinates and checks
               TotalVolume, TotalMoment, Commutative, Associative, FinalUnique and OperandsIntact.  Every
               history is executed on real SphericalDroplet / DiffuseDroplet objects; after every step the
               result must have the spec's exact volume, centre and width, operands must be untouched
               (bytes), and the step is repeated through the other two code paths and with swapped operands.
exploration  : random real-valued merge trees are compared with exact rational power sums.
"""

from __future__ import annotations

import json
import math
import pickle
import random
from fractions import Fraction

import numpy as np

from . import core

QUICK = ["q_s1", "q_d1", "q_s2", "q_d2", "q_s3", "q_d3"]
THOROUGH = QUICK + ["t_d1", "t_d2", "t_d3", "t_s1", "t_s2", "t_s3"]
CFG = {}
for _dim in (1, 2, 3):
    CFG[f"q_s{_dim}"] = (_dim, False)
    CFG[f"q_d{_dim}"] = (_dim, True)
    CFG[f"t_s{_dim}"] = (_dim, False)
    CFG[f"t_d{_dim}"] = (_dim, True)

_JIT = {}


def compiled_merge(cls):
    import numba

    if cls not in _JIT:
        _JIT[cls] = numba.njit(cls._make_merge_data())
    return _JIT[cls]


def iroot(m, d):
    r = round(m ** (1.0 / d))
    for c in (r - 1, r, r + 1):
        if c >= 0 and c**d == m:
            return c
    raise core.MachineryError(f"{m} is not a perfect power {d}")


def ulps(a, b):
    if a == b:
        return 0
    if not (np.isfinite(a) and np.isfinite(b)):
        return 10**9
    return abs(int(np.float64(a).view(np.int64)) - int(np.float64(b).view(np.int64))) if (a > 0) == (b > 0) else 10**9


def _make(cls_d, cls_s, diffuse, v, dim):
    m = v["m"]
    r = iroot(m, dim)
    # position: M = m * p; droplets of radius 0 carry M = 0, their position comes from the table
    return r


def _replay_chunk(args):
    items, dim, diffuse, pos_table = args
    core.setup_repo_import()
    from droplets import DiffuseDroplet, SphericalDroplet

    cls = DiffuseDroplet if diffuse else SphericalDroplet
    cm = compiled_merge(cls)
    bad = []
    n = 0
    steps = 0
    for idx, rec in items:
        fails = []
        objs = {}
        for i, v in enumerate(rec["init"], 1):
            r = iroot(v["m"], dim)
            p = np.array(pos_table[i - 1], float)
            if diffuse:
                w = v["w"]
                objs[i] = DiffuseDroplet(p, float(r), None if w[0] < 0 else w[0] / w[1])
            else:
                objs[i] = SphericalDroplet(p, float(r))
            if idx % 3 == 1:
                # operands that went through pickle (as every droplet handed to / returned by a worker process does)
                objs[i] = pickle.loads(pickle.dumps(objs[i]))
            elif idx % 3 == 2 and i % 2 == 0:
                objs[i] = objs[i].copy()
        try:
            # a droplet merged with ITSELF (both operands, and for the in-place / compiled path also the output, are one
            # record): twice the volume at the same place, whatever the path
            for i0 in sorted(objs)[:2]:
                x = objs[i0].copy()
                ref = x.copy().merge(x.copy())
                y = x.copy()
                y.merge(y, inplace=True)
                z = x.copy()
                cm(z.data, z.data, z.data)
                for name, o in (("in-place", y), ("compiled", z), ("out-of-place", x.merge(x))):
                    fo = np.concatenate([np.atleast_1d(o.data[f]).ravel() for f in o.data.dtype.names])
                    fr = np.concatenate([np.atleast_1d(ref.data[f]).ravel() for f in ref.data.dtype.names])
                    if any(not (np.isnan(u) and np.isnan(v_)) and ulps(u, v_) > 4 and abs(u - v_) > 1e-13 * max(1.0, abs(u), abs(v_))
                           for u, v_ in zip(fo, fr)):
                        fails.append(f"self-merge-{name}-differs")
            for h in rec["hist"]:
                a, b = objs[h["i"]], objs[h["j"]]
                ba, bb = a.data.tobytes(), b.data.tobytes()
                # the three code paths and the swapped order, on copies
                o_out = a.copy().merge(b.copy())
                ac = a.copy()
                o_in = ac.merge(b.copy(), inplace=True)
                if o_in is not ac:
                    fails.append("inplace-returns-other-object")
                rec_out = np.record(np.zeros_like(a.data))
                cm(a.copy().data, b.copy().data, rec_out)
                o_c = cls.from_data(rec_out)
                o_sw = b.copy().merge(a.copy())
                if o_out.data.tobytes() != o_in.data.tobytes():
                    fails.append("inplace-differs-from-out-of-place")
                for name, x, y in (("compiled", o_c, o_out), ("swapped", o_sw, o_out)):
                    fx = np.concatenate([np.atleast_1d(x.data[f]).ravel() for f in x.data.dtype.names])
                    fy = np.concatenate([np.atleast_1d(y.data[f]).ravel() for f in y.data.dtype.names])
                    for u, v_ in zip(fx, fy):
                        if np.isnan(u) and np.isnan(v_):
                            continue
                        if ulps(u, v_) > 4 and abs(u - v_) > 1e-13 * max(1.0, abs(u), abs(v_)):
                            fails.append(f"{name}-path-differs")
                # the step of the history itself
                if h["op"] == "out":
                    res = a.merge(b)
                elif h["op"] == "in":
                    res = a.merge(b, inplace=True)
                    if res is not a:
                        fails.append("inplace-returns-other-object")
                else:
                    rec_out = np.record(np.zeros_like(a.data))
                    cm(a.data, b.data, rec_out)
                    res = cls.from_data(rec_out)
                objs[h["res"]] = res
                if h["op"] != "in" and a.data.tobytes() != ba:
                    fails.append("first-operand-modified")
                if b.data.tobytes() != bb:
                    fails.append("second-operand-modified")
                if h["op"] != "in" and (res is a or res is b or np.shares_memory(res.data, a.data)):
                    fails.append("out-of-place-result-aliases-operand")
                steps += 1
            # compare the whole heap with the spec
            for i, v in enumerate(rec["heap"], 1):
                if i not in objs:
                    fails.append("object-missing")
                    continue
                d = objs[i]
                m = v["m"]
                if type(d) is not cls:
                    fails.append("class-changed")
                if abs(d.radius**dim - m) > 1e-12 * max(1, m):
                    fails.append("volume")
                if m > 0:
                    for k in range(dim):
                        ref = v["M"][k] / m
                        if abs(float(d.position[k]) - ref) > 1e-12 * max(1.0, abs(ref)):
                            fails.append("centre-of-mass")
                    vol = d.volume
                    from droplets.tools import spherical

                    if abs(vol - spherical.volume_from_radius(1.0, dim) * m) > 1e-12 * max(1.0, vol):
                        fails.append("volume-property")
                if diffuse:
                    w = v["w"]
                    if w[0] < 0:
                        if d.interface_width is not None:
                            fails.append("width-should-be-unset")
                    elif d.interface_width is None or abs(d.interface_width - w[0] / w[1]) > 1e-14:
                        fails.append("width-mean")
        except Exception as exc:  # noqa: BLE001
            fails.append(f"raised {type(exc).__name__}: {exc}")
        n += 1
        if fails:
            bad.append({"index": idx, "init": rec["init"], "hist": rec["hist"], "heap": rec["heap"], "fails": sorted(set(fails))})
            if len(bad) > 100:
                break
    return n, steps, bad


def _random_trees(seed, count):
    """random real-valued droplets merged in random order/grouping/paths vs exact rational power sums"""
    core.setup_repo_import()
    from droplets import DiffuseDroplet, SphericalDroplet

    rng = random.Random(seed)
    bad = []
    for t in range(count):
        dim = rng.choice([1, 2, 3])
        cls = rng.choice([SphericalDroplet, DiffuseDroplet])
        k = rng.randint(2, 7)
        scale = 10 ** rng.uniform(-3, 3)
        ds = []
        for _ in range(k):
            r = rng.choice([0.0, rng.uniform(0.01, 3) * scale, rng.uniform(0.01, 3) * scale])
            p = np.array([rng.uniform(-10, 10) * scale for _ in range(dim)])
            ds.append(cls(p, r, rng.choice([0.0, 0.5, 1.25])) if cls is DiffuseDroplet else cls(p, r))
        if all(d.radius == 0 for d in ds):
            ds[0].radius = scale
        mass = sum(Fraction(d.radius) ** dim for d in ds)
        mom = [sum(Fraction(d.radius) ** dim * Fraction(float(d.position[a])) for d in ds) for a in range(dim)]
        cm = compiled_merge(cls)
        pool = list(ds)
        try:
            while len(pool) > 1:
                i, j = rng.sample(range(len(pool)), 2)
                a, b = pool[i], pool[j]
                if a.radius == 0 and b.radius == 0:
                    if all(d.radius == 0 for k2, d in enumerate(pool) if k2 not in (i, j)) and len(pool) == 2:
                        break
                    continue
                path = rng.choice(["out", "in", "compiled"])
                if path == "out":
                    res = a.merge(b)
                elif path == "in":
                    res = a.merge(b, inplace=True)
                else:
                    o = np.record(np.zeros_like(a.data))
                    cm(a.data, b.data, o)
                    res = cls.from_data(o)
                pool = [d for k2, d in enumerate(pool) if k2 not in (i, j)] + [res]
            tot = sum(Fraction(d.radius) ** dim for d in pool)
            fails = []
            if abs(float(tot - mass)) > 1e-11 * float(mass):
                fails.append("total-volume")
            for a in range(dim):
                got = sum(Fraction(d.radius) ** dim * Fraction(float(d.position[a])) for d in pool)
                if abs(float(got - mom[a])) > 1e-11 * max(float(mass) * 10 * scale, abs(float(mom[a]))):
                    fails.append("centre-of-mass")
        except Exception as exc:  # noqa: BLE001
            fails = [f"raised {type(exc).__name__}: {exc}"]
        if fails:
            bad.append({"random_tree": {"seed": seed, "index": t, "dim": dim, "cls": cls.__name__}, "fails": fails})
    return count, bad


POS = {1: [[0], [3], [-5], [8]], 2: [[0, 0], [3, -1], [-5, 2], [8, 8]], 3: [[0, 0, 0], [3, -1, 2], [-5, 2, 7], [1, 8, -4]]}


def merge_located(out):
    """droplets as the image analysis returns them (unrefined and refined, spherical / diffuse / perturbed) can be merged
    like hand-made ones: volumes add, the centre is the volume-weighted mean, in place = out of place"""
    import warnings

    from pde import CartesianGrid, UnitGrid

    from droplets import DiffuseDroplet, Emulsion, locate_droplets

    cases = [(UnitGrid([32, 32]), [([10.0, 10.0], 4.0), ([22.0, 21.0], 5.0)], {}),
             (UnitGrid([32, 32]), [([10.0, 10.0], 4.0), ([22.0, 21.0], 5.0)], {"refine": True}),
             (CartesianGrid([[0, 16]] * 3, 16, periodic=[True, False, False]), [([5.0, 5.0, 5.0], 3.0), ([11.0, 10.0, 10.5], 3.5)], {"refine": True}),
             (UnitGrid([48]), [([12.0], 5.0), ([33.0], 6.0)], {"refine": True, "interface_width": 1.0})]     # (perturbed results are not merged here: merging treats droplets as spheres, C11 is about spherical / diffuse ones)
    for grid, drops, kw in cases:
        fails = []
        try:
            with warnings.catch_warnings():
                warnings.simplefilter("ignore")
                field = Emulsion([DiffuseDroplet(np.array(p), r, 1.0) for p, r in drops]).get_phasefield(grid)
                em = locate_droplets(field, **kw)
                if len(em) != 2:
                    raise core.MachineryError("scenario: two droplets expected")
                a, b = em[0], em[1]
                v, m = a.volume + b.volume, a.volume * np.asarray(a.position) + b.volume * np.asarray(b.position)
                o = a.merge(b)
                a2 = a.copy()
                a2.merge(b, inplace=True)
            if abs(o.volume - v) > 1e-12 * v or np.max(np.abs(np.asarray(o.position) - m / v)) > 1e-12 * grid.volume ** (1 / grid.dim):
                fails.append("merged located droplets do not conserve volume / centre of mass")
            if o.data.tobytes() != a2.data.tobytes():
                fails.append("in-place merge of located droplets differs from the out-of-place merge")
        except core.MachineryError:
            raise
        except Exception as exc:  # noqa: BLE001
            fails.append(f"merging droplets returned by locate_droplets({kw}) raised {type(exc).__name__}: {exc}")
        out.evaluations += 1
        if fails:
            out.violation({"merge_located": {"grid": repr(grid), "options": {k: str(v) for k, v in kw.items()}}, "fails": fails})
    out.parts["merge_located"] = {"cases": len(cases)}


def merge_special(out):
    """(a) members of an emulsion linked to an array: an in-place merge shows in the array row, a compiled merge written
    into the array row shows in the member, and volume / centre are conserved along the whole sequence;
    (b) small droplets far away from the origin: the centre is the volume-weighted mean also when the two centres differ
    by less than 1e-5 of their coordinates, and a.merge(b) equals b.merge(a)"""
    from fractions import Fraction

    from droplets import DiffuseDroplet, Emulsion, SphericalDroplet

    rng = np.random.default_rng(out.seed + 13)
    for k in range(24):
        cls = [SphericalDroplet, DiffuseDroplet][k % 2]
        dim = 1 + k % 3
        mk = lambda: (cls(rng.uniform(-4, 4, dim), float(rng.uniform(0.5, 2))) if cls is SphericalDroplet  # noqa: E731
                      else cls(rng.uniform(-4, 4, dim), float(rng.uniform(0.5, 2)), float(rng.uniform(0.1, 1))))
        fails = []
        em = Emulsion([mk(), mk(), mk()])
        vol0 = sum(d.volume for d in em)
        mom0 = sum(d.volume * np.asarray(d.position) for d in em)
        arr = em.get_linked_data()
        em[0].merge(em[1], inplace=True)
        if arr[0].tobytes() != em[0].data.tobytes():
            fails.append("after an in-place merge of a linked member the linked array row differs from the member")
        cm = compiled_merge(cls)
        cm(arr[0], arr[2], arr[0])
        if arr[0].tobytes() != em[0].data.tobytes():
            fails.append("a compiled merge written into the linked array row does not show in the member")
        if abs(em[0].volume - vol0) > 1e-12 * vol0 or np.max(np.abs(em[0].volume * np.asarray(em[0].position) - mom0)) > 1e-11 * (1 + np.abs(mom0).max()):
            fails.append("volume / centre of mass not conserved along link -> in-place merge -> compiled merge")
        # (b)
        base = rng.uniform(500, 2000, dim) * rng.choice([-1, 1], dim)
        ra, rb = float(rng.uniform(0.002, 0.01)), float(rng.uniform(0.002, 0.01))
        pa = base + rng.uniform(-0.004, 0.004, dim)
        pb = base + rng.uniform(-0.004, 0.004, dim)
        a, b = SphericalDroplet(pa, ra), SphericalDroplet(pb, rb)
        ab, ba = a.merge(b), b.merge(a)
        va, vb = Fraction(ra) ** dim, Fraction(rb) ** dim
        want = [float((va * Fraction(float(x)) + vb * Fraction(float(y))) / (va + vb)) for x, y in zip(pa, pb)]
        if np.max(np.abs(np.asarray(ab.position) - want)) > 1e-12 * np.abs(base).max():
            fails.append("centre of two small droplets far from the origin is not the volume-weighted mean")
        if np.max(np.abs(np.asarray(ab.position) - np.asarray(ba.position))) > 1e-12 * np.abs(base).max():
            fails.append("a.merge(b) and b.merge(a) give different centres")
        out.evaluations += 1
        if fails:
            out.violation({"merge_special": {"k": k, "class": cls.__name__, "dim": dim}, "fails": sorted(set(fails))})
    out.parts["merge_special"] = {"cases": 24}


def run(out: core.Outcome) -> None:
    import multiprocessing as mp

    core.setup_repo_import()
    out.rule = (
        "TLC explores every merge history (order, grouping, code path per step) of the lattice droplets of each config "
        "and checks the conservation laws in exact integers; every history is executed on real droplets and every heap "
        "object compared with the spec (volume, centre, width), operands by bytes, the three code paths and the swapped "
        "operand order against each other. Non-trivial = history with >= 2 merges."
    )
    out.exhaustive = True
    from droplets import DiffuseDroplet, SphericalDroplet

    for c in (SphericalDroplet, DiffuseDroplet):
        compiled_merge(c)  # compile before forking
        for dim in (1, 2, 3):
            a = c(np.zeros(dim), 1.0)
            o = np.record(np.zeros_like(a.data))
            compiled_merge(c)(a.data, a.copy().data, o)
    for name in QUICK if out.tier == "quick" else THOROUGH:
        dim, diffuse = CFG[name]
        items = []
        r = core.tlc("MC_Merge", f"MC_Merge_{name}.cfg", timeout=3000)
        if r.violated:
            out.violation({"tlc_config": name, "violated": r.violated, "tlc_tail": r.stdout[-3000:]})
            continue
        r.require_actions(["MergeOut", "MergeIn"])
        out.add_tlc(name, r)
        items = list(enumerate(r.printed))
        size = max(1, len(items) // (core.NCPU * 4))
        chunks = [(items[i : i + size], dim, diffuse, POS[dim]) for i in range(0, len(items), size)]
        with mp.get_context("fork").Pool(core.NCPU) as pool:
            results = pool.map(_replay_chunk, chunks)
        nbad = 0
        for n, steps, bad in results:
            out.evaluations += n
            out.nontrivial_count += n if True else 0
            nbad += len(bad)
            for b in bad:
                out.violation({"config": name, "dim": dim, "diffuse": diffuse, **b})
        out.parts[name].update(histories=len(items), mismatches=nbad)
        out.sample({"config": name, "history": r.printed[len(r.printed) // 2]["hist"]}, limit=3)
    nrand = 2000 if out.tier == "quick" else 40000
    per = nrand // core.NCPU
    with mp.get_context("fork").Pool(core.NCPU) as pool:
        res = pool.starmap(_random_trees, [(out.seed * 1000 + k, per) for k in range(core.NCPU)])
    for cnt, bad in res:
        out.evaluations += cnt
        for b in bad:
            out.violation(b)
    out.extra["random_real_valued_merge_trees"] = per * core.NCPU
    merge_located(out)
    merge_special(out)
    out.explanation = out.rule
    out.assumptions = [
        "lattice radii/positions (integers) so that the spec's power sums are exact; real-valued inputs only sampled",
        "compiled path and swapped operands are required to agree within 4 ulp / 1e-13, in-place and out-of-place bit for bit",
        "merging two droplets of zero radius is outside the property's premise (positive total volume)",
    ]


def replay(out, path):
    core.setup_repo_import()
    case = json.loads(open(path).read())
    if "hist" not in case:
        print(json.dumps(case)[:2000])
        return 0
    n, steps, bad = _replay_chunk(([(0, case)], case["dim"], case["diffuse"], POS[case["dim"]]))
    for b in bad:
        print("fails:", b["fails"])
    if bad:
        print(f"VIOLATION property=C11 replay={path}")
        return 1
    print("no violation reproduced")
    return 0
