"""C01 — locating a rendered emulsion returns each droplet once, with exact volume.

RenderLocate.tla (Cartesian): TLC enumerates every placement of 1-3 lattice droplets (centres on the
  quarter-cell lattice incl. outside the box on periodic axes, integer squared radii) satisfying the
  explicit premises Resolvable / InBox / Separated, renders them, runs the LocateCart actions and checks
  OnePerOriginal, ExactVolume, HalfCell, NoWinding, Correct in integers.
LocateSym.tla (polar / spherical / cylindrical): radial and axisymmetric pipelines, RadialHalfCell etc.
Replay: every configuration is rendered by the real Emulsion.get_phasefield (mask must equal the spec's
  cell for cell, integral = volume), located by the real locate_droplets and compared with the spec's
  clusters (count, volume, rational centre of mass modulo the period, inside the bounds).
code -> spec: random non-lattice emulsions on larger grids; recorded (mask, result, true centres)
  validated by TraceLocate.tla plus the half-cell clause evaluated on exact rationals.
"""

from __future__ import annotations

import math
import random
from fractions import Fraction

import numpy as np

from . import c02, core, locate

QUICK = ["q_1d", "q_1dfar", "q_2dfar", "q_1do", "q_2d", "q_2da"]
THOROUGH = QUICK + ["t_1d3", "t_2d", "t_2dpf", "t_2dff", "t_2da", "t_2d2", "t_3d", "t_3dm"]
HSTEPS = [0.25, 0.125, 1.0, 0.5]


def cfg_params(name):
    txt = (core.SPECS / f"MC_RenderLocate_{name}.cfg").read_text()
    vals = {}
    for line in txt.splitlines():
        line = line.strip()
        if "=" in line and "<-" not in line:
            k, v = [x.strip() for x in line.split("=", 1)]
            vals[k] = v
    dim = int(vals["DimC"])
    shape = [int(vals[f"N{i}"]) for i in range(1, dim + 1)]
    per = [vals[f"P{i}"] == "TRUE" for i in range(1, dim + 1)]
    dx = [int(vals[f"DX{i}"]) for i in range(1, dim + 1)]
    x0 = [int(vals[f"O{i}"]) - 16 for i in range(1, dim + 1)]
    return shape, per, dx, x0


def _replay_chunk(args):
    items, shape, per, dxu, x0u = args
    core.setup_repo_import()
    from pde import CartesianGrid

    from droplets import Emulsion, SphericalDroplet, image_analysis

    dim = len(shape)
    bad = []
    nontriv = 0
    for idx, it in items:
        h = HSTEPS[idx % len(HSTEPS)]
        dx = [d * h for d in dxu]
        x0 = [o * h for o in x0u]
        grid = CartesianGrid([(o, o + n * d) for o, n, d in zip(x0, shape, dx)], shape, periodic=per)
        drops = it["drops"]
        case = {"shape": shape, "periodic": per, "dx": dx, "x0": x0, "drops": drops, "h": h}
        fails = []
        try:
            objs = [SphericalDroplet(np.array(d["pos"], float) * h, math.sqrt(d["r2"]) * h) for d in drops]
            em = Emulsion(objs)
            field = em.get_phasefield(grid)
            got_mask = sorted(map(tuple, np.argwhere(field.data > 0.5).tolist()))
            exp_mask = sorted(tuple(c) for c in it["mask"])
            if got_mask != exp_mask:
                fails.append("rendered mask differs from the cells whose centres the droplets cover")
            if not np.all(np.isin(field.data, [0.0, 1.0])):
                fails.append("sharp droplet field is not an indicator")
            cellvol = float(np.prod(dx))
            if abs(field.integral - len(exp_mask) * cellvol) > 1e-9 * max(1.0, len(exp_mask) * cellvol):
                fails.append("field integral differs from covered cell volume")
            data_before = field.data.copy()
            res = image_analysis.locate_droplets(field)
            if not np.array_equal(field.data, data_before):
                fails.append("field modified")
            # a minimal radius far below every droplet (0.6 cells; the droplets have at least 1.5) filters nothing -- in
            # particular not the small caps of a droplet that lie beyond a periodic boundary
            res_min = image_analysis.locate_droplets(field, minimal_radius=0.6 * min(dx))
            if sorted(d.data.tobytes() for d in res_min) != sorted(d.data.tobytes() for d in res):
                fails.append("a minimal radius below every droplet changes the result")
            if len(res) != len(drops):
                fails.append(f"{len(res)} droplets returned for {len(drops)} originals")
            fails += c02.match_clusters(list(res), it["cl"], grid, shape, per, dx, x0)
            # half-cell clause evaluated directly against the originals (float, generous 1e-9 slack)
            for d in drops:
                ok = False
                for r in res:
                    if all(locate.circ_close(float(r.position[a]), d["pos"][a] * h,
                                             shape[a] * dx[a] if per[a] else None, dx[a] / 2 + 1e-9)
                           for a in range(dim)):
                        ok = True
                if not ok:
                    fails.append("no returned droplet within half a cell of an original")
            if any(per) and any(
                any(d["pos"][a] * h < x0[a] + math.sqrt(d["r2"]) * h or
                    d["pos"][a] * h > x0[a] + shape[a] * dx[a] - math.sqrt(d["r2"]) * h for a in range(dim) if per[a])
                for d in drops):
                nontriv += 1
        except Exception as exc:  # noqa: BLE001
            fails.append(f"raised {type(exc).__name__}: {exc}")
        if fails:
            bad.append({**case, "fails": sorted(set(fails)), "expected": it["cl"]})
    return len(items), nontriv, bad


def run(out: core.Outcome) -> None:
    core.setup_repo_import()
    import multiprocessing as mp

    out.rule = (
        "TLC enumerates every droplet placement of each RenderLocate config (centres on the sub-cell lattice, "
        "incl. outside the box on periodic axes; integer squared radii; premises Resolvable/InBox/Separated in "
        "the spec) and checks OnePerOriginal/ExactVolume/HalfCell; each is rendered and located by the real code. "
        "Non-trivial = a droplet straddling a periodic boundary. Symmetric grids via LocateSym.tla."
    )
    for name in QUICK if out.tier == "quick" else THOROUGH:
        shape, per, dxu, x0u = cfg_params(name)
        r = core.tlc("MC_RenderLocate", f"MC_RenderLocate_{name}.cfg", timeout=3000 if out.tier == "quick" else 10800)
        if r.violated:
            out.violation({"tlc_config": name, "violated": r.violated, "tlc_tail": r.stdout[-3000:]})
            continue
        r.require_actions(["RInit", "RLabel", "RSelect"])
        out.add_tlc(name, r)
        items = list(enumerate(r.printed))
        if not items:
            raise core.MachineryError(f"{name}: no configuration satisfies the premises")
        size = max(1, len(items) // (core.NCPU * 4))
        chunks = [(items[i : i + size], shape, per, dxu, x0u) for i in range(0, len(items), size)]
        with mp.get_context("fork").Pool(core.NCPU) as pool:
            results = pool.map(_replay_chunk, chunks)
        nbad = 0
        for n, nt, bad in results:
            out.evaluations += n
            out.nontrivial_count += nt
            for b in bad:
                nbad += 1
                out.violation({"config": name, **b}, signature=sym_signature(b))
        out.parts[name]["configurations_replayed"] = len(items)
        out.parts[name]["mismatches"] = nbad
        it = r.printed[len(r.printed) // 2]
        out.sample({"config": name, "drops": it["drops"], "clusters": it["cl"]})
    from . import locsym

    locsym.run_c01(out)
    random_emulsions(out, 150 if out.tier == "quick" else 4000)
    out.exhaustive = True
    out.assumptions += [
        "premises (Resolvable: diameter >= 3 cells and droplet + 1 cell fits in a period; Separated: centre "
        "distance >= r1 + r2 + 2 cells; InBox) are stated in RenderLocate.tla and only such configurations are explored",
        "lattice lengths are dyadic so `dist < radius` is decided identically in TLC (integers) and in doubles",
        "pde's grid metric defines the periodic metric",
    ]


def sym_signature(b):
    return None


# ------------------------------------------------------------------ random non-lattice emulsions


def _random_chunk(seeds):
    core.setup_repo_import()
    from pde import CartesianGrid

    from droplets import Emulsion, SphericalDroplet, image_analysis

    out = []
    for sd in seeds:
        rng = random.Random(sd)
        shape, per = c02.PALETTE[2 + rng.randrange(len(c02.PALETTE) - 2)]
        if sd % 3 == 0:
            shape, per = rng.choice([([7, 7, 6], [True, True, True]), ([7, 7, 7], [False, True, True]), ([7, 7, 7], [True, False, True])])
        shape, per = list(shape), list(per)
        dim = len(shape)
        dx, x0 = locate.variant(sd, dim)
        ratio = rng.choice([1.0, 1.0, 2.0])
        dx = [dx[0] * (ratio if a == 1 else 1.0) for a in range(dim)]
        grid = CartesianGrid([(o, o + n * d) for o, n, d in zip(x0, shape, dx)], shape, periodic=per)
        L = [n * d for n, d in zip(shape, dx)]
        dmax = max(dx)
        drops = []
        big = sd % 25 == 4
        if big:
            # diagonal neighbours: two (three) discs whose bounding boxes overlap although the discs are well
            # separated -- anything computed per bounding box instead of per cluster mixes them up
            shape, per = rng.choice([([40, 40], [True, True]), ([40, 44], [False, True])])
            dim = 2
            dx = [dx[0], dx[0]]
            x0 = x0[:2] if len(x0) >= 2 else [x0[0], x0[0]]
            grid = CartesianGrid([(o, o + n * d) for o, n, d in zip(x0, shape, dx)], shape, periodic=per)
            L = [n * d for n, d in zip(shape, dx)]
            dmax = dx[0]
            for _try in range(200):
                # cells of one disc lie inside the other's bounding box if a < r (1 + 1/sqrt 2); with the separation
                # premise this needs radii above 6.3 cells
                r1 = rng.uniform(6.8, 8.5) * dmax
                r2 = r1 * rng.uniform(0.9, 1.0)
                lo_a, hi_a = (r1 + r2 + 2.6 * dmax) / math.sqrt(2), 1.66 * r2
                if lo_a >= hi_a:
                    continue
                a = rng.uniform(lo_a, hi_a)
                sgn = rng.choice([1, -1])
                p1 = [rng.uniform(x0[k] + (0 if per[k] else r1 + dmax), x0[k] + L[k] - (0 if per[k] else r1 + dmax)) for k in range(2)]
                p2 = [p1[0] + a, p1[1] + sgn * a]
                q = 0.0
                for k in range(2):
                    d = abs(p1[k] - p2[k])
                    if per[k]:
                        d = d % L[k]
                        d = min(d, L[k] - d)
                    q += d * d
                if math.sqrt(q) < r1 + r2 + 2.5 * dmax:
                    continue
                if all(per[k] or (x0[k] + r2 + dmax <= p2[k] <= x0[k] + L[k] - r2 - dmax) for k in range(2)):
                    drops = [(p1, r1), (p2, r2)]
                    break
        for _ in range(rng.randint(1, 3) if not drops else 0):
            for _try in range(30):
                r = rng.uniform(1.5, 2.6 if dim < 3 else 1.9) * dmax
                if any(per[a] and 2 * r + 2 * dx[a] > L[a] for a in range(dim)):
                    continue
                pos = []
                corner = dim == 3 and rng.random() < 0.7     # 3-D: on an edge / corner of the periodic box
                for a in range(dim):
                    if per[a] and corner:
                        pos.append(x0[a] + rng.choice([0.0, L[a]]) + rng.uniform(-1.2, 1.2) * dx[a])
                    elif per[a]:
                        pos.append(rng.uniform(x0[a] - 0.5 * L[a], x0[a] + 1.5 * L[a]))
                    else:
                        lo, hi = x0[a] + r + dx[a], x0[a] + L[a] - r - dx[a]
                        if lo >= hi:
                            pos = None
                            break
                        pos.append(rng.uniform(lo, hi))
                if pos is None:
                    continue
                ok = True
                for (p2, r2) in drops:
                    q = 0.0
                    for a in range(dim):
                        d = abs(pos[a] - p2[a])
                        if per[a]:
                            d = d % L[a]
                            d = min(d, L[a] - d)
                        q += d * d
                    if math.sqrt(q) < r + r2 + 2.5 * dmax:
                        ok = False
                if ok:
                    drops.append((pos, r))
                    break
        if not drops:
            continue
        case = {"seed": sd, "shape": shape, "periodic": per, "dx": dx, "x0": x0, "drops": drops}
        try:
            em = Emulsion([SphericalDroplet(np.array(p), r) for p, r in drops])
            field = em.get_phasefield(grid)
            m = field.data > 0.5
            res = list(image_analysis.locate_droplets(field))
        except Exception as exc:  # noqa: BLE001
            out.append({"case": case, "error": f"{type(exc).__name__}: {exc}"})
            continue
        # knife edge: a cell centre within 1e-9 of an interface
        cc = grid.cell_coords
        knife = False
        for p, r in drops:
            d = grid.difference_vector(np.array(p), cc)
            if np.any(np.abs(np.linalg.norm(d, axis=-1) - r) < 1e-9):
                knife = True
        if knife:
            continue
        cellvol = float(np.prod(dx))
        obs = []
        integral = True
        for d in res:
            v = d.volume / cellvol
            vi = int(round(v))
            if abs(v - vi) > 1e-6 or vi <= 0:
                integral = False
                break
            s = []
            for a in range(dim):
                sc = ((float(d.position[a]) - x0[a]) / dx[a] - 0.5) * vi
                s.append(int(round(sc)))
                if abs(sc - s[-1]) > 1e-6 * max(1, abs(sc)):
                    integral = False
            obs.append({"v": vi, "s": s})
        # independent rendering reference (exact rationals): cells whose centre is inside
        half = []
        exactvol = []
        for (p, r) in drops:
            best = None
            for d in res:
                okk = all(locate.circ_close(float(d.position[a]), p[a], L[a] if per[a] else None, dx[a] / 2 + 1e-9)
                          for a in range(dim))
                inb = all((not per[a]) or (x0[a] - 1e-12 <= d.position[a] <= x0[a] + L[a] + 1e-12) for a in range(dim))
                if okk and inb:
                    best = d
            half.append(best is not None)
            # ExactVolume: the droplet reported for this original holds exactly the cells whose centres it covers
            # (counted here with the grid's own metric; knife-edge cells were excluded above)
            if best is not None:
                dv = grid.difference_vector(np.array(p), cc)
                covered = int(np.count_nonzero(np.linalg.norm(dv, axis=-1) < r))
                exactvol.append(abs(best.volume - covered * cellvol) <= 1e-9 * max(1.0, covered * cellvol))
        out.append({"case": case, "integral": integral, "n_res": len(res), "half": half, "exactvol": exactvol, "big": big,
                    "trace": {"mask": [list(map(int, c)) for c in np.argwhere(m)], "obs": obs}})
    return out


def random_emulsions(out: core.Outcome, n: int) -> None:
    import multiprocessing as mp

    seeds = [out.seed * 104729 + 31 * i for i in range(n)]
    size = max(1, n // (core.NCPU * 2))
    with mp.get_context("fork").Pool(core.NCPU) as pool:
        res = pool.map(_random_chunk, [seeds[i : i + size] for i in range(0, n, size)])
    cases = [c for part in res for c in part]
    groups: dict = {}
    for c in cases:
        out.evaluations += 1
        fails = []
        if "error" in c:
            out.violation({"random_emulsion": c["case"], "fails": ["raised " + c["error"]]})
            continue
        if not c["integral"]:
            fails.append("volume/moment not that of a set of cells")
        if c["n_res"] != len(c["case"]["drops"]):
            fails.append(f"{c['n_res']} droplets returned for {len(c['case']['drops'])} originals")
        if not all(c["half"]):
            fails.append("no returned droplet within half a cell (inside the bounds) of an original")
        if not all(c["exactvol"]):
            fails.append("volume of a returned droplet differs from the volume of the cells its original covers")
        if fails:
            out.violation({"random_emulsion": c["case"], "fails": fails})
            continue
        nbig = sum(1 for g in groups.values() for x in g if x["big"])
        if c["big"] and (out.tier == "quick" or nbig >= 12):
            # validating one 40 x 40 image takes TLC about a minute: thorough tier only, at most 12 (the clauses above
            # were judged for all of them)
            out.parts.setdefault("random_emulsions_big_not_validated_by_tlc", 0)
            out.parts["random_emulsions_big_not_validated_by_tlc"] += 1
            continue
        groups.setdefault((tuple(c["case"]["shape"]), tuple(c["case"]["periodic"])), []).append(c)
    for (shape, per), cs in sorted(groups.items()):
        dim = len(shape)
        sh = list(shape) + [1] * (3 - dim)
        pp = list(per) + [False] * (3 - dim)
        cfg = ("SPECIFICATION Spec\nCONSTANTS\n  N <- NC\n  P <- PC\n  Variant = \"unionfind\"\n"
               f"  DimC = {dim}\n  N1 = {sh[0]}\n  N2 = {sh[1]}\n  N3 = {sh[2]}\n"
               + "".join(f"  P{i + 1} = {'TRUE' if pp[i] else 'FALSE'}\n" for i in range(3))
               + "INVARIANT Verdict\n")
        rows, st = core.judge_traces("TraceLocate", [c["trace"] for c in cs], batch=400, modes=("run",), cfg_text=cfg)
        out.transitions += st
        out.traces += len(cs)
        for c, row in zip(cs, rows):
            v = row["run"]
            out.nontriv(("rnd", c["case"]["seed"]))
            failed = [k for k in ("correct", "count", "bijection") if not v[k]]
            if failed:
                out.violation({"random_emulsion": c["case"], "fails": failed, "obs": c["trace"]["obs"]})
    out.parts["random_emulsions"] = {"emulsions": len(cases)}
