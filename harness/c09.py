"""C09 — analysis never aborts on valid input and returns finite droplets (Outcome.tla).

spec -> code : Outcome.tla has exactly two transitions out of a call: Return with finite droplets, or Raise with the
               DOCUMENTED error (modes > 0 in 1-D; droplet/grid dimension mismatch).  TLC enumerates the input space:
               the option table x EVERY binary image of a tiny grid of each family (1-D row, 3x3, 2x2x2, cylindrical
               with and without periodic z, polar, spherical) plus constant / ramp / noise images; every droplet class
               x grid family for rendering; every time course over a frame alphabet for both tracking methods.
code -> spec : every enumerated input is executed by the real code (affinely rescaled intensities, periodic and open
               boxes); the outcome (return + finiteness, or exception type) is recorded and TraceOutcome.tla accepts
               it only if it is the spec's transition.
"""

from __future__ import annotations

import json
import math
import os
import warnings

import numpy as np

from . import core

SHAPES = {  # family -> {cells: shape}
    "cart1": {6: (6,), 8: (8,)}, "cart2": {9: (3, 3), 12: (3, 4)}, "cart2a": {9: (3, 3), 12: (3, 4)}, "cart3": {8: (2, 2, 2), 12: (2, 2, 3)},
    "cyl": {9: (3, 3), 12: (3, 4)}, "cylp": {9: (3, 3), 12: (3, 4)}, "polar": {4: (4,), 6: (6,)}, "spherical": {4: (4,), 6: (6,)},
}
AFF = [(1.0, 0.0), (2.0, -1.0), (0.5, 3.0), (8.0, 0.25)]


def make_grid(fam, shape, idx):
    from pde import CartesianGrid, CylindricalSymGrid, PolarSymGrid, SphericalSymGrid

    if fam.startswith("cart"):
        per = [bool((idx >> a) & 1) for a in range(len(shape))]
        spac = [1.0, 0.1] if fam == "cart2a" else [1.0] * len(shape)     # cart2a: strongly anisotropic cells
        return CartesianGrid([[0, n * s] for n, s in zip(shape, spac)], list(shape), periodic=per)
    if fam in ("cyl", "cylp"):
        return CylindricalSymGrid(shape[0], [0, shape[1]], list(shape), periodic_z=(fam == "cylp"))
    if fam == "polar":
        return PolarSymGrid(shape[0], shape[0])
    return SphericalSymGrid(shape[0], shape[0])


def finite_emulsion(em):
    for d in em:
        for name in d.data.dtype.names:
            v = np.atleast_1d(d.data[name])
            if name == "interface_width":
                if np.any(np.isinf(v)):
                    return False
            elif not np.all(np.isfinite(v)):
                return False
    return True


def run_locate(req, idx, ncells):
    from pde import ScalarField

    from droplets.image_analysis import locate_droplets

    fam = req["fam"]
    shape = SHAPES[fam][ncells]
    grid = make_grid(fam, shape, idx)
    a, b = AFF[idx % len(AFF)]
    n = int(np.prod(shape))
    if req["special"] == "none":
        base = np.zeros(n)
        for c in req["img"]:
            base[c - 1] = 1.0
    elif req["special"] == "const":
        base = np.full(n, 0.37)
    elif req["special"] == "ramp":
        base = np.linspace(0, 1, n)
    else:
        base = np.random.default_rng(idx).choice([0.0, 1.0, 0.3], size=n)
    field = ScalarField(grid, (a * base + b).reshape(shape))
    if idx % 5 == 4 and req["special"] != "const":
        # an 8-bit image (camera data): the same picture with levels 100 .. 200 stored as uint8
        a, b = 100.0, 100.0
        field = ScalarField(grid, np.round(a * base + b).astype(np.uint8).reshape(shape), dtype=np.uint8)
    thr = a * 0.5 + b if req["thr"] == "0.5" else req["thr"]
    minrad = {"zero": 0, "one": 1.0, "ninf": -np.inf}[req["minrad"]]
    ra = {"none": None, "auto": {"vmin": None, "vmax": None}, "adjust": {"adjust_values": True, "vmin": b, "vmax": a + b},
          "autoadjust": {"vmin": None, "vmax": None, "adjust_values": True}}[req["rargs"]]
    if req["refine"]:
        ra = dict(ra or {})
        if req["rargs"] == "none":
            ra.update(vmin=b, vmax=a + b)
        ra["least_squares_params"] = {"max_nfev": 12}
    width = {"given": 0.6, "zero": 0.0, "none": None}[req["width"]]    # a width of exactly zero (sharp) is a valid width
    try:
        with warnings.catch_warnings():
            warnings.simplefilter("ignore")
            em = locate_droplets(field, threshold=thr, modes=req["modes"], interface_width=width, refine=req["refine"],
                                 refine_args=ra, minimal_radius=minrad)
    except Exception as exc:  # noqa: BLE001
        return "raise", type(exc).__name__, f"{type(exc).__name__}: {str(exc)[:100]}"
    return "return", ("finite" if finite_emulsion(em) else "nonfinite"), ""


def run_render(req, idx):
    from droplets import droplets as D

    fam = req["fam"]
    ncells = {"cart1": 6, "cart2": 9, "cart3": 8, "cyl": 9, "polar": 4, "spherical": 4}[fam]
    grid = make_grid(fam, SHAPES[fam][ncells], idx)
    dim = req["dropdim"]
    cls = getattr(D, req["cls"])
    rng = np.random.default_rng(idx)
    pos = np.array([0.5 + int(rng.integers(0, 2)) for _ in range(dim)], float) if idx % 2 else rng.uniform(0, 2, dim)
    w = [None, 0.0, 0.7][idx % 3]
    try:
        if req["cls"] == "SphericalDroplet":
            d = cls(pos, float(rng.uniform(0, 2)))
        elif req["cls"] == "DiffuseDroplet":
            d = cls(pos, float(rng.uniform(0, 2)), w)
        else:
            if req["cls"] == "PerturbedDroplet3DAxisSym":
                pos = np.array([0.0, 0.0, pos[2]])
            d = cls(pos, float(rng.uniform(0.3, 2)), w, rng.uniform(-0.4, 0.4, int(rng.integers(1, 5))))
    except Exception as exc:  # noqa: BLE001  (constructing the droplet is not the call under test)
        raise core.MachineryError(f"cannot construct {req}: {exc}")
    try:
        with warnings.catch_warnings():
            warnings.simplefilter("ignore")
            f = d.get_phase_field(grid, vmin=-1.0, vmax=2.0)
    except Exception as exc:  # noqa: BLE001
        return "raise", type(exc).__name__, f"{type(exc).__name__}: {str(exc)[:100]}"
    return "return", ("finite" if np.all(np.isfinite(f.data)) else "nonfinite"), ""


def run_track(req, idx):
    from pde import UnitGrid

    from droplets import DiffuseDroplet, Emulsion, EmulsionTimeCourse, SphericalDroplet
    from droplets.droplet_tracks import DropletTrackList

    dim = 1 + idx % 3
    cls = SphericalDroplet if idx % 2 else DiffuseDroplet
    grid = UnitGrid([12] * dim, periodic=True) if idx % 4 < 2 else None
    frames = []
    for k, kind in enumerate(req["frames"]):
        if kind == "empty":
            em = Emulsion() if idx % 2 else Emulsion.empty(cls(np.zeros(dim), 1.0))
        elif kind == "one":
            em = Emulsion([cls(np.full(dim, 3.0 + 0.2 * k), 1.5)])
        elif kind == "two":
            em = Emulsion([cls(np.full(dim, 3.0 + 0.2 * k), 1.5), cls(np.full(dim, 9.0 - 0.1 * k), 1.0)])
        elif kind == "shifted":
            # one droplet of "two" barely moved, the other one gone, a new one beyond any small cut-off
            em = Emulsion([cls(np.full(dim, 3.2 + 0.2 * k), 1.5), cls(np.full(dim, 6.0), 0.7)])
        else:
            em = Emulsion([cls(np.full(dim, 11.8 if k % 2 else 0.3), 1.2)])
        frames.append(em)
    kw = {"max_dist": 2.5} if (req["method"] == "distance" and idx % 3 == 0) else {}
    try:
        with warnings.catch_warnings():
            warnings.simplefilter("ignore")
            if idx % 2:
                tc = EmulsionTimeCourse(frames, times=[0.5 * k - 1 for k in range(len(frames))])
            else:
                tc = EmulsionTimeCourse()
                for k, em in enumerate(frames):
                    tc.append(em, 0.5 * k - 1)
            tl = DropletTrackList.from_emulsion_time_course(tc, method=req["method"], grid=grid, **kw)
    except Exception as exc:  # noqa: BLE001
        return "raise", type(exc).__name__, f"{type(exc).__name__}: {str(exc)[:100]}"
    ok = all(finite_emulsion(t.droplets) and all(math.isfinite(x) for x in t.times) for t in tl)
    return "return", ("finite" if ok else "nonfinite"), ""


def _chunk(args):
    items, op, ncells_of = args
    core.setup_repo_import()
    out = []
    for idx, rec in items:
        req = rec["req"]
        reps = 1 if op == "locate" else 4
        for k in range(reps):
            if op == "locate":
                ev, kind, msg = run_locate(req, idx, ncells_of[req["fam"]])
                slim = {"op": "locate", "modes": req["modes"], "dim": req["dim"]}
            elif op == "render":
                ev, kind, msg = run_render(req, idx * 4 + k)
                slim = {"op": "render", "dropdim": req["dropdim"], "dim": req["dim"]}
            else:
                ev, kind, msg = run_track(req, idx * 4 + k)
                slim = {"op": "track"}
            spec_ok = (rec["pc"] == "returned" and ev == "return" and kind == "finite") or \
                      (rec["pc"] == "raised" and ev == "raise" and kind == rec["outcome"])
            out.append((json.dumps(slim, sort_keys=True), ev, kind, None if spec_ok else {"req": req, "variant": idx * 4 + k if op != "locate" else idx, "observed": [ev, kind, msg], "spec": [rec["pc"], rec["outcome"]]}))
    return out


def classify(case):
    req, obs = case["req"], case["observed"]
    if req.get("op") == "locate" and "bound" in obs[2] and "adjust" in req.get("rargs", ""):
        return "adjust-values-degenerate-range"
    return None


CFGS = {"q_loc": ("locate", {"cart2a": 9, "cart1": 6, "cart2": 9, "cart3": 8, "cyl": 9, "cylp": 9, "polar": 4, "spherical": 4}),
        "t_loc": ("locate", {"cart2a": 12, "cart1": 8, "cart2": 12, "cart3": 12, "cyl": 12, "cylp": 12, "polar": 6, "spherical": 6}),
        "q_ren": ("render", {}), "q_trk": ("track", {}), "t_trk": ("track", {})}


def drive_trackers(out):
    """the trackers as a simulation drives them: every documented way of naming the field (None for a scalar state, an
    index into a collection -- 0 included --, a callable) on frames with and without droplets; nothing raises"""
    import os
    import shutil
    import warnings

    from pde import CartesianGrid, FieldCollection, ScalarField

    from droplets import DiffuseDroplet, Emulsion
    from droplets.trackers import DropletTracker, LengthScaleTracker

    grid = CartesianGrid([[0, 16], [0, 16]], 16, periodic=[True, False])
    frames = [Emulsion([DiffuseDroplet([8.0, 8.0], 4.0, 1.0)]).get_phasefield(grid), ScalarField(grid, 0.0),
              Emulsion([DiffuseDroplet([4.0, 5.0], 2.5, 1.0), DiffuseDroplet([11.0, 11.0], 3.0, 1.0)]).get_phasefield(grid)]
    other = ScalarField(grid, 0.25)
    work = core.WORK / f"c09-trackers-{os.getpid()}"
    work.mkdir(parents=True, exist_ok=True)
    try:
        for name, source, wrap in (("None", None, lambda f: f), ("0", 0, lambda f: FieldCollection([f, other])),
                                   ("1", 1, lambda f: FieldCollection([other, f])),
                                   ("callable", lambda fs: fs[1], lambda f: FieldCollection([other, f]))):
            for refine in (False, True):
                fails = []
                try:
                    with warnings.catch_warnings():
                        warnings.simplefilter("ignore")
                        tr = DropletTracker(1, filename=str(work / "t.h5"), source=source, refine=refine)
                        ls = LengthScaleTracker(1, filename=str(work / "t.json"), source=source)
                        for k, f in enumerate(frames):
                            tr.handle(wrap(f), 0.5 * k)
                            ls.handle(wrap(f), 0.5 * k)
                        tr.finalize()
                        ls.finalize()
                    if [len(e) for e in tr.data] != [1, 0, 2] or len(ls.length_scales) != 3:
                        fails.append(f"tracker with source={name} recorded {[len(e) for e in tr.data]} droplets per frame, the frames hold [1, 0, 2]")
                    if not all(np.all(np.isfinite(d._data_array[: d.dim + 1])) for e in tr.data for d in e):
                        fails.append("non-finite droplet recorded by the tracker")
                except Exception as exc:  # noqa: BLE001
                    fails.append(f"tracker with source={name}, refine={refine} raised {type(exc).__name__}: {str(exc)[:100]}")
                out.evaluations += 1
                if fails:
                    out.violation({"trackers": {"source": name, "refine": refine}, "fails": fails})
    finally:
        shutil.rmtree(work, ignore_errors=True)
    out.parts["trackers"] = {"sources": ["None", "0", "1", "callable"]}


def run(out: core.Outcome) -> None:
    import multiprocessing as mp

    core.setup_repo_import()
    out.rule = (
        "TLC enumerates the input space of Outcome.tla (options x every binary image of tiny grids of all families + "
        "special images; class x grid for rendering; all short time courses x method for tracking); every input is "
        "executed; the recorded outcome must be the spec's transition (validated by TraceOutcome.tla): finite return or "
        "the documented error. Non-trivial = inputs other than the plain default options."
    )
    names = ["q_ren", "q_trk", "q_loc"] if out.tier == "quick" else ["q_ren", "t_trk", "q_loc", "t_loc"]
    observed = {}
    for name in names:
        op, ncells_of = CFGS[name]
        r = core.tlc("MC_Outcome", f"MC_Outcome_{name}.cfg", timeout=3400)
        if r.violated:
            out.violation({"tlc_config": name, "violated": r.violated, "tlc_tail": r.stdout[-3000:]})
            continue
        out.add_tlc(name, r)
        items = list(enumerate(r.printed))
        if name == "t_loc" or (out.tier == "quick" and name == "q_loc"):
            # seeded shard of the enumerated space (the full space is replayed by the thorough tier's q_loc)
            k = 6 if name == "t_loc" else 2
            items = [it for it in items if (it[0] * 2654435761 + out.seed) % k == 0]
        size = max(1, len(items) // (core.NCPU * 8))
        chunks = [(items[i : i + size], op, ncells_of) for i in range(0, len(items), size)]
        with mp.get_context("fork").Pool(core.NCPU) as pool:
            results = pool.map(_chunk, chunks)
        nbad = 0
        for res in results:
            for slim, ev, kind, bad in res:
                out.evaluations += 1
                observed[(slim, ev, kind)] = observed.get((slim, ev, kind), 0) + 1
                if bad is not None:
                    nbad += 1
                    out.violation({"config": name, **bad}, signature=classify(bad))
        out.parts[name].update(inputs_enumerated=len(r.printed), inputs_executed=len(items), unexpected_outcomes=nbad)
        out.nontrivial_count += sum(1 for _, rec in items if rec["req"].get("modes", 1) or rec["req"].get("refine", True))
        out.sample({"config": name, "request": r.printed[len(r.printed) // 2]["req"]}, limit=5)
    # ---- code -> spec: every distinct (request class, outcome) observed must be a behaviour of the spec
    traces = [{"req": json.loads(slim), "ev": ev, "kind": kind, "count": cnt} for (slim, ev, kind), cnt in sorted(observed.items())]
    for op in ("locate", "render", "track"):
        sub = [t for t in traces if t["req"]["op"] == op]
        if not sub:
            continue
        cfg = ("SPECIFICATION TSpec\nCONSTANTS\n  Op = \"%s\"\n  Families <- FamRender\n  ModeCounts = {0}\n  Refines = {FALSE}\n"
               "  Widths = {\"none\"}\n  Rules = {\"0.5\"}\n  MinRadii = {\"zero\"}\n  RefineArgs = {\"none\"}\n  Specials = {\"const\"}\n"
               "  Classes <- AllClasses\n  Methods = {\"overlap\"}\n  FrameKinds = {\"empty\"}\n  MaxFrames = 0\nINVARIANT Verdict\n" % op)
        core.WORK.mkdir(exist_ok=True)
        tf = core.WORK / f"trace-outcome-{os.getpid()}.json"
        cf = core.WORK / f"trace-outcome-{os.getpid()}.cfg"
        tf.write_text(json.dumps(sub))
        cf.write_text(cfg)
        try:
            r = core.tlc("MC_TraceOutcome", str(cf), workers=2, env={"TRACE_FILE": str(tf)}, coverage=False)
        finally:
            tf.unlink(missing_ok=True)
            cf.unlink(missing_ok=True)
        if r.violated:
            raise core.MachineryError(f"TraceOutcome failed: {r.stdout[-1500:]}")
        acc = {v["tid"] for v in r.printed}
        for i, t in enumerate(sub, 1):
            out.traces += t["count"]
            if i not in acc:
                out.extra.setdefault("rejected_outcome_classes", []).append(t)
    if out.extra.get("rejected_outcome_classes") and out.violations == 0 and out.known == 0:
        raise core.MachineryError("TraceOutcome rejected an outcome the harness accepted")
    out.extra["distinct_outcome_classes"] = len(traces)
    drive_trackers(out)
    out.explanation = out.rule
    out.assumptions = [
        "numpy's default floating-point error state (warnings, not exceptions), as a user runs it",
        "refinement limited to max_nfev=12 per droplet; intensity levels supplied consistently with the affine map of the image",
        "quick tier executes a seeded half of the enumerated locate inputs; thorough all of the quick space and a sixth of the larger grids",
        "an unset interface width (NaN) is not counted as non-finite",
    ]


def replay(out, path):
    core.setup_repo_import()
    case = json.loads(open(path).read())
    req = case["req"]
    op = req["op"]
    if op == "locate":
        ncells = CFGS[case["config"]][1][req["fam"]]
        ev, kind, msg = run_locate(req, case["variant"], ncells)
    elif op == "render":
        ev, kind, msg = run_render(req, case["variant"])
    else:
        ev, kind, msg = run_track(req, case["variant"])
    print("observed:", ev, kind, msg, " spec:", case["spec"])
    ok = (case["spec"][0] == "returned" and ev == "return" and kind == "finite") or (case["spec"][0] == "raised" and ev == "raise" and kind == case["spec"][1])
    if not ok:
        print(f"VIOLATION property=C09 replay={path}")
        return 1
    return 0
