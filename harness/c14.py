"""C14 — tracking during a simulation equals analysing the stored fields afterwards (Tracker.tla).

spec -> code : TLC enumerates every history (frames from a small alphabet, time sequences in any order), every
               analysis setting (threshold rule, minimal radius, refinement, refinement arguments, modes), source
               selection and length-scale method and checks OnlineEqualsOffline, FilePersists, FramePerInterrupt,
               TimesIdentical, LengthScalePerFrame, LengthScaleFile, AppendOnly, Termination; the reader design that
               orders datasets by their time attribute is refuted by TLC.  Every history is driven through real
               DropletTracker / LengthScaleTracker objects next to a storage; locate_droplets is wrapped to log the
               arguments of every call, which must be the spec's call record; the recorded time course must equal
               EmulsionTimeCourse.from_storage(..same settings..) bit for bit with identical times, the HDF5 file must
               read back identical, the length scales must be the analysis' own values (NaN where it raises) and the
               JSON file the two lists.
real solver  : the same comparison on pde.CahnHilliardPDE / DiffusionPDE runs.
"""

from __future__ import annotations

import json
import math
import os
import shutil
import warnings

import numpy as np

from . import core

QUICK = ["q", "q2"]
THOROUGH = ["q", "q2", "t", "t2"]

_CALLS = []
_ORIG = None


def _logging_locate(field, *args, **kwargs):
    _CALLS.append({"args": len(args), **{k: v for k, v in kwargs.items()}})
    return _ORIG(field, *args, **kwargs)


def make_frame(fid, j, dim=2):
    from pde import CartesianGrid, ScalarField

    from droplets import DiffuseDroplet, Emulsion

    grid = CartesianGrid([[0, 32], [0, 32]], 32, periodic=[True, False])
    s = 0.13 * j
    if fid == "none":
        f = ScalarField(grid, 0.0)
        f.data[0, 0] = 1e-9 * (j + 1)   # keeps frames distinct; far below every threshold
        return f
    if fid == "one":
        ds = [DiffuseDroplet([12 + s, 16 - s], 6, 1.0)]
    elif fid == "two":
        ds = [DiffuseDroplet([8 + s, 8], 5, 1.0), DiffuseDroplet([22, 20 + s], 4, 1.2)]
    else:  # "small": one droplet below minimal_radius = 2
        ds = [DiffuseDroplet([10, 12 + s], 5, 1.0), DiffuseDroplet([24 - s, 24], 1.55, 0.6)]
    return Emulsion(ds).get_phasefield(grid)


def _same_em(a, b):
    if len(a) != len(b):
        return False
    for x, y in zip(a, b):
        if type(x) is not type(y) or x.data.dtype != y.data.dtype or x.data.tobytes() != y.data.tobytes():
            return False
    return True


def _same_tc(a, b):
    ta, tb = list(a.times), list(b.times)
    if len(ta) != len(tb) or any(float(x) != float(y) for x, y in zip(ta, tb)):
        return False
    return len(a.emulsions) == len(b.emulsions) and all(_same_em(x, y) for x, y in zip(a.emulsions, b.emulsions))


def _settings(s):
    thr = {"0.5": 0.5, "0.3": 0.3}.get(s["threshold"], s["threshold"])
    ra = None if s["refine_args"] == "none" else {"vmin": None, "vmax": None}
    return dict(threshold=thr, minimal_radius=s["minimal_radius"], refine=s["refine"], refine_args=ra, modes=s["modes"])


def _ls_reference(field, method):
    from droplets.image_analysis import get_length_scale

    try:
        return float(get_length_scale(field, method=method))
    except Exception:  # noqa: BLE001
        return math.nan


def _same_float(a, b):
    return (math.isnan(a) and math.isnan(b)) or a == b


def drive(rec, workdir, idx):
    """Run one history on real trackers; returns list of failed clauses."""
    global _ORIG
    from pde import FieldCollection, MemoryStorage, ScalarField

    from droplets import EmulsionTimeCourse, image_analysis
    from droplets.trackers import DropletTracker, LengthScaleTracker

    fails = []
    st = _settings(rec["settings"])
    src = rec["source"]
    frames = [make_frame(x["f"], j) for j, x in enumerate(rec["sim"])]
    tmode = idx % 3
    times = [(x["t"] / 10 if tmode == 0 else (x["t"] if tmode == 1 else np.float64(x["t"]) * 0.25)) for x in rec["sim"]]
    path = os.path.join(workdir, f"t{os.getpid()}.h5")
    jpath = os.path.join(workdir, f"t{os.getpid()}.json")
    # "index": the field is the second OR (every other history) the FIRST member of the collection -- index 0 is an index
    first = src == "index" and idx % 2 == 0
    source = {"none": None, "index": 0 if first else 1, "callable": (lambda fields: fields[1])}[src]
    # the way a solver works: ONE state object, updated in place between the interrupts, and a callable source that
    # derives a new field from it at every call
    persistent = src == "callable" and idx % 2 == 1 and len(frames) > 0
    if persistent:
        source = lambda fields: fields[1].copy()  # noqa: E731
        holder = FieldCollection([ScalarField(frames[0].grid, 0.25), frames[0].copy()])

    def state(f):
        if src == "none":
            return f
        if persistent:
            holder[1].data[...] = f.data
            return holder
        other = ScalarField(f.grid, 0.25)
        return FieldCollection([f, other] if first else [other, f])

    tr = DropletTracker(1, filename=path, source=source, threshold=st["threshold"], minimal_radius=st["minimal_radius"],
                        refine=st["refine"], refine_args=st["refine_args"], perturbation_modes=st["modes"])
    ls = LengthScaleTracker(1, filename=jpath, method=rec["method"], source=source)
    storage = MemoryStorage()
    _CALLS.clear()
    _ORIG = image_analysis.locate_droplets
    image_analysis.locate_droplets = _logging_locate
    try:
        with warnings.catch_warnings():
            warnings.simplefilter("ignore")
            if frames:
                storage.start_writing(frames[0])
            ncalls = []
            for f, t in zip(frames, times):
                before = len(_CALLS)
                tr.handle(state(f), t)
                ncalls.append(_CALLS[before:])
                try:
                    ls.handle(state(f), t)
                except Exception as exc:  # noqa: BLE001
                    fails.append(f"LengthScaleTracker.handle raised {type(exc).__name__}")
                storage.append(f, t)
            tr.finalize()
            ls.finalize()
            # ---- the arguments that reached the analysis
            for k, calls in enumerate(ncalls):
                if len(calls) != 1:
                    fails.append("tracker does not call the analysis exactly once per frame")
                    continue
                c = calls[0]
                want = rec["data"][k]["em"]
                got = {"threshold": c.get("threshold", 0.5), "minimal_radius": c.get("minimal_radius", 0),
                       "refine": c.get("refine", False), "refine_args": c.get("refine_args", None), "modes": c.get("modes", 0)}
                exp = _settings(want)
                if got != exp or c["args"] != 0:
                    fails.append(f"settings forwarded to the analysis differ: {got} != {exp}")
            # ---- online = offline
            _CALLS.clear()
            off = EmulsionTimeCourse.from_storage(storage, threshold=st["threshold"], minimal_radius=st["minimal_radius"],
                                                  refine=st["refine"], refine_args=st["refine_args"], modes=st["modes"],
                                                  progress=False) if frames else EmulsionTimeCourse()
            if len(tr.data) != len(frames):
                fails.append("number of recorded frames")
            if [float(t) for t in tr.data.times] != [float(t) for t in times]:
                fails.append("recorded times differ from the times handed to the tracker")
            if not _same_tc(tr.data, off):
                fails.append("recorded time course differs from offline analysis of the stored frames")
            # ---- the file
            back = EmulsionTimeCourse.from_file(path, progress=False)
            if not _same_tc(back, tr.data) or not (back == tr.data):
                fails.append("file written by finalize() does not read back equal to the recorded data")
            # ---- length scales
            if len(ls.times) != len(frames) or len(ls.length_scales) != len(frames):
                fails.append("length-scale tracker: one entry per frame")
            else:
                for k, f in enumerate(frames):
                    ref = _ls_reference(f, rec["method"])
                    if not _same_float(float(ls.length_scales[k]), ref):
                        fails.append("length scale differs from the analysis of that frame")
                    if float(ls.times[k]) != float(times[k]):
                        fails.append("length-scale times")
                js = json.load(open(jpath))
                if set(js) != {"times", "length_scales"} or len(js["times"]) != len(frames) or \
                        any(not _same_float(float(a), float(b)) for a, b in zip(js["length_scales"], ls.length_scales)) or \
                        [float(a) for a in js["times"]] != [float(t) for t in times]:
                    fails.append("length-scale JSON file differs from the recorded lists")
    except Exception as exc:  # noqa: BLE001
        fails.append(f"raised {type(exc).__name__}: {exc}")
    finally:
        image_analysis.locate_droplets = _ORIG
        for p in (path, jpath):
            if os.path.exists(p):
                os.remove(p)
    return fails


def _chunk(args):
    items, workdir = args
    core.setup_repo_import()
    bad = []
    n = nt = 0
    for idx, rec in items:
        fails = drive(rec, workdir, idx)
        n += 1
        if len(rec["sim"]) >= 2:
            nt += 1
        if fails:
            bad.append({"index": idx, "sim": rec["sim"], "settings": rec["settings"], "source": rec["source"],
                        "method": rec["method"], "data": rec["data"], "fails": sorted(set(fails))})
    return n, nt, bad


def _ls_grids(out):
    """LengthScaleTracker on grids where the analysis raises: the value must be NaN and handle must not raise."""
    from pde import CartesianGrid, CylindricalSymGrid, PolarSymGrid, ScalarField, SphericalSymGrid, UnitGrid

    from droplets.trackers import LengthScaleTracker

    grids = [PolarSymGrid(8, 16), SphericalSymGrid(8, 16), CylindricalSymGrid(6, [0, 12], [12, 24]),
             UnitGrid([16], periodic=True), CartesianGrid([[0, 8]] * 3, 8, periodic=[True, False, True])]
    rng = np.random.default_rng(out.seed + 5)
    for g in grids:
        for kind in ("zero", "random", "step"):
            f = ScalarField(g, 0.0)
            if kind == "random":
                f.data[...] = rng.uniform(0, 1, g.shape)
            elif kind == "step":
                f.data[...] = 0
                f.data[tuple(slice(0, max(1, n // 3)) for n in g.shape)] = 1
            for method in ("structure_factor_mean", "structure_factor_maximum", "droplet_detection"):
                t = LengthScaleTracker(1, method=method)
                fails = []
                with warnings.catch_warnings():
                    warnings.simplefilter("ignore")
                    ref = _ls_reference(f, method)
                    try:
                        t.handle(f, 1.5)
                    except Exception as exc:  # noqa: BLE001
                        fails.append(f"LengthScaleTracker.handle raised {type(exc).__name__}")
                out.evaluations += 1
                if not fails and (len(t.length_scales) != 1 or not _same_float(float(t.length_scales[0]), ref) or t.times != [1.5]):
                    fails.append("length scale differs from the analysis of that frame")
                if fails:
                    out.violation({"length_scale_tracker": {"grid": repr(g), "field": kind, "method": method}, "fails": fails})


def _solver_runs(out, workdir):
    """online = offline on real solver runs"""
    import pde

    from droplets import EmulsionTimeCourse
    from droplets.trackers import DropletTracker

    rng = np.random.default_rng(out.seed + 11)
    combos = [dict(threshold=0.5, minimal_radius=0, refine=False, refine_args=None, modes=0),
              dict(threshold="auto", minimal_radius=1.5, refine=False, refine_args=None, modes=2),
              dict(threshold="otsu", minimal_radius=0, refine=True, refine_args={"vmin": None, "vmax": None}, modes=0),
              dict(threshold=0.4, minimal_radius=1.0, refine=True, refine_args=None, modes=0)]
    if out.tier == "quick":
        combos = combos[:3]
    for k, st in enumerate(combos):
        grid = pde.CartesianGrid([[0, 24], [0, 24]], 24, periodic=[True, k % 2 == 0])
        from droplets import DiffuseDroplet, Emulsion

        em = Emulsion([DiffuseDroplet([7, 8], 4, 1.0), DiffuseDroplet([16, 17], 5, 1.0)])
        field = em.get_phasefield(grid)
        field.data += 0.02 * rng.standard_normal(field.data.shape)
        eq = pde.CahnHilliardPDE() if k % 2 == 0 else pde.DiffusionPDE(0.3)
        path = os.path.join(workdir, f"solver{k}.h5")
        # second and later runs: the state is rescaled to [-1, 1] and a callable source maps it back at every interrupt
        # (the solver updates ONE state object in place); the storage applies the same map
        derived = k >= 1
        if derived:
            field = 2 * field - 1
            src_fn = lambda c: (c + 1) / 2  # noqa: E731
        tr = DropletTracker(0.05, filename=path, threshold=st["threshold"], minimal_radius=st["minimal_radius"],
                            refine=st["refine"], refine_args=st["refine_args"], perturbation_modes=st["modes"],
                            source=src_fn if derived else None)
        storage = pde.MemoryStorage()
        fails = []
        try:
            with warnings.catch_warnings():
                warnings.simplefilter("ignore")
                stracker = storage.tracker(0.05, transformation=(lambda c, t: (c + 1) / 2) if derived else None)
                eq.solve(field, t_range=0.2, dt=1e-3, tracker=[tr, stracker], backend="numpy")
                off = EmulsionTimeCourse.from_storage(storage, progress=False, **st)
                back = EmulsionTimeCourse.from_file(path, progress=False)
            if len(tr.data) < 3:
                raise core.MachineryError("solver run recorded fewer than three frames")
            if not _same_tc(tr.data, off):
                fails.append("recorded time course differs from offline analysis of the stored frames")
            if not _same_tc(back, tr.data):
                fails.append("file written by finalize() does not read back equal to the recorded data")
        except core.MachineryError:
            raise
        except Exception as exc:  # noqa: BLE001
            fails.append(f"raised {type(exc).__name__}: {exc}")
        out.evaluations += 1
        out.traces += 1
        if fails:
            out.violation({"solver_run": {"equation": type(eq).__name__, "settings": {k2: str(v) for k2, v in st.items()}}, "fails": fails})


def _long_runs(out, workdir):
    """histories of 12, 103 and 1001 frames: the file written at the end holds the frames in the order they were recorded"""
    from pde import CartesianGrid, ScalarField

    from droplets import EmulsionTimeCourse
    from droplets.trackers import DropletTracker

    grid = CartesianGrid([[0, 8], [0, 8]], 8, periodic=[True, False])
    for n in (12, 103, 1001):
        path = os.path.join(workdir, f"long{n}.h5")
        tr = DropletTracker(1, filename=path)
        fails = []
        try:
            with warnings.catch_warnings():
                warnings.simplefilter("ignore")
                for k in range(n):
                    f = ScalarField(grid, 0.0)
                    if k % 3:
                        f.data[1 + k % 4 : 4 + k % 4, 2:5] = 1.0
                    if k % 7 == 0:
                        f.data[6, 6] = 1.0
                    tr.handle(f, 0.5 * k)
                tr.finalize()
                back = EmulsionTimeCourse.from_file(path, progress=False)
            if len(tr.data) != n or [float(t) for t in tr.data.times] != [0.5 * k for k in range(n)]:
                fails.append(f"{n} frames handled, {len(tr.data)} recorded / times differ")
            if not _same_tc(back, tr.data):
                fails.append(f"file of a history of {n} frames does not read back equal to the recorded data (order of frames)")
        except Exception as exc:  # noqa: BLE001
            fails.append(f"raised {type(exc).__name__}: {exc}")
        out.evaluations += 1
        if fails:
            out.violation({"long_history": n, "fails": fails})
    out.parts["long_histories"] = {"frames": [12, 103, 1001]}


def run(out: core.Outcome) -> None:
    import multiprocessing as mp

    core.setup_repo_import()
    out.rule = (
        "TLC enumerates histories x settings x sources x length-scale methods on Tracker.tla; each is driven through real "
        "trackers next to a storage: arguments reaching locate_droplets, recorded time course vs offline analysis (bit for "
        "bit, identical times), HDF5 and JSON files, per-frame length scales. Real solver runs are compared the same way. "
        "Non-trivial = history with >= 2 frames."
    )
    workdir = core.WORK / f"c14-{os.getpid()}"
    workdir.mkdir(parents=True, exist_ok=True)
    try:
        r = core.tlc("MC_Tracker", "MC_Tracker_dev.cfg", timeout=600)
        if r.violated != "FilePersists":
            raise core.MachineryError(f"Tracker.tla with ReaderOrder=time should violate FilePersists, got {r.violated}")
        out.parts["dev"] = {"expected_violation": "FilePersists", "tlc_states_generated": r.generated}
        for name in QUICK if out.tier == "quick" else THOROUGH:
            r = core.tlc("MC_Tracker", f"MC_Tracker_{name}.cfg", timeout=3000)
            if r.violated:
                out.violation({"tlc_config": name, "violated": r.violated, "tlc_tail": r.stdout[-3000:]})
                continue
            r.require_actions(["Handle", "Finalize"])
            out.add_tlc(name, r)
            items = list(enumerate(r.printed))
            size = max(1, len(items) // (core.NCPU * 6))
            chunks = [(items[i : i + size], str(workdir)) for i in range(0, len(items), size)]
            with mp.get_context("fork").Pool(core.NCPU) as pool:
                results = pool.map(_chunk, chunks)
            nbad = 0
            for n, nt, bad in results:
                out.evaluations += n
                out.nontrivial_count += nt
                nbad += len(bad)
                for b in bad:
                    out.violation({"config": name, **b})
            out.parts[name].update(histories=len(items), mismatches=nbad)
            out.sample({"config": name, "history": {k: r.printed[len(r.printed) // 2][k] for k in ("sim", "settings", "source", "method")}})
        _ls_grids(out)
        _solver_runs(out, str(workdir))
        _long_runs(out, str(workdir))
    finally:
        shutil.rmtree(workdir, ignore_errors=True)
    out.explanation = out.rule
    out.assumptions = [
        "the image analysis is an uninterpreted function in the spec; equality of results is observed on a frame alphabet",
        "reference length scales are computed by calling get_length_scale directly under the same numpy error state",
        "a source that extracts a field from a collection is compared with offline analysis of the extracted field",
    ]


def replay(out, path):
    core.setup_repo_import()
    case = json.loads(open(path).read())
    if "sim" not in case:
        print(json.dumps(case)[:2000])
        return 0
    workdir = core.WORK / f"c14-replay-{os.getpid()}"
    workdir.mkdir(parents=True, exist_ok=True)
    try:
        fails = drive(case, str(workdir), case["index"])
    finally:
        shutil.rmtree(workdir, ignore_errors=True)
    print("fails:", fails)
    if fails:
        print(f"VIOLATION property=C14 replay={path}")
        return 1
    return 0
