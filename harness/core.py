"""Common machinery: running TLC, parsing its output, evidence, violations, findings.

Everything a property check needs that is not specific to the property lives here, so
the per-property modules contain only (a) the name of the TLA+ model, (b) the
concretisation of abstract states into calls of the real code and (c) the comparison.
"""

from __future__ import annotations

import hashlib
import json
import os
import re
import shutil
import subprocess
import sys
import time
from dataclasses import dataclass, field
from pathlib import Path
from typing import Any, Callable, Iterable

VERIF = Path(__file__).resolve().parent.parent
SPECS = VERIF / "specs"
# The registered checks always run against /repo and write below /verif.  For experiments with seeded changes
# (tools/seed.py) VERIF_REPO points at a scratch worktree of the repository and VERIF_SCRATCH at a directory that
# receives the work files, evidence and replay files of that run, so that such runs neither touch /repo nor
# overwrite the evidence of the unchanged tree.
REPO = os.environ.get("VERIF_REPO", "/repo").rstrip("/")
_SCRATCH = os.environ.get("VERIF_SCRATCH")
_OUT = Path(_SCRATCH) if _SCRATCH else VERIF
WORK = _OUT / ".work"
EVIDENCE = _OUT / "evidence"
REPLAYS = _OUT / "replays"
TLA_JAR = "/opt/veriftools/tla/tla2tools.jar"
TLA_DEPS = "/opt/veriftools/tla/CommunityModules-deps.jar"

NCPU = os.cpu_count() or 4


class MachineryError(RuntimeError):
    """Something in the verification machinery itself failed (exit code 2)."""


# --------------------------------------------------------------------------- TLC


@dataclass
class TLCResult:
    ok: bool  # TLC finished without reporting any error
    violated: str | None  # name / text of violated property, if any
    generated: int
    distinct: int
    depth: int
    coverage: dict[str, tuple[int, int]]  # action -> (distinct, generated)
    printed: list[Any]  # values emitted through PrintT(ToJson(..)) (decoded)
    stdout: str
    wall_s: float
    returncode: int

    def require_actions(self, names: Iterable[str]) -> None:
        """Vacuity guard: every named action must have been taken at least once."""
        for n in names:
            if self.coverage.get(n, (0, 0))[1] <= 0:
                raise MachineryError(
                    f"vacuity: action {n} never taken (coverage {self.coverage})"
                )


_RE_STATES = re.compile(
    r"(\d+) states generated, (\d+) distinct states found, (\d+) states left on queue"
)
_RE_DEPTH = re.compile(r"The depth of the complete state graph search is (\d+)")
_RE_COV = re.compile(r"^<(\w+) line \d+, col \d+ to line \d+, col \d+ of module (\w+)>: (\d+):(\d+)")
_RE_VIOL = re.compile(
    r"(Invariant (\S+) is violated|Action property (\S+) is violated|"
    r"Temporal properties were violated|Deadlock reached|"
    r"The postcondition has been violated|Assumption .* is false)"
)


def tlc(
    module: str,
    cfg: str | None = None,
    *,
    workers: int | str = "auto",
    timeout: float = 3600,
    env: dict[str, str] | None = None,
    simulate: str | None = None,
    depth: int | None = None,
    seed: int | None = None,
    deadlock: bool = False,
    coverage: bool = True,
    dfs_queue: bool = False,
    heap: str = "8g",
    tag: str | None = None,
    keep_stdout: bool = True,
    line_cb: Callable[[Any], None] | None = None,
    big_stack: bool = False,
) -> TLCResult:
    """Run TLC on specs/<module>.tla with specs/<cfg>.

    Values printed by the spec through ``PrintT(ToJson(x))`` are decoded and returned in
    ``printed`` (or streamed to ``line_cb`` if given, to keep memory bounded).
    """
    cfgfile = cfg or f"{module}.cfg"
    tag = tag or f"{module}-{cfgfile}".replace("/", "_")
    meta = WORK / "tlc" / f"{tag}-{os.getpid()}"
    if meta.exists():
        shutil.rmtree(meta)
    meta.mkdir(parents=True)
    w = str(NCPU if workers == "auto" else workers)
    java = ["java", "-XX:+UseParallelGC", f"-Xmx{heap}"]
    if big_stack:
        # deep recursion over large sets (trace validation of big images) needs a large thread stack; it is not the
        # default because it slows the ordinary exhaustive runs down
        java.append("-Xss1g")
    if dfs_queue:
        java.append("-Dtlc2.tool.queue.IStateQueue=StateDeque")
    cmd = java + [
        "-cp",
        f"{TLA_JAR}:{TLA_DEPS}",
        "tlc2.TLC",
        "-workers",
        w,
        "-metadir",
        str(meta),
        "-noGenerateSpecTE",
        "-maxSetSize",
        "100000000",
        "-config",
        cfgfile,
    ]
    if coverage and simulate is None:
        cmd += ["-coverage", "1"]
    if not deadlock:
        cmd += ["-deadlock"]  # -deadlock switches deadlock checking OFF
    if simulate is not None:
        cmd += ["-simulate", simulate]
    if depth is not None:
        cmd += ["-depth", str(depth)]
    if seed is not None:
        cmd += ["-seed", str(seed)]
    cmd.append(f"{module}.tla")
    e = dict(os.environ)
    e.pop("JAVA_TOOL_OPTIONS", None)
    if env:
        e.update(env)
    t0 = time.time()
    printed: list[Any] = []
    out_lines: list[str] = []
    try:
        proc = subprocess.Popen(
            cmd, cwd=SPECS, env=e, stdout=subprocess.PIPE, stderr=subprocess.STDOUT, text=True
        )
        assert proc.stdout is not None
        if "thorough" in sys.argv:
            # the thorough tier may share the machine with other jobs: its TLC runs get three times the budget
            timeout = 3 * timeout
        deadline = t0 + timeout
        for line in proc.stdout:
            if line.startswith('"') and line.rstrip().endswith('"'):
                try:
                    val = json.loads(json.loads(line))
                except Exception as exc:  # interleaved or malformed line
                    raise MachineryError(f"cannot parse TLC output line: {line[:200]!r}") from exc
                if line_cb is not None:
                    line_cb(val)
                else:
                    printed.append(val)
            else:
                if keep_stdout or len(out_lines) < 5000:
                    out_lines.append(line)
            if time.time() > deadline:
                proc.kill()
                raise MachineryError(f"TLC timed out after {timeout}s: {module} {cfgfile}")
        rc = proc.wait()
    finally:
        shutil.rmtree(meta, ignore_errors=True)
    wall = time.time() - t0
    stdout = "".join(out_lines)
    gen = dist = 0
    for m in _RE_STATES.finditer(stdout):
        gen, dist = int(m.group(1)), int(m.group(2))
    dm = _RE_DEPTH.search(stdout)
    cov: dict[str, tuple[int, int]] = {}
    for line in out_lines:
        m = _RE_COV.match(line)
        if m:
            name = m.group(1)
            d, g = int(m.group(3)), int(m.group(4))
            od, og = cov.get(name, (0, 0))
            cov[name] = (od + d, og + g)
    viol = None
    vm = _RE_VIOL.search(stdout)
    if vm:
        viol = vm.group(2) or vm.group(3) or vm.group(1)
    ok = rc == 0 and viol is None
    if rc not in (0, 10, 11, 12, 13) and viol is None:
        tail = "".join(out_lines[-40:])
        raise MachineryError(f"TLC failed (rc={rc}) on {module}/{cfgfile}:\n{tail}")
    if rc == 10 and viol is None:
        viol = "assumption"
    return TLCResult(ok, viol, gen, dist, int(dm.group(1)) if dm else 0, cov, printed, stdout, wall, rc)


def sany(module: str) -> None:
    r = subprocess.run(
        ["java", "-cp", f"{TLA_JAR}:{TLA_DEPS}", "tla2sany.SANY", f"{module}.tla"],
        cwd=SPECS,
        capture_output=True,
        text=True,
    )
    if r.returncode != 0 or "Semantic errors" in r.stdout or "Parse Error" in r.stdout or "Fatal" in r.stdout:
        raise MachineryError(f"SANY rejects {module}:\n{r.stdout[-2000:]}{r.stderr[-500:]}")


# ---------------------------------------------------------------- results, evidence


@dataclass
class Outcome:
    """Accumulates what a check run did; written to the evidence file at the end."""

    pid: str
    tier: str
    seed: int
    level: str
    t0: float = field(default_factory=time.time)
    states: int = 0
    transitions: int = 0
    traces: int = 0
    evaluations: int = 0
    nontrivial: set = field(default_factory=set)
    nontrivial_count: int = 0
    samples: list = field(default_factory=list)
    parts: dict = field(default_factory=dict)
    assumptions: list = field(default_factory=list)
    violations: int = 0
    known: int = 0
    rule: str = ""
    explanation: str = ""
    exhaustive: bool = False
    extra: dict = field(default_factory=dict)
    _seen_viol: set = field(default_factory=set)
    _seen_known: set = field(default_factory=set)

    def __post_init__(self):
        shutil.rmtree(REPLAYS / self.pid, ignore_errors=True)  # replay files of earlier runs are stale

    def add_tlc(self, name: str, r: TLCResult) -> None:
        self.states += r.distinct
        self.transitions += r.generated
        self.parts[name] = {
            "tlc_states_distinct": r.distinct,
            "tlc_states_generated": r.generated,
            "tlc_depth": r.depth,
            "tlc_wall_s": round(r.wall_s, 2),
            "actions": {k: v[1] for k, v in sorted(r.coverage.items())},
        }

    def sample(self, s: Any, limit: int = 4) -> None:
        if len(self.samples) < limit:
            self.samples.append(s)

    def nontriv(self, key: Any) -> None:
        """Count a distinct non-trivial case (bounded memory: hashes only)."""
        h = hash(key)
        if h not in self.nontrivial:
            self.nontrivial.add(h)

    # -- violations ------------------------------------------------------------
    def violation(self, replay: dict, signature: str | None = None) -> None:
        """Report a violation (or a known finding if its signature is listed open)."""
        kf = known_findings().get(self.pid, {})
        if signature is not None and signature in kf:
            if signature not in self._seen_known:
                self._seen_known.add(signature)
                print(f"KNOWN-FINDING: property={self.pid} {kf[signature]}", flush=True)
            self.known += 1
            return
        self.violations += 1
        key = signature or json.dumps(replay, sort_keys=True, default=str)[:400]
        if key in self._seen_viol or len(self._seen_viol) >= 10:
            return
        self._seen_viol.add(key)
        d = REPLAYS / self.pid
        d.mkdir(parents=True, exist_ok=True)
        blob = json.dumps({"property": self.pid, "signature": signature, **replay}, indent=1, default=str)
        p = d / (hashlib.sha1(blob.encode()).hexdigest()[:12] + ".json")
        p.write_text(blob)
        print(f"VIOLATION property={self.pid} replay={p}", flush=True)

    def finish(self) -> int:
        wall = time.time() - self.t0
        cov: dict[str, Any] = {
            "evaluations": int(self.evaluations),
            "distinct_nontrivial": int(len(self.nontrivial) + self.nontrivial_count),
            "rule": self.rule,
            "samples": self.samples or ["(no sample recorded)"],
            "states": int(self.states),
            "transitions": int(self.transitions),
            "traces_validated_against_impl": int(self.traces),
            "explanation": self.explanation or self.rule,
            "exhaustive": bool(self.exhaustive),
            "parts": self.parts,
            "known_finding_hits": int(self.known),
        }
        cov.update(self.extra)
        ev = {
            "property_id": self.pid,
            "tier": self.tier,
            "seed": int(self.seed),
            "level": self.level,
            "coverage": cov,
            "assumptions": self.assumptions,
            "wall_s": round(wall, 2),
            "violations": int(self.violations),
        }
        EVIDENCE.mkdir(exist_ok=True)
        (EVIDENCE / f"{self.pid}.json").write_text(json.dumps(ev, indent=1, default=str) + "\n")
        status = "FAIL" if self.violations else "ok"
        print(
            f"[{self.pid}] {status}: tier={self.tier} states={self.states} evaluations={self.evaluations} "
            f"traces={self.traces} nontrivial={cov['distinct_nontrivial']} violations={self.violations} "
            f"known={self.known} wall={wall:.1f}s",
            flush=True,
        )
        return 1 if self.violations else 0


_KF_CACHE: dict | None = None


def known_findings() -> dict[str, dict[str, str]]:
    """property -> {signature -> description} for OPEN findings (fixed ones suppress nothing)."""
    global _KF_CACHE
    if _KF_CACHE is None:
        p = VERIF / "known_findings.json"
        out: dict[str, dict[str, str]] = {}
        if p.exists():
            for e in json.loads(p.read_text()).get("findings", []):
                if e.get("status") == "open":
                    for pid in e["properties"]:
                        out.setdefault(pid, {})[e["signature"]] = e["what"]
        _KF_CACHE = out
    return _KF_CACHE


# ---------------------------------------------------------------- parallel map


def pmap(fn: Callable, items: list, *, chunks: int | None = None, procs: int | None = None) -> list:
    """Map fn over chunked items in forked worker processes; fn(list) -> result."""
    import multiprocessing as mp

    procs = procs or NCPU
    if len(items) == 0:
        return []
    n = chunks or min(len(items), procs * 4)
    size = (len(items) + n - 1) // n
    parts = [items[i : i + size] for i in range(0, len(items), size)]
    if procs == 1 or len(parts) == 1:
        return [fn(p) for p in parts]
    ctx = mp.get_context("fork")
    with ctx.Pool(min(procs, len(parts))) as pool:
        return pool.map(fn, parts)


def setup_repo_import() -> None:
    """Make sure `droplets` is imported from /repo's working tree, nothing written there."""
    os.environ.setdefault("PYTHONDONTWRITEBYTECODE", "1")
    os.environ.setdefault("NUMBA_CACHE_DIR", str(WORK / "numba"))
    sys.dont_write_bytecode = True
    if REPO not in sys.path:
        sys.path.insert(0, REPO)
    import droplets  # noqa

    if not droplets.__file__.startswith(REPO + "/"):
        raise MachineryError(f"droplets imported from {droplets.__file__}, not {REPO}")
    import logging

    logging.disable(logging.WARNING)


# ---------------------------------------------------------------- trace validation


def judge_traces(module: str, traces: list, *, batch: int = 2000, modes=("run", "judge"), workers: int = 8,
                 cfg_text: str | None = None):
    """Validate recorded traces with a Trace*.tla module, many per JVM start.

    The module reads the JSON list from IOEnv.TRACE_FILE, explores every (trace, mode) and
    prints one verdict record [tid, mode, <clause> |-> BOOLEAN ...] per pair.  Returns
    ([{mode: verdict}], total_states_generated); a missing verdict is a machinery error
    (verdicts are total)."""
    if not traces:
        return [], 0
    WORK.mkdir(exist_ok=True)
    out: list = []
    states = 0
    for s in range(0, len(traces), batch):
        part = traces[s : s + batch]
        tf = WORK / f"trace-{module}-{os.getpid()}-{s}.json"
        tf.write_text(json.dumps(part))
        cfgname = f"{module}.cfg"
        cf = None
        if cfg_text is not None:
            cf = WORK / f"cfg-{module}-{os.getpid()}-{s}.cfg"
            cf.write_text(cfg_text)
            cfgname = str(cf)
        try:
            r = tlc(module, cfgname, big_stack=(module == "TraceLocate"), workers=workers, env={"TRACE_FILE": str(tf)},
                    coverage=False, tag=f"{module}-{s}")
        finally:
            tf.unlink(missing_ok=True)
            if cf is not None:
                cf.unlink(missing_ok=True)
        if r.violated or not r.ok:
            raise MachineryError(f"{module} failed: {r.stdout[-2500:]}")
        states += r.generated
        verd: dict = {}
        for v in r.printed:
            verd[(v["tid"], v.get("mode", "run"))] = v
        for i in range(1, len(part) + 1):
            row = {}
            for m in modes:
                if (i, m) not in verd:
                    raise MachineryError(f"{module}: no verdict for trace {s + i} mode {m}\n{r.stdout[-1500:]}")
                row[m] = verd[(i, m)]
            out.append(row)
    return out, states
