"""C02 — each located droplet is one connected component under the grid's topology.

Locate stage  (LocateCart.tla): TLC enumerates EVERY binary image of small lattices for several
              periodicity masks, runs the operational label/merge/select actions and checks them
              against the declarative torus components and their lifts (Correct).  The original
              merge design is kept in the spec as Variant = "original"; TLC refutes it (finding F1).
Overlap stage (Overlap.tla via TraceOverlap.tla): the candidates handed to remove_overlapping and the
              survivors are captured from the real code; their exact order/predicate projection is
              judged by TLC (Separated, Dominated, Subsequence).
Replay        every image is run through droplets.image_analysis.locate_droplets_in_mask on a concrete
              CartesianGrid (dyadic anisotropic spacings, offsets); candidates must correspond
              one-to-one to the spec's clusters (volume; lifted centre of mass modulo the period).
code -> spec  random large images (noise, blobs, non-convex, multi-piece) are located by the real code
              and the recorded (mask, candidates) are validated by TraceLocate.tla.
"""

from __future__ import annotations

import json
import math
import random
from fractions import Fraction

import numpy as np

from . import core, locate

QUICK = ["q_5", "q_8o", "q_33", "q_43"]
THOROUGH = QUICK + ["q_34", "t_12", "t_44pp", "t_44pf", "t_44fp", "t_44ff", "t_35", "t_223", "t_233", "t_323"]
OVERLAP_CLAUSES = ("inrange", "subsequence", "separated", "dominated")


def cfg_params(name):
    txt = (core.SPECS / f"MC_LocateCart_{name}.cfg").read_text()
    vals = {}
    for line in txt.splitlines():
        line = line.strip()
        if "=" in line and "<-" not in line:
            k, v = [x.strip() for x in line.split("=")]
            vals[k] = v
    dim = int(vals["DimC"])
    shape = [int(vals[f"N{i}"]) for i in range(1, dim + 1)]
    per = [vals[f"P{i}"] == "TRUE" for i in range(1, dim + 1)]
    return shape, per


def match_clusters(cands, clusters, grid, shape, per, dx, x0):
    """Match candidates to spec clusters. Returns (fails, mapping cluster->candidate index)."""
    fails = []
    cellvol = float(np.prod(dx))
    used = set()
    dim = len(shape)
    if len(cands) != len(clusters):
        fails.append(f"count {len(cands)} != components {len(clusters)}")
    for k, cl in enumerate(clusters):
        vol = cl["v"] * cellvol
        found = None
        for i, d in enumerate(cands):
            if i in used:
                continue
            if abs(d.volume - vol) > 1e-9 * vol:
                continue
            ok = True
            if not cl["wind"]:
                for a in range(dim):
                    exp = x0[a] + dx[a] * (Fraction(cl["s"][a], cl["v"]) + Fraction(1, 2))
                    period = shape[a] * dx[a] if per[a] else None
                    if not locate.circ_close(float(d.position[a]), float(exp), period, 1e-9 * max(1.0, shape[a] * dx[a])):
                        ok = False
            if ok:
                found = i
                break
        if found is None:
            fails.append(f"no droplet for component {k + 1} (v={cl['v']}, s={cl['s']}, wind={cl['wind']})")
        else:
            used.add(found)
    for d in cands:
        for a in range(dim):
            if per[a] and not (x0[a] - 1e-12 <= d.position[a] <= x0[a] + shape[a] * dx[a] + 1e-12):
                fails.append("position outside the box along a periodic axis")
        if not np.all(np.isfinite(d.position)) or not np.isfinite(d.radius):
            fails.append("non-finite droplet")
    return fails


def run_image(shape, per, cells, idx):
    """Run the real code on one binary image. Returns dict with candidates/survivors/result."""
    from pde import ScalarField

    from droplets import image_analysis

    dim = len(shape)
    dx, x0 = locate.variant(idx, dim)
    grid = locate.cart_grid(shape, per, dx, x0)
    m = locate.mask_array(shape, cells)
    field = ScalarField(grid, m, dtype=bool)
    before = m.copy()
    with locate.capture_overlap_removal() as calls:
        res = image_analysis.locate_droplets_in_mask(field)
    if len(calls) >= 1:
        cands, surv = calls[0]["before"], calls[0]["after"]
    else:
        cands, surv = list(res), list(res)
    return {"grid": grid, "dx": dx, "x0": x0, "cands": cands, "surv": surv, "result": list(res),
            "calls": len(calls), "mask_modified": not np.array_equal(field.data, before)}


def _replay_chunk(args):
    items, shape, per = args
    core.setup_repo_import()
    bad, traces, nontriv = [], [], 0
    for idx, it in items:
        cells = it["mask"]
        clusters = it["cl"]
        case = {"shape": shape, "periodic": per, "cells": cells, "idx": idx}
        try:
            r = run_image(shape, per, cells, idx)
        except Exception as exc:  # noqa: BLE001
            bad.append({**case, "fails": [f"raised {type(exc).__name__}: {exc}"]})
            continue
        fails = match_clusters(r["cands"], clusters, r["grid"], shape, per, r["dx"], r["x0"])
        if r["mask_modified"]:
            fails.append("mask modified")
        if [id(o) for o in r["result"]] != [id(o) for o in r["surv"]]:
            fails.append("returned emulsion differs from survivors of overlap removal")
        if any(cl["wind"] is False and len(cl["cells"]) > 1 for cl in clusters) and any(per):
            lows = any(c[a] == 0 for c in cells for a in range(len(shape)) if per[a])
            highs = any(c[a] == shape[a] - 1 for c in cells for a in range(len(shape)) if per[a])
            if lows and highs:
                nontriv += 1
        if fails:
            bad.append({**case, "dx": r["dx"], "x0": r["x0"], "fails": fails,
                        "got": [[list(map(float, d.position)), float(d.volume)] for d in r["cands"]],
                        "expected": clusters})
            continue
        if len(r["cands"]) >= 2:
            d2 = locate.exact_d2(r["grid"].axes_bounds, per)
            tr = locate.overlap_trace(r["cands"], r["surv"], d2)
            if tr is not None:
                traces.append((case, tr))
    return len(items), nontriv, bad, traces


def signature(b):
    return None


def run(out: core.Outcome) -> None:
    core.setup_repo_import()
    import multiprocessing as mp

    out.rule = (
        "every binary image (SUBSET Cells) of each listed lattice/periodicity config is model-checked "
        "(operational merge vs declarative lifted torus components) and replayed through "
        "locate_droplets_in_mask; non-trivial = image with a multi-cell non-winding component touching both "
        "sides of a periodic boundary. Random large images validated by TraceLocate.tla."
    )
    # the original design is refuted by TLC (documented finding F1; informational, never fails the check)
    if out.tier == "thorough":
        r0 = core.tlc("MC_LocateCart", "MC_LocateCart_orig_43.cfg", timeout=600)
        out.parts["original_design_refuted_by_TLC"] = {"violated": r0.violated, "states": r0.generated}
    deviations = 0
    overlap_skipped = 0
    for name in QUICK if out.tier == "quick" else THOROUGH:
        shape, per = cfg_params(name)
        r = core.tlc("MC_LocateCart", f"MC_LocateCart_{name}.cfg", timeout=3000)
        if r.violated:
            out.violation({"tlc_config": name, "violated": r.violated, "tlc_tail": r.stdout[-3000:]})
            continue
        r.require_actions(["Label", "Select"] + (["MergeStep"] if any(per) else []))
        out.add_tlc(name, r)
        items = list(enumerate(r.printed))
        size = max(1, len(items) // (core.NCPU * 4))
        chunks = [(items[i : i + size], shape, per) for i in range(0, len(items), size)]
        with mp.get_context("fork").Pool(core.NCPU) as pool:
            results = pool.map(_replay_chunk, chunks)
        traces = []
        nbad = 0
        for n, nt, bad, trs in results:
            out.evaluations += n
            out.nontrivial_count += nt
            traces += trs
            for b in bad:
                nbad += 1
                out.violation({"config": name, **b}, signature=signature(b))
        out.parts[name]["images_replayed"] = len(items)
        out.parts[name]["mismatches"] = nbad
        out.sample({"config": name, "image": r.printed[len(r.printed) // 3]})
        rows, st = core.judge_traces("TraceOverlap", [t for _, t in traces])
        out.transitions += st
        out.parts[name]["overlap_stage_traces"] = len(traces)
        for (case, tr), row in zip(traces, rows):
            failed = [c for c in OVERLAP_CLAUSES if not row["judge"][c]]
            if failed:
                out.violation({"config": name, **case, "overlap_stage_failed": failed, "trace": tr})
            elif not row["run"]["conform"]:
                deviations += 1
    from . import locsym

    locsym.run_c02(out)
    n_random = 150 if out.tier == "quick" else 3000
    random_images(out, n_random)
    out.extra["deviations_from_operational_model_without_property_violation"] = deviations
    out.exhaustive = True
    out.assumptions += [
        "scipy.ndimage.label numbers components by first cell in C order (only used for the order of results)",
        "dyadic spacings/origins: cell-centre arithmetic exact; positions compared to 1e-9 of the box size",
        "overlap stage judged on the exact rational projection of the candidates' doubles (touching spheres skipped)",
        "cylindrical part of C02 is decided in LocateCyl (see C02 cylindrical section of the evidence) when present",
    ]


# ------------------------------------------------------------------ random large images


PALETTE = [
    ([24], [True]), ([37], [False]),
    ([8, 8], [True, True]), ([12, 9], [True, False]), ([7, 16], [False, True]), ([16, 16], [True, True]),
    ([5, 5, 6], [True, True, True]), ([4, 6, 5], [True, False, True]),
    ([15, 23], [False, False]), ([5, 4, 6], [False, False, False]),
]


def _gen_image(rng: random.Random, sd: int = 0):
    shape, per = PALETTE[rng.randrange(len(PALETTE))]
    dx, _ = locate.variant(sd, len(shape))
    shape, per = list(shape), list(per)
    dim = len(shape)
    style = rng.choice(["noise", "blobs", "rings", "stripes"])
    npr = np.random.default_rng(rng.randrange(2**31))
    if shape == [15, 23] and rng.random() < 0.5:
        style = "sandwich"
    if dim == 2 and any(per) and rng.random() < 0.25:
        style = "comb"
    if style == "comb":
        # a comb across a periodic seam: the spine on one side of the boundary, three or more separate teeth on the other
        # (one component, many pieces; the chain of merges is as long as the number of teeth)
        m = np.zeros(shape, bool)
        a = rng.choice([k for k in range(2) if per[k]])
        b = 1 - a
        spine_side = rng.choice([0, shape[a] - 1])
        teeth_from = 0 if spine_side == shape[a] - 1 else shape[a] - 1
        step = 1 if teeth_from == 0 else -1
        idx = [slice(None), slice(None)]
        idx[a] = spine_side
        lo_b = rng.randint(0, 1)
        hi_b = shape[b] - rng.randint(0, 1)
        idx[b] = slice(lo_b, hi_b)
        m[tuple(idx)] = True
        if rng.random() < 0.5:      # a thicker spine
            idx[a] = spine_side - step
            m[tuple(idx)] = True
        for t in range(lo_b, hi_b, 2):
            for k in range(rng.randint(1, 3)):
                cell = [0, 0]
                cell[a] = teeth_from + step * k
                cell[b] = t
                m[tuple(cell)] = True
        return shape, per, m
    if style == "sandwich":
        # polydisperse: two long thin bars a few rows apart (their equal-volume spheres overlap although the bars do
        # not touch) and two single cells on the far sides, each nearer to its bar's centre than the other bar is but
        # outside the bar's sphere -- the overlapping pair is nobody's nearest neighbour.  Geometry in physical units.
        m = np.zeros(shape, bool)
        d0, d1 = dx
        rs = math.sqrt(d0 * d1 / math.pi)
        feas = []
        for la in range(9, 22):
            for lb in range(9, 22):
                rA, rB = math.sqrt(la * d0 * d1 / math.pi), math.sqrt(lb * d0 * d1 / math.pi)
                for g in range(2, 7):
                    for off in (0, 1, 2):
                        # centres: A at column ca + la/2, B at cb + lb/2; off = column offset of the centres in half cells
                        dab = math.hypot(g * d0, off * 0.5 * d1)
                        if not dab < rA + rB - 0.05 * d0:
                            continue
                        for sa in range(2, 6):
                            for sb in range(2, 6):
                                if (rA + rs + 0.05 * d0 < sa * d0 < dab - 0.05 * d0 and rB + rs + 0.05 * d0 < sb * d0 < dab - 0.05 * d0
                                        and sa + g + sb <= shape[0] - 1 and (la - lb - off) % 2 == 0):
                                    feas.append((la, lb, g, off, sa, sb))
        if feas:
            la, lb, g, off, sa, sb = rng.choice(feas)
            ra = sa + rng.randint(0, shape[0] - 1 - (sa + g + sb))
            rb = ra + g
            ca = rng.randint(0, shape[1] - max(la, lb) - 2)
            cb = ca + (la - lb - off) // 2 + off       # centre of B = centre of A + off/2 cells
            cb = max(0, min(cb, shape[1] - lb))
            m[ra, ca : ca + la] = True
            m[rb, cb : cb + lb] = True
            m[ra - sa, ca + (la - 1) // 2] = True
            m[rb + sb, cb + (lb - 1) // 2] = True
        else:
            style = "noise"
    if style == "sandwich":
        pass
    elif style == "noise":
        m = npr.random(shape) < rng.choice([0.05, 0.2, 0.4, 0.6])
    elif style == "blobs":
        m = np.zeros(shape, bool)
        idx = np.indices(shape)
        for _ in range(rng.randint(1, 5)):
            c = [rng.uniform(0, n) for n in shape]
            rad = rng.uniform(1, max(1.5, min(shape) / 3))
            d2 = 0
            for a in range(dim):
                d = np.abs(idx[a] + 0.5 - c[a])
                if per[a]:
                    d = np.minimum(d, shape[a] - d)
                d2 = d2 + d * d
            m |= d2 < rad * rad
    elif style == "rings":
        m = np.zeros(shape, bool)
        idx = np.indices(shape)
        c = [rng.uniform(0, n) for n in shape]
        rad = rng.uniform(2, max(2.5, min(shape) / 2))
        d2 = 0
        for a in range(dim):
            d = np.abs(idx[a] + 0.5 - c[a])
            if per[a]:
                d = np.minimum(d, shape[a] - d)
            d2 = d2 + d * d
        m = (d2 < rad * rad) & (d2 > (rad - 1.2) ** 2)
        m &= npr.random(shape) < 0.9
    else:
        m = np.zeros(shape, bool)
        a = rng.randrange(dim)
        sl = [slice(None)] * dim
        for k in range(0, shape[a], rng.randint(2, 4)):
            sl[a] = k
            m[tuple(sl)] = True
        m &= npr.random(shape) < 0.85
    return shape, per, m


def _random_chunk(seeds):
    core.setup_repo_import()
    out = []
    for sd in seeds:
        rng = random.Random(sd)
        shape, per, m = _gen_image(rng, sd)
        cells = [list(map(int, c)) for c in np.argwhere(m)]
        case = {"shape": shape, "periodic": per, "cells": cells, "idx": sd, "seed": sd}
        try:
            r = run_image(shape, per, cells, sd)
        except Exception as exc:  # noqa: BLE001
            out.append({"case": case, "error": f"{type(exc).__name__}: {exc}"})
            continue
        dx, x0 = r["dx"], r["x0"]
        # observed candidates in lattice units: V (cells) and S = (pos_cell - 1/2) V per axis
        cellvol = float(np.prod(dx))
        obs = []
        ok = True
        for d in r["cands"]:
            v = d.volume / cellvol
            vi = int(round(v))
            if abs(v - vi) > 1e-6 or vi <= 0:
                ok = False
                break
            s = []
            for a in range(len(shape)):
                sc = ((float(d.position[a]) - x0[a]) / dx[a] - 0.5) * vi
                si = int(round(sc))
                if abs(sc - si) > 1e-6 * max(1, abs(sc)):
                    ok = False
                s.append(si)
            obs.append({"v": vi, "s": s})
        tr_ov = None
        if len(r["cands"]) >= 2:
            d2 = locate.exact_d2(r["grid"].axes_bounds, per)
            tr_ov = locate.overlap_trace(r["cands"], r["surv"], d2)
        dim = len(shape)
        out.append({"case": case, "integral": ok,
                    "trace": {"n": shape + [1] * (3 - dim), "p": per + [False] * (3 - dim), "dim": dim,
                              "mask": cells, "obs": obs},
                    "overlap": tr_ov,
                    "returned_is_survivors": [id(o) for o in r["result"]] == [id(o) for o in r["surv"]]})
    return out


def random_images(out: core.Outcome, n: int) -> None:
    import multiprocessing as mp

    seeds = [out.seed * 7919 + 17 * i for i in range(n)]
    size = max(1, n // (core.NCPU * 2))
    with mp.get_context("fork").Pool(core.NCPU) as pool:
        res = pool.map(_random_chunk, [seeds[i : i + size] for i in range(0, n, size)])
    cases = [c for part in res for c in part]
    good = []
    for c in cases:
        out.evaluations += 1
        if "error" in c:
            out.violation({"random_image": c["case"], "fails": ["raised " + c["error"]]})
        elif not c["integral"]:
            out.violation({"random_image": c["case"], "fails": ["volume/moment of a droplet is not that of a set of cells"],
                           "obs": c["trace"]["obs"]})
        else:
            good.append(c)
            if not c["returned_is_survivors"]:
                out.violation({"random_image": c["case"], "fails": ["returned emulsion differs from survivors"]})
    groups: dict = {}
    for c in good:
        groups.setdefault((tuple(c["case"]["shape"]), tuple(c["case"]["periodic"])), []).append(c)
    for (shape, per), cs in sorted(groups.items()):
        dim = len(shape)
        sh = list(shape) + [1] * (3 - dim)
        pp = list(per) + [False] * (3 - dim)
        cfg = ("SPECIFICATION Spec\nCONSTANTS\n  N <- NC\n  P <- PC\n  Variant = \"unionfind\"\n"
               f"  DimC = {dim}\n  N1 = {sh[0]}\n  N2 = {sh[1]}\n  N3 = {sh[2]}\n"
               + "".join(f"  P{i + 1} = {'TRUE' if pp[i] else 'FALSE'}\n" for i in range(3))
               + "INVARIANT Verdict\n")
        rows, st = core.judge_traces("TraceLocate", [c["trace"] for c in cs], batch=400, modes=("run",), cfg_text=cfg)
        out.transitions += st
        out.traces += len(cs)
        for c, row in zip(cs, rows):
            v = row["run"]
            if v.get("ncomp", 0) >= 2:
                out.nontriv(("rnd", c["case"]["seed"]))
            failed = [k for k in ("correct", "count", "bijection") if not v[k]]
            if failed:
                out.violation({"random_image": c["case"], "fails": failed, "obs": c["trace"]["obs"]})
    ov = [c for c in good if c["overlap"] is not None]
    rows, st = core.judge_traces("TraceOverlap", [c["overlap"] for c in ov])
    out.transitions += st
    for c, row in zip(ov, rows):
        failed = [k for k in OVERLAP_CLAUSES if not row["judge"][k]]
        if failed:
            out.violation({"random_image": c["case"], "overlap_stage_failed": failed, "trace": c["overlap"]})
    out.parts["random_images"] = {"images": len(cases), "validated_by_TraceLocate": len(good),
                                  "overlap_stage_traces": len(ov)}
    if good:
        s = dict(good[0]["trace"])
        s["mask"] = s["mask"][:12]
        out.sample({"random_image_trace": s})
