"""C19 — the requested droplet model determines class and shape of every result (ClassSelect.tla).

spec -> code : ClassSelect.tla contains the implementation's decision chain (CheckArgs, Candidate, Width, Modes,
               Refine) and, independently, the property's sentence; TLC checks that they agree on EVERY request of
               the finite space family x periodicity x modes x width x refine x threshold rule.  Every request is
               then run through the real locate_droplets on an image with two droplets (one on symmetric grids) and
               class, number of amplitudes, width, dimension, common layout and Emulsion.data are compared with the
               spec's final state; a raise must be the spec's.
"""

from __future__ import annotations

import json
import warnings

import numpy as np

from . import core


def make_field(fam, periodic, variant=0):
    from pde import CartesianGrid, CylindricalSymGrid, PolarSymGrid, SphericalSymGrid

    from droplets import DiffuseDroplet, Emulsion

    s = 0.17 * variant
    if variant >= 3 and periodic and fam in ("cart1", "cart2", "cart3"):
        # one droplet sits on the periodic seam, a hair to the left or to the right of it: the candidate (centre of mass
        # of its cells, exactly on the seam) and the fitted centre can lie on opposite sides of the boundary
        off = [0.02, -0.02, 0.3, -0.3][(variant - 3) % 4]
        if fam == "cart1":
            g = CartesianGrid([[0, 32]], 32, periodic=True)
            ds = [DiffuseDroplet([off], 3, 1.0), DiffuseDroplet([16.0], 4, 1.0)]
        elif fam == "cart2":
            g = CartesianGrid([[0, 24], [0, 20]], [24, 20], periodic=[True, False])
            ds = [DiffuseDroplet([off, 10.0], 3.5, 1.0), DiffuseDroplet([12.0, 10.0], 4, 1.0)]
        else:
            g = CartesianGrid([[0, 12], [0, 12], [0, 20]], [12, 12, 20], periodic=[False, True, True])
            ds = [DiffuseDroplet([6.0, 6.0, off], 3, 1.0), DiffuseDroplet([6.0, 6.0, 10.0], 3.5, 1.0)]
        return Emulsion(ds).get_phasefield(g), 2
    if fam == "cart1":
        g = CartesianGrid([[0, 32]], 32, periodic=periodic)
        ds = [DiffuseDroplet([8.0 + s], 3, 1.0), DiffuseDroplet([22.0], 4, 1.0)]
    elif fam == "cart2" and variant == 2:
        # strongly anisotropic cells: a two-cell cluster whose equivalent droplet covers no support point
        g = CartesianGrid([[0, 120], [0, 2.0]], [12, 20], periodic=[periodic, False])
        field = Emulsion([]).get_phasefield(g)
        field.data[5:7, :] = 1.0       # an ordinary cluster
        field.data[2:4, 3] = 1.0       # the thin one
        return field, 2
    elif fam == "cart2":
        g = CartesianGrid([[0, 24], [0, 20]], [24, 20], periodic=[periodic, False])
        ds = [DiffuseDroplet([6.0 + s, 6.0], 4, 1.0), DiffuseDroplet([17.0, 13.0 - s], 4.5, 1.0)]
    elif fam == "cart3":
        g = CartesianGrid([[0, 12], [0, 12], [0, 20]], [12, 12, 20], periodic=[False, periodic, periodic])
        ds = [DiffuseDroplet([6.0, 6.0 + s, 5.0], 3, 1.0), DiffuseDroplet([6.0, 6.0, 14.5], 3.5, 1.0)]
    elif fam == "polar":
        g = PolarSymGrid(16, 32)
        ds = [DiffuseDroplet([0.0, 0.0], 6 + s, 1.0)]
    elif fam == "spherical":
        g = SphericalSymGrid(16, 32)
        ds = [DiffuseDroplet([0.0, 0.0, 0.0], 6 + s, 1.0)]
    else:
        g = CylindricalSymGrid(8, [0, 24], [16, 48], periodic_z=periodic)
        ds = [DiffuseDroplet([0.0, 0.0, 6.0 + s], 3, 1.0), DiffuseDroplet([0.0, 0.0, 17.0], 4, 1.0)]
    field = Emulsion(ds).get_phasefield(g)
    n = len(ds)
    # a tiny cluster (one bright cell) far from the droplets: every result, however small, has the requested class
    tiny = {"cart1": (15,), "cart2": (20, 2), "cart3": (1, 1, 10), "cylindrical": (0, 45)}.get(fam)
    if tiny is not None and variant != 1:
        field.data[tiny] = 1.0
        n += 1
    return field, n


DIM = {"cart1": 1, "cart2": 2, "cart3": 3, "polar": 2, "spherical": 3, "cylindrical": 3}
GIVEN_WIDTH = 0.75


def run_request(rec, variant=0):
    from droplets.image_analysis import locate_droplets

    req = rec["req"]
    fails = []
    field, ndrops = make_field(req["fam"], req["periodic"], variant)
    thr = 0.5 if req["thr"] == "0.5" else req["thr"]
    width = {"given": GIVEN_WIDTH, "zero": 0.0, "none": None}[req["width"]]
    ra = {"least_squares_params": {"max_nfev": 8}} if req["refine"] else None
    try:
        with warnings.catch_warnings():
            warnings.simplefilter("ignore")
            em = locate_droplets(field, threshold=thr, modes=req["modes"], interface_width=width, refine=req["refine"],
                                 refine_args=ra)
    except Exception as exc:  # noqa: BLE001
        if rec["pc"] == "raised" and type(exc).__name__ == rec["err"]:
            return fails
        return [f"raised {type(exc).__name__}: {str(exc)[:120]} (spec: {rec['pc']} {rec['cls']})"]
    if rec["pc"] == "raised":
        return [f"no {rec['err']} although the request is documented to raise"]
    if len(em) != ndrops:
        fails.append(f"{len(em)} droplets located, image holds {ndrops}")
    if len(em) == 0:
        return fails
    for d in em:
        if type(d).__name__ != rec["cls"]:
            fails.append(f"class {type(d).__name__}, requested model implies {rec['cls']}")
        if d.dim != DIM[req["fam"]]:
            fails.append("dimension differs from the grid's")
        modes = d.modes if hasattr(d, "modes") else 0
        if modes != rec["namps"] or (rec["namps"] > 0 and len(d.amplitudes) != rec["namps"]):
            fails.append(f"{modes} amplitudes, requested {rec['namps']}")
        if rec["cls"] != "SphericalDroplet" and hasattr(d, "interface_width"):
            w = d.interface_width
            if rec["width"] == "zero" and w != 0.0:
                fails.append(f"supplied width 0 not carried: {w}")
            if rec["width"] == "given" and w != GIVEN_WIDTH:
                fails.append(f"supplied width not carried: {w}")
            if rec["width"] == "none" and w is not None:
                fails.append(f"width set although none was supplied: {w}")
            if rec["width"] == "fitted" and (w is None or not np.isfinite(w) or w < 0):
                fails.append("refined droplet without a valid width")
        if not req["refine"] and rec["namps"] > 0 and np.any(d.amplitudes != 0):
            fails.append("unrefined perturbed droplet with non-zero amplitudes")
    if len({d.data.dtype for d in em}) != 1:
        fails.append("droplets of one result have different layouts")
    if em.dtype != em[0].data.dtype:
        fails.append("emulsion dtype slot differs from its droplets")
    try:
        data = em.data
        if data.dtype != em[0].data.dtype or len(data) != len(em):
            fails.append("Emulsion.data has another layout")
    except Exception as exc:  # noqa: BLE001
        fails.append(f"Emulsion.data raised {type(exc).__name__}")
    return fails


def _chunk(items):
    core.setup_repo_import()
    bad = []
    for idx, rec in items:
        try:
            fails = run_request(rec, idx % 3)
            if rec["req"]["periodic"] and rec["req"]["refine"] and rec["req"]["fam"] in ("cart1", "cart2", "cart3") and rec["pc"] != "raised":
                fails = fails + [f"seam droplet: {f}" for f in run_request(rec, 3 + idx % 4)]
        except Exception as exc:  # noqa: BLE001
            fails = [f"inspection of the result raised {type(exc).__name__}: {exc}"]
        if fails:
            bad.append({"index": idx, **rec, "fails": sorted(set(fails))})
    return len(items), bad


def classify(b):
    r = b["req"]
    if r["fam"] == "cylindrical" and r["modes"] > 0 and r["refine"] and any("TypeError" in f for f in b["fails"]):
        return "axisym-phase-field-typeerror"
    return None


def run(out: core.Outcome) -> None:
    import multiprocessing as mp

    core.setup_repo_import()
    out.rule = (
        "TLC checks that the operational decision chain and the declarative class table of ClassSelect.tla agree on every "
        "request; every request is run through locate_droplets on a two-droplet image of that grid family and the class, "
        "amplitude count, width, dimension, common layout and Emulsion.data of the result are compared with the spec. "
        "Non-trivial = request with modes, width or refinement."
    )
    out.exhaustive = True
    name = "q" if out.tier == "quick" else "t"
    r = core.tlc("MC_ClassSelect", f"MC_ClassSelect_{name}.cfg", timeout=900)
    if r.violated:
        out.violation({"tlc_config": name, "violated": r.violated, "tlc_tail": r.stdout[-3000:]})
        return
    r.require_actions(["CheckArgs", "Candidate", "Width", "Modes", "Refine"])
    out.add_tlc(name, r)
    items = list(enumerate(r.printed))
    # expensive requests (3-D refinement) first so that the pool is balanced
    items.sort(key=lambda it: -(it[1]["req"]["refine"] * (3 if it[1]["req"]["fam"] in ("cart3",) else 1) * (1 + it[1]["req"]["modes"])))
    chunks = [items[i::core.NCPU * 3] for i in range(core.NCPU * 3)]
    with mp.get_context("fork").Pool(core.NCPU) as pool:
        results = pool.map(_chunk, [c for c in chunks if c])
    nbad = 0
    for n, bad in results:
        out.evaluations += n
        nbad += len(bad)
        for b in bad:
            out.violation({"config": name, **b}, signature=classify(b))
    out.nontrivial_count = sum(1 for _, rec in items if rec["req"]["modes"] or rec["req"]["refine"] or rec["req"]["width"] == "given")
    out.parts[name].update(requests=len(items), mismatches=nbad)
    out.sample(items[0][1])
    out.sample(items[-1][1])
    out.explanation = out.rule
    out.assumptions = [
        "refinement is run with max_nfev=8: class, layout and width validity are judged, not the fitted values (C05)",
        "one image per grid family (two droplets; one centred droplet on polar/spherical grids)",
    ]


def replay(out, path):
    core.setup_repo_import()
    case = json.loads(open(path).read())
    fails = run_request(case, case.get("index", 0) % 3)
    print("fails:", fails)
    if fails:
        print(f"VIOLATION property=C19 replay={path}")
        return 1
    return 0
