"""C06 / C07 — DropletTrackList.from_emulsion_time_course against Tracking.tla.

spec -> code : TLC enumerates every history of a small integer lattice world
               (MC_Tracking*.cfg), checks the invariants in every state and prints the final
               tracks of each history; every history is replayed through the real classmethod
               and the result must be identical (which droplet, which order, which stamp).
code -> spec : random float time courses are run through the real code; the order/predicate
               projection (computed in exact rational arithmetic) and the implementation's
               track assignment are validated by TraceTracking.tla ("run" = conformance,
               "judge" = the property predicates evaluated by TLC on the implementation's state).
A property violation is reported only if a *property predicate* fails on the implementation's
state (or the call raises / alters droplets / mutates its input); a mere difference from the
operational model that satisfies all predicates is counted as a deviation, not a violation.
"""

from __future__ import annotations

import json
import math
import random
from fractions import Fraction

import numpy as np

from . import core

C06_CLAUSES = ("wf", "partition", "gapfree")
C07_CLAUSES = ("ovlinks", "distlinks")

TIME_POOLS = [
    lambda n: list(range(n)),
    lambda n: [0.1 * i for i in range(n)],
    lambda n: [-2.5 + 1.5 * i * i + i for i in range(n)],
    lambda n: [np.float64(3 * i - 7) for i in range(n)],
    lambda n: [10**6 + i for i in range(n)],
    lambda n: [2**53 + 1 + 2 * i for i in range(n)],      # integer stamps that no float represents (e.g. nanosecond clocks)
]


def _mk_grid(dim, L, periodic):
    from pde import UnitGrid

    return UnitGrid([L] * dim, periodic=periodic) if periodic else None


def run_impl(frames_vals, times, method, grid, max_dist, cls_name="DiffuseDroplet"):
    """Run the real code. frames_vals: list of list of (pos tuple, radius).

    Returns dict(tracks=[[ [f,j],... ],...]) or dict(error=...) plus side-condition flags.
    """
    import droplets
    from droplets import DropletTrackList, Emulsion, EmulsionTimeCourse

    from droplets import droplets as _dmod

    cls = getattr(_dmod, cls_name)
    ems = []
    tag2id = {}
    for fi, fr in enumerate(frames_vals, 1):
        ds = []
        for ji, (p, r) in enumerate(fr, 1):
            tag = fi * 64 + ji + 0.25
            tag2id[tag] = (fi, ji)
            if cls_name == "PerturbedDroplet2D":
                d = cls(np.array(p, float), float(r), 1.0, [tag / 1e6, 0.0])
            else:
                d = cls(np.array(p, float), float(r), tag)
            ds.append(d)
        ems.append(Emulsion(ds, copy=False))
    etc = EmulsionTimeCourse(ems, times=list(times))
    inputs = [d for e in etc for d in e]
    before = [d.data.tobytes() for d in inputs]
    before_times = list(etc.times)
    before_lens = [len(e) for e in etc]
    kwargs = {}
    if max_dist is not None:
        kwargs["max_dist"] = max_dist
    try:
        tl = DropletTrackList.from_emulsion_time_course(etc, method=method, grid=grid, **kwargs)
    except Exception as exc:  # noqa: BLE001
        return {"error": f"{type(exc).__name__}: {exc}"}
    res = {"tracks": [], "altered": False, "input_modified": False, "aliased": False}
    if [d.data.tobytes() for e in etc for d in e] != before or list(etc.times) != before_times or [
        len(e) for e in etc
    ] != before_lens:
        res["input_modified"] = True
    by_bytes = {}
    for (fi, fr) in enumerate(etc.emulsions, 1):
        for ji, d in enumerate(fr, 1):
            by_bytes[(fi, ji)] = d.data.tobytes()
    input_ids = {id(d) for d in inputs}
    for tr in tl:
        ent = []
        if len(tr.times) != len(tr.droplets):
            res["altered"] = True
        for t, d in zip(tr.times, tr.droplets):
            if cls_name == "PerturbedDroplet2D":
                tag = round(float(d.amplitudes[0]) * 1e6, 2)
            else:
                tag = d.interface_width
            key = tag2id.get(tag)
            if key is None:
                res["altered"] = True
                ent.append([0, 0])
                continue
            if d.data.tobytes() != by_bytes[key] or type(d) is not cls:
                res["altered"] = True
            tt = times[key[0] - 1]
            if not (t == tt):
                res["altered"] = True
            if id(d) in input_ids or any(np.shares_memory(d.data, i.data) for i in inputs):
                res["aliased"] = True
            ent.append([key[0], key[1]])
        res["tracks"].append(ent)
    return res


# ------------------------------------------------------------------ lattice replay


def _replay_chunk(args):
    items, params = args
    core.setup_repo_import()
    dim, L, periodic, method, maxd2 = params
    grid = _mk_grid(dim, L, periodic)
    if maxd2 is None:
        max_dist = None
    elif maxd2 < 0:
        max_dist = -1.0
    else:
        max_dist = math.sqrt(maxd2)
    bad = []
    nontriv = 0
    for idx, it in items:
        frames = [[(tuple(d["p"]), d["r"]) for d in fr] for fr in it["fr"]]
        times = TIME_POOLS[idx % len(TIME_POOLS)](len(frames))
        cls_name = "PerturbedDroplet2D" if (dim == 2 and idx % 3 == 0) else "DiffuseDroplet"
        res = run_impl(frames, times, method, grid, max_dist, cls_name)
        exp = [[list(e) for e in tr] for tr in it["tr"]]
        if any(len(t) > 1 for t in exp):
            nontriv += 1
        if "error" in res or res["altered"] or res["input_modified"] or res["aliased"] or res["tracks"] != exp:
            bad.append({"frames": frames, "times": [float(t) for t in times], "expected": exp, "got": res,
                        "cls": cls_name})
    return len(items), nontriv, bad


def lattice_tables(frames, method, periodic, L, maxd2):
    """Projection of a lattice history to the TraceTracking format (exact integers)."""

    def d2(a, b):
        s = 0
        for ax, (x, y) in enumerate(zip(a[0], b[0])):
            d = abs(x - y)
            if periodic is True or (periodic and periodic[ax]):
                d = min(d, L - d)
            s += d * d
        return s

    return project(frames, method, d2=d2, cut2=maxd2)


def project(frames, method, *, d2, cut2):
    """Order/predicate projection. d2(a,b) exact squared distance; cut2 exact squared cut-off
    (None = unlimited, negative = everything cut)."""
    n = [len(fr) for fr in frames]
    ov = []
    dk = []
    for fi, fr in enumerate(frames):
        ovf = []
        dkf = []
        nxt = frames[fi + 1] if fi + 1 < len(frames) else []
        prv = frames[fi - 1] if fi > 0 else []
        for ji, a in enumerate(fr):
            o = []
            for (ff, other) in ((fi, fr), (fi + 1, nxt), (fi - 1, prv)):
                for jj, b in enumerate(other):
                    if ff == fi and jj == ji:
                        continue
                    s = a[1] + b[1]
                    if d2(a, b) < s * s:
                        o.append([ff + 1, jj + 1])
            ovf.append(o)
            dkf.append([d2(a, b) for b in nxt])
        ov.append(ovf)
        dk.append(dkf)
    # dense ranks per frame transition (keys need only be order preserving per transition)
    for fi in range(len(frames)):
        vals = sorted({v for row in dk[fi] for v in row})
        rank = {v: i for i, v in enumerate(vals)}
        for row_i, row in enumerate(dk[fi]):
            dk[fi][row_i] = [
                1000000 if (cut2 is not None and (cut2 < 0 or v > cut2)) else rank[v] for v in row
            ]
    return {"method": method, "n": n, "ov": ov, "dk": dk}


def judge(traces):
    """Run TraceTracking on trace dicts -> ([(run_verdict, judge_verdict)], states)."""
    rows, states = core.judge_traces("TraceTracking", traces)
    return [(r["run"], r["judge"]) for r in rows], states


LATTICE_CFGS = {
    # name: (cfg, dim, L, periodic, method, maxd2)  (maxd2 None = unlimited)
    "ov_q": ("MC_Tracking_ov_q.cfg", 1, 4, True, "overlap", None),
    "di_q": ("MC_Tracking_di_q.cfg", 1, 3, True, "distance", 1),
    "di_q2": ("MC_Tracking_di_q2.cfg", 1, 4, False, "distance", None),
    "ov_q2": ("MC_Tracking_ov_q2.cfg", 1, 5, False, "overlap", None),
    # competing candidates: wide enough that the closest-pair-first rule and a minimal-total-distance assignment differ
    "di_q3": ("MC_Tracking_di_q3.cfg", 1, 6, False, "distance", None),
    "di_q4": ("MC_Tracking_di_q4.cfg", 1, 6, False, "distance", 4),
    "ov_t": ("MC_Tracking_ov_t.cfg", 1, 5, True, "overlap", None),
    "ov_t2": ("MC_Tracking_ov_t2.cfg", 1, 4, False, "overlap", None),
    "di_t": ("MC_Tracking_di_t.cfg", 1, 4, True, "distance", None),
    "di_t1": ("MC_Tracking_di_t1.cfg", 1, 4, True, "distance", 1),
    "di_t0": ("MC_Tracking_di_t0.cfg", 1, 4, False, "distance", 0),
    "di_tn": ("MC_Tracking_di_tn.cfg", 1, 4, False, "distance", -1),
    "di_t4": ("MC_Tracking_di_t4.cfg", 1, 5, False, "distance", 4),
    "ov_2d": ("MC_Tracking_ov_2d.cfg", 2, 3, True, "overlap", None),
    "di_2d": ("MC_Tracking_di_2d.cfg", 2, 3, True, "distance", 2),
    # a 4 x 4 box that is periodic along its first axis only (walls along the second)
    "ov_2dm": ("MC_Tracking_ov_2dm.cfg", 2, 4, [True, False], "overlap", None),
    "di_2dm": ("MC_Tracking_di_2dm.cfg", 2, 4, [True, False], "distance", 2),
    "di_qp": ("MC_Tracking_di_qp.cfg", 1, 5, True, "distance", None),
    "ov_q2dm": ("MC_Tracking_ov_q2dm.cfg", 2, 3, [True, False], "overlap", None),
    "di_q2dm": ("MC_Tracking_di_q2dm.cfg", 2, 3, [True, False], "distance", 2),
}
QUICK = ["ov_q", "di_q", "di_q2", "ov_q2", "di_q3", "di_q4", "ov_q2dm", "di_q2dm", "di_qp"]
THOROUGH = QUICK + ["ov_t", "ov_t2", "di_t", "di_t1", "di_t0", "di_tn", "di_t4", "ov_2d", "di_2d", "ov_2dm", "di_2dm"]


def classify(out, pid, case, verdict_judge, res):
    """Decide whether a mismatching case violates property pid; report it."""
    clauses = C06_CLAUSES if pid == "C06" else C07_CLAUSES
    failed = []
    if pid == "C06":
        if "error" in res:
            failed.append("raised")
        else:
            for k in ("altered", "input_modified", "aliased"):
                if res.get(k):
                    failed.append(k)
    if verdict_judge is not None:
        failed += [c for c in clauses if not verdict_judge[c]]
    if failed:
        sig = None
        if "error" in res and "XB must be a 2-dimensional array" in res["error"]:
            sig = "distance-empty-frame-cdist"
        out.violation({"case": case, "failed_clauses": failed}, signature=sig)
        return True
    return False


def identical_droplets(out, pid, seed, n):
    """frames that hold EXACT duplicates (droplets equal in every parameter, e.g. two vanished droplets recorded at one
    place): every droplet of every frame still appears in exactly one track -- judged by counting"""
    from collections import Counter

    from pde import UnitGrid

    from droplets import DropletTrackList, Emulsion, EmulsionTimeCourse, SphericalDroplet

    rng = random.Random(seed * 31 + 7)
    for k in range(n):
        dim = rng.choice([1, 2])
        L = 8
        grid = UnitGrid([L] * dim, periodic=True) if rng.random() < 0.5 else None
        frames = []
        for f in range(rng.randint(2, 4)):
            pts = [([float(rng.randrange(L)) for _ in range(dim)], rng.choice([0.0, 0.0, 0.5, 1.0])) for _ in range(rng.randint(1, 3))]
            fr = []
            for p_, r_ in pts:
                fr += [(p_, r_)] * rng.choice([1, 2, 2, 3])
            rng.shuffle(fr)
            frames.append(fr)
        times = [0.5 * i for i in range(len(frames))]
        for method, kw in (("overlap", {}), ("distance", {}), ("distance", {"max_dist": 1.0})):
            etc = EmulsionTimeCourse([Emulsion([SphericalDroplet(np.array(p_), r_) for p_, r_ in fr]) for fr in frames], times=times)
            fails = []
            try:
                tl = DropletTrackList.from_emulsion_time_course(etc, method=method, grid=grid, **kw)
                got = Counter((float(t), tuple(map(float, d.position)), float(d.radius)) for tr in tl for t, d in zip(tr.times, tr.droplets))
                want = Counter((float(t), tuple(map(float, p_)), float(r_)) for t, fr in zip(times, frames) for p_, r_ in fr)
                if got != want:
                    lost = sum((want - got).values())
                    extra = sum((got - want).values())
                    fails.append(f"{lost} droplets of the time course are in no track, {extra} entries of the tracks are not in the time course")
            except Exception as exc:  # noqa: BLE001
                fails.append(f"raised {type(exc).__name__}: {exc}")
            out.evaluations += 1
            if fails and pid == "C06":
                out.violation({"identical_droplets": {"frames": frames, "method": method, "options": kw, "grid": grid is not None}, "fails": fails})


def run(out: core.Outcome, pid: str) -> None:
    core.setup_repo_import()
    tier = out.tier
    out.rule = (
        "TLC enumerates every time course of the lattice world of each listed config (all frames of "
        "<= MaxPer droplets over positions x radii, NFrames frames) and checks the invariants in every state; "
        "each history is replayed through the real classmethod and compared with the spec's final tracks. "
        "Random float time courses are projected (exact rationals) and validated by TraceTracking.tla. "
        "Non-trivial = a history in which at least one track links two droplets."
    )
    deviations = 0
    for name in QUICK if tier == "quick" else THOROUGH:
        cfg, dim, L, periodic, method, maxd2 = LATTICE_CFGS[name]
        r = core.tlc("MC_Tracking", cfg, timeout=3000)
        if r.violated:
            out.violation({"tlc_config": cfg, "violated": r.violated, "tlc_tail": r.stdout[-3000:]})
            continue
        need = ["Begin", "EndFrame"] + (["MatchOv"] if method == "overlap" else ["Pick", "AddUn"])
        r.require_actions(need)
        out.add_tlc(name, r)
        items = list(enumerate(r.printed))
        if not items:
            raise core.MachineryError(f"{cfg}: TLC emitted no histories")
        params = (dim, L, periodic, method, maxd2)
        size = max(1, len(items) // (core.NCPU * 4))
        chunks = [(items[i : i + size], params) for i in range(0, len(items), size)]
        import multiprocessing as mp

        with mp.get_context("fork").Pool(core.NCPU) as pool:
            results = pool.map(_replay_chunk, chunks)
        bad = []
        for n, nt, b in results:
            out.evaluations += n
            out.nontrivial_count += nt
            bad += b
        out.sample({"config": name, "history": r.printed[len(r.printed) // 2]})
        out.parts[name]["histories_replayed"] = len(items)
        out.parts[name]["mismatches"] = len(bad)
        # classify mismatches with the TLC judge
        jt = []
        for b in bad:
            if "error" in b["got"]:
                jt.append(None)
                continue
            tr = lattice_tables(b["frames"], method, periodic, L, maxd2)
            tr["tracks"] = b["got"]["tracks"]
            jt.append(tr)
        verdicts, _ = judge([t for t in jt if t is not None])
        vi = iter(verdicts)
        for b, t in zip(bad, jt):
            v = next(vi)[1] if t is not None else None
            case = {"config": name, "dim": dim, "L": L, "periodic": periodic, "method": method,
                    "maxd2": maxd2, **b}
            if not classify(out, pid, case, v, b["got"]):
                deviations += 1
    # ---- code -> spec: random float time courses
    n_random = 600 if tier == "quick" else 12000
    identical_droplets(out, pid, out.seed, 60 if tier == "quick" else 600)
    rnd_bad, n_valid, n_skipped = random_traces(out, pid, n_random, out.seed)
    deviations += rnd_bad
    out.traces += n_valid
    out.extra["deviations_from_operational_model_without_property_violation"] = deviations
    out.extra["knife_edge_skipped"] = n_skipped
    out.exhaustive = True
    out.assumptions += [
        "lattice world: integer centres/radii, so every comparison the code makes is exact in doubles",
        "random traces: relations computed by an independent exact-rational metric; inputs within 1e-9 of a comparison flip are skipped",
        "times are strictly increasing (premise of the property)",
    ]


# ------------------------------------------------------------------ random driver


def _gen_course(rng: random.Random):
    dim = rng.choice([1, 2, 2, 3])
    periodic = rng.random() < 0.5
    if periodic and dim > 1 and rng.random() < 0.5:
        # a box that is periodic along some axes only: the metric wraps those axes and no others
        periodic = [rng.random() < 0.5 for _ in range(dim)]
        if all(periodic) or not any(periodic):
            periodic[rng.randrange(dim)] = not periodic[0]
    L = rng.choice([8, 10, 16])
    if isinstance(periodic, list) and rng.random() < 0.6:
        # droplets hugging the two opposite WALLS of a non-periodic axis: close to each other only if that axis were
        # (wrongly) wrapped; a droplet hops from one wall to the other between frames, another pair sits there for good
        ax = periodic.index(False)
        frames = []
        yA = [rng.uniform(0, L) for _ in range(dim)]
        yB = [rng.uniform(0, L) for _ in range(dim)]
        pair = rng.random() < 0.8
        f0 = rng.randint(0, 2)          # the partner at the opposite wall appears in frame f0
        hop = rng.random() < 0.6
        for f in range(rng.randint(2, 5)):
            fr = []
            if hop:
                p = list(yA)
                p[ax] = rng.uniform(0.1, 0.6) if f % 2 == 0 else L - rng.uniform(0.1, 0.6)
                fr.append((p, rng.uniform(0.7, 1.2)))
            if pair:
                q1, q2 = list(yB), list(yB)
                q1[ax], q2[ax] = rng.uniform(0.1, 0.5), L - rng.uniform(0.1, 0.5)
                fr.append((q1, rng.uniform(0.6, 0.9)))
                if f >= f0:
                    fr.append((q2, rng.uniform(0.6, 0.9)))
            frames.append(fr)
        method = rng.choice(["overlap", "distance"])
        max_dist = rng.choice([None, 2.5, 1.0]) if method == "distance" else None
        return dim, L, periodic, frames, method, max_dist
    nfr = rng.randint(1, 9)
    outside = bool(periodic) and rng.random() < 0.4
    ndrop = rng.randint(0, 6)
    crowd = rng.random() < 0.3
    rmax = (3.0 if crowd else 1.2) if dim > 1 else (2.0 if crowd else 0.8)
    drops = [([rng.uniform(0, L) for _ in range(dim)], rng.uniform(0.2, rmax)) for _ in range(ndrop)]
    frames = []
    for _ in range(nfr):
        if rng.random() < 0.12:
            frames.append([])
            continue
        new = []
        for (p, r) in drops:
            u = rng.random()
            if u < 0.08:
                continue  # disappears
            step = rng.choice([0.0, 0.05, 0.3, 1.0])
            q = [x + rng.uniform(-step, step) for x in p]
            if periodic:
                q = [x % L if (periodic is True or periodic[a]) else x for a, x in enumerate(q)]
                if outside and rng.random() < 0.5:
                    # the same place, written with a centre outside the fundamental cell (a droplet that drifted out)
                    q = [x + rng.choice([-1, 1, 2]) * L if (periodic is True or periodic[a]) else x for a, x in enumerate(q)]
            rr = max(0.05, r * rng.uniform(0.9, 1.1)) if step else r
            new.append((q, rr))
            if u > 0.95:  # split
                new.append(([x + rng.uniform(-r, r) for x in q], r * 0.7))
        if rng.random() < 0.2:
            new.append(([rng.uniform(0, L) for _ in range(dim)], rng.uniform(0.2, rmax)))
        rng.shuffle(new) if rng.random() < 0.3 else None
        drops = new
        frames.append(new[:8])
    method = rng.choice(["overlap", "distance"])
    max_dist = rng.choice([None, None, 0.5, 1.0, 2.5, 0.0, -1.0]) if method == "distance" else None
    return dim, L, periodic, frames, method, max_dist


def _exact_metric(dim, L, periodic):
    Lf = Fraction(L)

    def d2(a, b):
        s = Fraction(0)
        for ax, (x, y) in enumerate(zip(a[0], b[0])):
            d = abs(Fraction(x) - Fraction(y))
            if periodic is True or (periodic and periodic[ax]):
                d = d % Lf
                d = min(d, Lf - d)
            s += d * d
        return s

    return d2


def _knife_edge(frames, d2, cut2):
    """True if some comparison the algorithm makes is within 1e-9 (relative) of flipping."""
    eps = Fraction(1, 10**9)
    for fi, fr in enumerate(frames):
        nxt = frames[fi + 1] if fi + 1 < len(frames) else []
        for ji, a in enumerate(fr):
            for other in (fr[ji + 1 :], nxt):
                for b in other:
                    q = d2(a, b)
                    s = (Fraction(a[1]) + Fraction(b[1])) ** 2
                    if q != s and abs(q - s) <= eps * max(q, s):
                        return True
                    if q == s:
                        return True  # float sum of radii may round either way
                    if cut2 is not None and cut2 >= 0 and abs(q - cut2) <= eps * max(q, cut2, Fraction(1, 10**6)):
                        return True
        vals = sorted((d2(a, b), (tuple(a[0]), tuple(b[0]))) for a in fr for b in nxt)
        for (v1, k1), (v2, k2) in zip(vals, vals[1:]):
            if v1 == v2:
                if v1 != 0 and k1 != k2 and set(k1) != set(k2):
                    return True
            elif v2 - v1 <= eps * v2:
                return True
    return False


def _random_chunk(args):
    seeds = args
    core.setup_repo_import()
    from pde import CartesianGrid

    traces = []
    skipped = 0
    for sd in seeds:
        rng = random.Random(sd)
        dim, L, periodic, frames, method, max_dist = _gen_course(rng)
        d2 = _exact_metric(dim, L, periodic)
        cut2 = None if max_dist is None else (Fraction(-1) if max_dist < 0 else Fraction(max_dist) ** 2)
        # exact Fractions of the doubles actually handed to the code
        if _knife_edge(frames, d2, cut2):
            skipped += 1
            continue
        grid = CartesianGrid([[0, L]] * dim, 8, periodic=periodic) if periodic else None
        times = TIME_POOLS[sd % len(TIME_POOLS)](len(frames))
        res = run_impl(frames, times, method, grid, max_dist)
        tr = project(frames, method, d2=d2, cut2=cut2)
        tr["tracks"] = res.get("tracks", [])
        nonov = all(not tr["ov"][fi][ji] or all(o[0] != fi + 1 for o in tr["ov"][fi][ji])
                    for fi in range(len(frames)) for ji in range(len(frames[fi])))
        traces.append({"seed": sd, "trace": tr, "res": res, "nonov": nonov,
                       "input": {"dim": dim, "L": L, "periodic": periodic, "frames": frames,
                                 "method": method, "max_dist": max_dist, "times": [float(t) for t in times]}})
    return traces, skipped


def random_traces(out, pid, n, seed):
    seeds = [seed * 1000003 + i for i in range(n)]
    size = max(1, n // (core.NCPU * 2))
    chunks = [seeds[i : i + size] for i in range(0, n, size)]
    import multiprocessing as mp

    with mp.get_context("fork").Pool(core.NCPU) as pool:
        results = pool.map(_random_chunk, chunks)
    cases = []
    skipped = 0
    for t, s in results:
        cases += t
        skipped += s
    verdicts, tlcres = judge([c["trace"] for c in cases])
    out.parts["trace_validation"] = {"traces": len(cases), "tlc_states_generated": tlcres}
    out.transitions += tlcres
    deviations = 0
    linked = 0
    for c, (vr, vj) in zip(cases, verdicts):
        out.evaluations += 1
        if any(len(t) > 1 for t in c["trace"]["tracks"]):
            linked += 1
            out.nontriv(("rnd", c["seed"]))
        # the spec's own run must satisfy every clause (else the model is wrong -> machinery)
        for cl in C06_CLAUSES + C07_CLAUSES:
            if not vr[cl]:
                raise core.MachineryError(f"spec run violates {cl} on seed {c['seed']}")
        res = c["res"]
        clean = "error" not in res and not (res["altered"] or res["input_modified"] or res["aliased"])
        if vr["conform"] and clean:
            continue
        if not classify(out, pid, {"random_seed": c["seed"], **c["input"], "got": res,
                                   "expected_conform": vr["conform"]}, vj if "error" not in res else None, res):
            deviations += 1
    if cases:
        out.sample({"random_trace": {k: cases[0]["trace"][k] for k in ("method", "n", "tracks")}})
    out.extra["random_traces_with_links"] = linked
    return deviations, len(cases), skipped
