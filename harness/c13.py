"""C13 — a perturbed droplet's volume, surface, curvature and outline match its shape (Harmonics.tla).

spec (exact)  : mode bookkeeping k <-> (l, m), count/optimal, the (sin, cos) pairing of 2-D amplitudes, and the first-order
                curvature coefficients (n^2 - 1, (l^2 + l - 2)/2) are checked by TLC (bijection for k <= 120, translation
                modes flat, no zeroth mode); TLC enumerates class x active modes x signs x radius exponent.
spec -> code  : for every configuration the real droplet (amplitudes = sign * eps) is built: the index functions must equal
                the spec's; interface_curvature must equal (1/R)(1 + sum a_k h_k Y_k) with the spec's h_k to O(eps^2) at many
                directions, also superposed and for every radius; interface_position and the triangulation vertices must lie
                at centre + R(dir) dir with R from an independent evaluation of the series; volume_approx - volume = O(eps^2);
                zero amplitudes reduce to the sphere.
numeric oracle: at finite amplitudes, volume and surface area are compared with independent quadrature of the documented
                interface distance (this part is not model checking).
"""

from __future__ import annotations

import json
import math
import warnings

import numpy as np

from . import core
from .c03 import interface_distance_ref, real_harmonic

EPS = 2.0**-12
CLS = {"P2": "PerturbedDroplet2D", "P3": "PerturbedDroplet3D", "PA": "PerturbedDroplet3DAxisSym"}


def build(rec, eps, shift=True):
    from droplets import droplets as D

    n = max([m["i"] for m in rec["modes"]] + [1])
    amps = np.zeros(n)
    for m in rec["modes"]:
        amps[m["i"] - 1] = m["sign"] * eps
    R = 2.0 ** rec["rexp"]
    cls = getattr(D, CLS[rec["cls"]])
    if rec["cls"] == "P2":
        pos = np.array([0.3, -1.2]) if shift else np.zeros(2)
    elif rec["cls"] == "P3":
        pos = np.array([0.3, -1.2, 2.0]) if shift else np.zeros(3)
    else:
        pos = np.array([0.0, 0.0, 1.7 if shift else 0.0])
    return cls(pos, R, 0.5 * R, amps), amps, R, pos


def directions(cls, rng, n=24):
    if cls == "P2":
        phi = np.r_[0.0, np.pi / 2, np.pi, rng.uniform(0, 2 * np.pi, n)]
        return (phi,)
    theta = np.r_[0.0, np.pi / 2, np.pi, rng.uniform(0.05, np.pi - 0.05, n)]
    phi = np.r_[0.0, 0.0, 0.0, rng.uniform(0, 2 * np.pi, n)]
    return (theta, phi)


def unit(cls, ang):
    if cls == "P2":
        return np.stack([np.cos(ang[0]), np.sin(ang[0])], axis=-1)
    t, p = ang
    return np.stack([np.sin(t) * np.cos(p), np.sin(t) * np.sin(p), np.cos(t)], axis=-1)


def harmonic_of(cls, mode, ang):
    if cls == "P2":
        n, kind = mode
        return np.sin(n * ang[0]) if kind == 1 else np.cos(n * ang[0])
    l, m = mode
    return real_harmonic(l, m, ang[0], ang[1])


def check_config(rec, idx, heavy):
    from droplets.tools import spherical as S

    fails = []
    rng = np.random.default_rng(idx)
    c = rec["cls"]
    name = CLS[c]
    # ---- (i) bookkeeping against the real index functions
    for m in rec["modes"]:
        if c == "P3":
            l, mm = S.spherical_index_lm(m["i"])
            if [l, mm] != m["mode"] or S.spherical_index_k(l, mm) != m["i"]:
                fails.append("spherical_index_lm / spherical_index_k differ from k = l (l + 1) + m")
    drop, amps, R, pos = build(rec, EPS)
    ang = directions(c, rng)
    args = ang if c != "PA" else (ang[0],)
    with warnings.catch_warnings():
        warnings.simplefilter("ignore")
        # ---- interface distance and position
        try:
            dist = np.asarray(drop.interface_distance(*args))
            ref = interface_distance_ref(name, R, amps, ang[0], ang[1] if len(ang) > 1 else ang[0])
            if np.max(np.abs(dist - ref)) > 1e-12 * R:
                fails.append("interface_distance differs from the documented series")
            posn = np.asarray(drop.interface_position(*(ang if c != "P2" else ang)))
            want = pos[None, :] + ref[:, None] * unit(c, ang)
            if posn.shape != want.shape or np.max(np.abs(posn - want)) > 1e-12 * max(1.0, R):
                fails.append("interface_position is not centre + distance * direction")
        except Exception as exc:  # noqa: BLE001
            fails.append(f"interface_distance/position raised {type(exc).__name__}")
        # ---- (ii) first-order curvature with the spec's coefficients
        try:
            kap = np.asarray(drop.interface_curvature(*args))
            lin = np.ones_like(kap)
            for m in rec["modes"]:
                lin = lin + m["sign"] * EPS * (m["coeff"][0] / m["coeff"][1]) * harmonic_of(c, m["mode"], ang)
            lin = lin / R
            scale = 1 + sum(abs(m["coeff"][0] / m["coeff"][1]) for m in rec["modes"])
            if np.max(np.abs(kap - lin)) > 40 * scale**2 * EPS**2 / R:
                fails.append("interface_curvature differs from the first-order mean curvature (1/R)(1 + sum a_k h_k Y_k)")
        except Exception as exc:  # noqa: BLE001
            fails.append(f"interface_curvature raised {type(exc).__name__}")
        # ---- queries do not change the droplet: same answers when asked again, same data
        try:
            before = drop.data.tobytes()
            k1 = np.asarray(drop.interface_curvature(*args))
            d1 = np.asarray(drop.interface_distance(*args))
            k2 = np.asarray(drop.interface_curvature(*args))
            if c == "P2":
                _ = drop.volume, drop.surface_area
            else:
                _ = drop.volume_approx
            if drop.data.tobytes() != before or not np.array_equal(k1, k2) or np.max(np.abs(d1 - ref)) > 1e-12 * R:
                fails.append("querying curvature/distance/volume changes the droplet or later answers")
        except Exception as exc:  # noqa: BLE001
            fails.append(f"repeated queries raised {type(exc).__name__}")
        # ---- radius is only a unit: at R' = s R (s from 1e-9 to 1e9) curvature scales with 1/s, distance with s
        try:
            for sc in (1e-9, 1e-4, 1e5, 1e9):
                big, _, _, _ = build(rec, EPS)
                big.radius = R * sc
                kb = np.asarray(big.interface_curvature(*args))
                k0 = np.asarray(drop.interface_curvature(*args))
                if not np.all(np.isfinite(kb)) or np.max(np.abs(kb * sc - k0)) > 1e-9 * np.max(np.abs(k0)):
                    fails.append(f"curvature does not scale with 1 / radius at radius {R * sc:g}")
            # positions for one, two, three, four directions at a time are the rows of the answer for all directions
            allp = np.asarray(drop.interface_position(*args))
            for nd in (1, 2, 3, 4):
                sub = [np.asarray(a)[:nd] for a in args]
                pp = np.asarray(drop.interface_position(*sub))
                if pp.shape != allp[:nd].shape or np.max(np.abs(pp - allp[:nd])) > 1e-12 * R:
                    fails.append(f"interface positions for {nd} directions differ from the same directions among many")
        except Exception as exc:  # noqa: BLE001
            fails.append(f"scaling / direction-count queries raised {type(exc).__name__}: {exc}")
        # ---- zero amplitudes reduce to the sphere
        z, _, _, _ = build({**rec, "modes": []}, 0.0)
        try:
            kz = np.asarray(z.interface_curvature(*args))
            if kz.shape != np.asarray(args[0]).shape:
                fails.append(f"zero amplitudes: curvature at {np.asarray(args[0]).shape} directions has shape {kz.shape}")
            if np.max(np.abs(kz - 1 / R)) > 1e-15 / R:
                fails.append("zero amplitudes: curvature is not 1 / R")
            # one direction at a time (plain floats), as for a sphere
            for j in (0, len(np.atleast_1d(args[0])) // 2):
                one = [float(np.atleast_1d(a)[j]) for a in args]
                k1s = z.interface_curvature(*one)
                if np.ndim(k1s) != 0 or abs(float(k1s) - 1 / R) > 1e-15 / R:
                    fails.append("zero amplitudes: curvature at a single direction is not the number 1 / R")
                if abs(float(drop.interface_curvature(*one)) - float(np.atleast_1d(drop.interface_curvature(*args))[j])) > 1e-15 / R:
                    fails.append("curvature at a single direction differs from the same direction in an array")
            if np.max(np.abs(np.asarray(z.interface_distance(*args)) - R)) != 0:
                fails.append("zero amplitudes: interface distance is not R")
            if c == "P2" and (abs(z.volume - math.pi * R * R) > 1e-14 * R * R or abs(z.surface_area - 2 * math.pi * R) > 1e-9 * R):
                fails.append("zero amplitudes: 2-D volume / surface are not the circle's")
            if c != "P2" and abs(z.volume_approx - 4 * math.pi / 3 * R**3) > 1e-14 * R**3:
                fails.append("zero amplitudes: volume_approx is not the sphere's")
        except Exception as exc:  # noqa: BLE001
            fails.append(f"zero-amplitude droplet raised {type(exc).__name__}")
        # ---- (iii) approximate volume agrees with the exact one to first order
        if c != "P2":
            try:
                exact = 4 * math.pi / 3 * R**3 * 1.0 + R**3 * sum((m["sign"] * EPS) ** 2 for m in rec["modes"])
                if abs(drop.volume_approx - exact) > 10 * len(amps) * EPS**2 * R**3:
                    fails.append("volume_approx differs from the exact volume at first order")
            except Exception as exc:  # noqa: BLE001
                fails.append(f"volume_approx raised {type(exc).__name__}")
        if heavy:
            fails += finite_amplitude(rec, idx)
    return sorted(set(fails))


def finite_amplitude(rec, idx):
    """volume / surface / triangulation at finite amplitude against independent quadrature"""
    fails = []
    c = rec["cls"]
    name = CLS[c]
    rng = np.random.default_rng(1000 + idx)
    a = float(rng.uniform(0.05, 0.25))
    drop, amps, R, pos = build(rec, a)
    if c == "P2":
        phi = np.linspace(0, 2 * np.pi, 4096, endpoint=False)
        r = interface_distance_ref(name, R, amps, phi, phi)
        k = np.fft.fftfreq(len(phi), 1 / len(phi))
        dr = np.real(np.fft.ifft(1j * k * np.fft.fft(r)))
        vol = 0.5 * np.sum(r**2) * (2 * np.pi / len(phi))
        arc = np.sum(np.sqrt(r**2 + dr**2)) * (2 * np.pi / len(phi))
        if abs(drop.volume - vol) > 1e-10 * vol:
            fails.append("2-D volume differs from the area enclosed by the interface")
        if abs(drop.surface_area - arc) > 1e-4 * arc:  # the implementation uses a 256-point sum
            fails.append("2-D surface area differs from the length of the interface")
        drop.amplitudes = 0.5 * np.asarray(amps)
        r_half = interface_distance_ref(name, R, 0.5 * np.asarray(amps), phi, phi)
        if abs(drop.volume - 0.5 * np.sum(r_half**2) * (2 * np.pi / len(phi))) > 1e-10 * vol:
            fails.append("2-D volume does not follow a change of the amplitudes of the same object")
        drop.amplitudes = np.asarray(amps)
        d2 = drop.copy()
        d2.volume = 2.5 * vol
        if abs(d2.volume - 2.5 * vol) > 1e-12 * vol or np.any(d2.amplitudes != drop.amplitudes):
            fails.append("2-D volume setter")
    else:
        xs, ws = np.polynomial.legendre.leggauss(48)
        theta = np.arccos(xs)
        phi = np.linspace(0, 2 * np.pi, 96, endpoint=False)
        T, P = np.meshgrid(theta, phi, indexing="ij")
        r = interface_distance_ref(name, R, amps, T, P)
        vol = np.sum(ws[:, None] * r**3 / 3) * (2 * np.pi / len(phi))
        try:
            v = drop.volume
            if abs(v - vol) > 1e-6 * vol:
                fails.append("3-D volume differs from the volume enclosed by the interface")
            # the same object after its shape was changed in place (amplitudes scaled by 1/2, then the radius doubled):
            # every reported quantity follows the shape the droplet has NOW
            drop.amplitudes = 0.5 * np.asarray(amps)
            r_half = interface_distance_ref(name, R, 0.5 * np.asarray(amps), T, P)
            vol_half = np.sum(ws[:, None] * r_half**3 / 3) * (2 * np.pi / len(phi))
            if abs(drop.volume - vol_half) > 1e-6 * vol_half:
                fails.append("3-D volume does not follow a change of the amplitudes of the same object")
            drop.radius = 2 * R
            if abs(drop.volume - 8 * vol_half) > 8e-6 * vol_half:
                fails.append("3-D volume does not follow a change of the radius of the same object")
            drop.radius = R
            drop.amplitudes = np.asarray(amps)
        except NotImplementedError:
            pass  # the class does not report a volume
    try:
        tri = drop.get_triangulation(0.4 * R)
        verts = np.asarray(tri["vertices"]) - pos[None, :]
        d = np.linalg.norm(verts, axis=1)
        if c == "P2":
            ang = np.arctan2(verts[:, 1], verts[:, 0])
            ref = interface_distance_ref(name, R, amps, ang, ang)
        else:
            th = np.arccos(np.clip(verts[:, 2] / d, -1, 1))
            ph = np.arctan2(verts[:, 1], verts[:, 0])
            ref = interface_distance_ref(name, R, amps, th, ph)
        if np.max(np.abs(d - ref)) > 1e-9 * R:
            fails.append("triangulation vertices do not lie on the interface")
    except NotImplementedError:
        pass
    except Exception as exc:  # noqa: BLE001
        fails.append(f"get_triangulation raised {type(exc).__name__}: {exc}")
    return fails


def classify(b):
    f = " ".join(b["fails"])
    if b["cls"] in ("P3", "PA") and "first-order mean curvature" in f:
        return "curvature3d-last-mode-and-radius-scaling"
    return None


def _chunk(args):
    items, heavy_mod = args
    core.setup_repo_import()
    bad = []
    for idx, rec in items:
        try:
            last = max([m["i"] for m in rec["modes"]] + [0])
            fails = check_config(rec, idx, heavy=(idx % heavy_mod == 0) or (rec["cls"] == "P3" and last in (3, 8, 15) and rec["rexp"] == 0))
        except Exception as exc:  # noqa: BLE001
            fails = [f"raised {type(exc).__name__}: {exc}"]
        if fails:
            bad.append({"index": idx, **rec, "fails": fails})
    return len(items), bad


def run(out: core.Outcome) -> None:
    import multiprocessing as mp

    core.setup_repo_import()
    out.rule = (
        "TLC checks the mode bookkeeping and coefficient identities and enumerates class x active modes x signs x radius; "
        "each configuration is compared with the real droplet: index functions, interface distance/position against the "
        "documented series, first-order curvature with the spec's coefficients (superposition, all radii), volume_approx, "
        "zero-amplitude reduction; a shard additionally against independent quadrature at finite amplitude and the "
        "triangulation. Non-trivial = configuration with at least one active mode."
    )
    name = "q" if out.tier == "quick" else "t"
    r = core.tlc("MC_Harmonics", f"MC_Harmonics_{name}.cfg", timeout=1800)
    if r.violated:
        out.violation({"tlc_config": name, "violated": r.violated, "tlc_tail": r.stdout[-3000:]})
        return
    out.add_tlc(name, r)
    items = list(enumerate(r.printed))
    heavy_mod = 12 if out.tier == "quick" else 150
    size = max(1, len(items) // (core.NCPU * 8))
    with mp.get_context("fork").Pool(core.NCPU) as pool:
        results = pool.map(_chunk, [(items[i : i + size], heavy_mod) for i in range(0, len(items), size)])
    nbad = 0
    for cnt, bad in results:
        out.evaluations += cnt
        nbad += len(bad)
        for b in bad:
            out.violation({"config": name, **b}, signature=classify(b))
    out.nontrivial_count = sum(1 for _, rec in items if rec["modes"])
    out.parts[name].update(configurations=len(items), finite_amplitude_checks=len(items) // heavy_mod, mismatches=nbad)
    out.sample(r.printed[len(r.printed) // 2])
    out.explanation = out.rule
    out.assumptions = [
        f"first-order statements are tested at amplitude {EPS} with an O(eps^2) allowance",
        "the values of the real spherical harmonics come from an independent evaluation through associated Legendre functions",
        "volumes/surface areas at finite amplitude are compared with quadrature of the documented series (numeric oracle)",
        "quantities a class does not report (NotImplementedError) are not judged",
    ]


def replay(out, path):
    core.setup_repo_import()
    case = json.loads(open(path).read())
    fails = check_config(case, case["index"], heavy=True)
    print("fails:", fails)
    if fails:
        print(f"VIOLATION property=C13 replay={path}")
        return 1
    return 0
