"""Symmetric grids (polar, spherical, cylindrical) for C01 and C02: LocateSym.tla / MC_LocateSym.tla."""

from __future__ import annotations

import math
from fractions import Fraction

import numpy as np

from . import core, locate

# the last two are NOT dyadic (with an origin that is not a multiple of the spacing): every cell-edge coordinate is then
# rounded, which is where a test like z_min <= z < z_max on computed positions goes wrong (F25)
H = [0.25, 0.5, 0.125, 0.1, 0.37]

C02_QUICK = ["q_rad_free", "q_cyl_free", "q_cylp_free"]
C02_THOROUGH = C02_QUICK + ["t_rad_free", "t_cyl_free", "t_cylp_free", "t_cyl_free2", "t_cylp_free2", "t_cylp_free3", "t_cylp_free4"]
C01_QUICK = ["q_rad_ren", "q_cyl_ren", "q_cylp_ren", "q_cylp_ren9"]
C01_THOROUGH = C01_QUICK + ["t_cyl_ren", "t_cylp_ren"]


def cfg_params(name):
    txt = (core.SPECS / f"MC_LocateSym_{name}.cfg").read_text()
    v = {}
    for line in txt.splitlines():
        line = line.strip()
        if "=" in line and "<-" not in line:
            k, val = [x.strip() for x in line.split("=", 1)]
            v[k] = val.strip('"')
    return dict(family=v["Family"], nr=int(v["NrC"]), nz=int(v["NzC"]), pz=v["PZC"] == "TRUE",
                dr=int(v["DR"]), dz=int(v["DZ"]), z0=int(v["Z0P"]) - 16, mode=v["Mode"])


def _replay_chunk(args):
    items, p = args
    core.setup_repo_import()
    from pde import CylindricalSymGrid, PolarSymGrid, ScalarField, SphericalSymGrid

    from droplets import SphericalDroplet, image_analysis

    bad, traces, nontriv = [], [], 0
    for idx, it in items:
        # rendering decides `distance < radius` in doubles: dyadic scales only (exact); binary images: all scales
        hi = idx % (3 if p["mode"] == "render" else len(H))
        h = H[hi]
        dr, dz, z0 = p["dr"] * h, p["dz"] * h, p["z0"] * h
        if hi >= 3:
            z0 += 0.013
        nr, nz = p["nr"], p["nz"]
        fails = []
        case = {"params": p, "h": h, "mask": it["mask"], "drop": it["drop"]}
        try:
            if p["family"] == "radial":
                sph = idx % 2 == 1
                grid = (SphericalSymGrid if sph else PolarSymGrid)(nr * dr, nr)
                dim = 3 if sph else 2
                m = np.zeros(nr, bool)
                for c in it["mask"]:
                    m[c[0]] = True
                case["grid"] = "spherical" if sph else "polar"
            else:
                grid = CylindricalSymGrid(nr * dr, (z0, z0 + nz * dz), (nr, nz), periodic_z=p["pz"])
                dim = 3
                m = np.zeros((nr, nz), bool)
                for c in it["mask"]:
                    m[c[0], c[1]] = True
            if p["mode"] == "render":
                R = math.sqrt(it["drop"]["r2"]) * h
                pos = np.zeros(dim)
                if p["family"] == "cyl":
                    pos[2] = it["drop"]["zc"] * h + (z0 - p["z0"] * h)
                d0 = SphericalDroplet(pos, R)
                field = d0.get_phase_field(grid)
                if not np.array_equal(field.data > 0.5, m):
                    fails.append("rendered mask differs from the cells whose centres the droplet covers")
                with locate.capture_overlap_removal() as calls:
                    res = image_analysis.locate_droplets(field)
            else:
                field = ScalarField(grid, m, dtype=bool)
                with locate.capture_overlap_removal() as calls:
                    res = image_analysis.locate_droplets_in_mask(field)
            if p["family"] == "radial":
                if it["radius"] < 0:
                    if len(res) != 0:
                        fails.append("droplet reported although the innermost cell is not covered")
                else:
                    if len(res) != 1:
                        fails.append(f"{len(res)} droplets for a cluster at the origin")
                    else:
                        d = res[0]
                        if not np.all(d.position == 0) or d.dim != dim:
                            fails.append("droplet not at the origin / wrong dimension")
                        if abs(d.radius - it["radius"] * dr) > 1e-12 * max(1, nr * dr):
                            fails.append(f"radius {d.radius} != outer edge {it['radius'] * dr}")
                        if p["mode"] == "render" and abs(d.radius - R) > dr / 2 + 1e-12:
                            fails.append("radius not within half a radial spacing of the original")
                        nontriv += 1
            else:
                cands = calls[0]["before"] if calls else list(res)
                surv = calls[0]["after"] if calls else list(res)
                exp = it["res"]
                shift = nz * dz if it["shifted"] else 0.0
                if len(cands) != len(exp):
                    fails.append(f"{len(cands)} candidates for {len(exp)} on-axis components")
                else:
                    for d, e in zip(cands, exp):
                        vol = math.pi * dr * dr * dz * e["w"]
                        if abs(d.volume - vol) > 1e-9 * vol:
                            fails.append("volume differs from total cell volume of the component")
                        z = z0 + dz * (Fraction(e["pn"], e["pd"]) + Fraction(1, 2)) - shift
                        if abs(float(d.position[2]) - float(z)) > 1e-9 * max(1.0, nz * dz):
                            fails.append(f"axial position {float(d.position[2])} != centre of the component {float(z)}")
                        if d.position[0] != 0 or d.position[1] != 0:
                            fails.append("droplet not on the axis")
                if p["mode"] != "render" and [id(o) for o in res] != [id(o) for o in surv]:
                    fails.append("returned emulsion differs from survivors")
                if p["mode"] == "render":
                    if len(res) != 1:
                        fails.append(f"{len(res)} droplets returned for one original")
                    elif abs(float(res[0].position[2]) - pos[2]) > dz / 2 + 1e-9:
                        fails.append("axial position not within half a cell of the original")
                if len(exp) >= 1:
                    nontriv += 1
                if not fails and len(cands) >= 2 and calls:
                    d2 = locate.exact_d2([(0, 1)] * 3, [False] * 3)
                    tr = locate.overlap_trace(cands, surv, d2)
                    if tr is not None:
                        traces.append((case, tr))
        except Exception as exc:  # noqa: BLE001
            fails.append(f"raised {type(exc).__name__}: {exc}")
        if fails:
            bad.append({**case, "fails": sorted(set(fails)), "expected": {k: it[k] for k in ("radius", "spanning", "res")}})
    return len(items), nontriv, bad, traces


def signature(b):
    f = " ".join(b["fails"])
    if "DimensionError" in f and b["params"]["family"] == "cyl":
        return "cyl-offaxis-only-raises"
    if "axial position" in f and b["params"]["family"] == "cyl" and "raised" not in f and "volume" not in f \
            and "candidates for" not in f:
        return "cyl-missing-half-cell-offset"
    return None


def _run(out: core.Outcome, names):
    import multiprocessing as mp

    for name in names:
        p = cfg_params(name)
        r = core.tlc("MC_LocateSym", f"MC_LocateSym_{name}.cfg", timeout=3000)
        if r.violated:
            out.violation({"tlc_config": name, "violated": r.violated, "tlc_tail": r.stdout[-3000:]})
            continue
        r.require_actions(["SRadial"] if p["family"] == "radial" else ["SStart"])
        out.add_tlc("sym_" + name, r)
        items = list(enumerate(r.printed))
        size = max(1, len(items) // (core.NCPU * 4))
        with mp.get_context("fork").Pool(core.NCPU) as pool:
            results = pool.map(_replay_chunk, [(items[i : i + size], p) for i in range(0, len(items), size)])
        traces = []
        nbad = 0
        for n, nt, bad, trs in results:
            out.evaluations += n
            out.nontrivial_count += nt
            traces += trs
            for b in bad:
                nbad += 1
                out.violation({"config": name, **b}, signature=signature(b))
        out.parts["sym_" + name]["replayed"] = len(items)
        out.parts["sym_" + name]["mismatches"] = nbad
        rows, st = core.judge_traces("TraceOverlap", [t for _, t in traces])
        out.transitions += st
        for (case, tr), row in zip(traces, rows):
            failed = [c for c in ("inrange", "subsequence", "separated", "dominated") if not row["judge"][c]]
            if failed:
                out.violation({"config": name, **case, "overlap_stage_failed": failed, "trace": tr})
        if r.printed:
            out.sample({"config": name, "case": r.printed[len(r.printed) // 2]})


def run_c01(out):
    _run(out, C01_QUICK if out.tier == "quick" else C01_THOROUGH)


def run_c02(out):
    # earlier designs of the implementation are refuted by TLC: the central filter with a closed interval (before the
    # repair of F18), abandoning the padded analysis when a cluster winds around the axis (F21).  Recorded as an
    # observation only: under the reading "centre of mass = volume-weighted" the unweighted axial mean is refuted
    for cfg, inv, key in (("dev_cylp_closed", "PeriodicCorrect", "closed_central_filter"),
                          ("dev_cylp_fallback", "PeriodicCorrect", "fallback_on_winding_cluster"),
                          ("dev_cyl_count", "SingleCorrect", "observation_volume_weighted_reading")):
        r0 = core.tlc("MC_LocateSym", f"MC_LocateSym_{cfg}.cfg", timeout=600)
        if r0.violated != inv:
            raise core.MachineryError(f"{cfg} should violate {inv}, got {r0.violated}")
        out.parts[key + "_refuted_by_TLC"] = {"violated": r0.violated, "states": r0.generated}
    staircase(out)
    _run(out, C02_QUICK if out.tier == "quick" else C02_THOROUGH)


def staircase(out):
    """F28 (open): a non-winding on-axis component whose unwrapped axial extent exceeds the three-fold padded image.  TLC
    refutes PeriodicCorrect for the spec's model of the implementation on exactly this image; the real code is run on it
    and, as long as it cuts the component, the violation is reported under the finding's signature."""
    core.setup_repo_import()
    from pde import CylindricalSymGrid, ScalarField

    from droplets import image_analysis

    r0 = core.tlc("MC_LocateSym", "MC_LocateSym_dev_cylp_staircase.cfg", timeout=600)
    if r0.violated != "PeriodicCorrect":
        raise core.MachineryError(f"dev_cylp_staircase should violate PeriodicCorrect, got {r0.violated}")
    out.parts["staircase_longer_than_padding_refuted_by_TLC"] = {"violated": r0.violated, "states": r0.generated}
    nr, nz = 14, 4
    for h, z0 in ((0.25, 0.0), (0.1, 0.013)):
        grid = CylindricalSymGrid(nr * h, (z0, z0 + nz * h), (nr, nz), periodic_z=True)
        m = np.zeros((nr, nz), bool)
        for i in range(nr - 1):
            m[i, i % nz] = True
            m[i, (i + 1) % nz] = True
        res = image_analysis.locate_droplets_in_mask(ScalarField(grid, m, dtype=bool))
        vol_r, dz = grid.cell_volume_data
        true = float((np.outer(vol_r, dz) * m).sum())
        out.evaluations += 1
        if len(res) != 1 or abs(float(res[0].volume) - true) > 1e-9 * true:
            out.violation({"config": "dev_cylp_staircase", "h": h, "z0": z0, "mask": [list(map(int, c)) for c in np.argwhere(m)],
                           "fails": [f"{len(res)} droplets with volumes {[float(d.volume) for d in res]} for one on-axis component of "
                                     f"volume {true} (a staircase around the periodic axis, 3.5 periods long, not winding)"]},
                          signature="cylp-nonwinding-longer-than-padding")
