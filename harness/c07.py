"""C07 — tracks follow droplet identity (Tracking.tla, declarative link properties)."""
from . import tracking


def run(out):
    tracking.run(out, "C07")
