"""C10 — overlap removal leaves a separated subset; distance queries agree (Overlap.tla).

spec -> code : every emulsion of the lattice worlds of MC_Overlap_*.cfg (TLC checks Separated,
               Subsequence, Dominated, StrictMaxSurvives, NoNeedlessRemoval, Termination) is
               replayed through Emulsion.remove_overlapping; the survivors must be the same
               OBJECTS in the same order, a second call must remove nothing, and the distance
               queries must equal sqrt(q) (- radii) for the spec's exact integer q.
code -> spec : random float emulsions (chains of overlaps, polydisperse, periodic boxes,
               Emulsion.from_random output); order/predicate projection in exact rationals;
               TraceOverlap.tla validates conformance and judges the implementation's state.
"""

from __future__ import annotations

import math
import random
from fractions import Fraction

import numpy as np

from . import core

CLAUSES = ("inrange", "subsequence", "separated", "dominated", "strictmax", "noneedless")

CFGS = {
    # name: (L, dim, periodic, M)
    "q1": (5, 1, True, 0),
    "q2": (6, 1, False, 1),
    "q3": (3, 2, True, -1),
    "t1": (7, 1, True, 0),
    "t2": (7, 1, False, -1),
    "t3": (7, 1, False, 2),
    "t4": (4, 2, True, 0),
    "t5": (4, 2, False, 1),
    "t6": (3, 2, True, 0),
    "t7": (2, 3, True, -2),
    "t8": (3, 3, False, 0),
    "t9": (5, 1, True, -2),
    # mixed periodicity masks: (L, dim, periodic, M, open axes)
    "q4": (4, 2, True, 0, (2,)),
    "t10": (3, 3, True, 0, (1, 3)),
}
QUICK = ["q1", "q2", "q3", "q4", "t1"]
THOROUGH = list(CFGS)


def _grid(dim, L, periodic, open_axes=()):
    from pde import UnitGrid

    return UnitGrid([L] * dim, periodic=[(a + 1) not in open_axes for a in range(dim)]) if periodic else None


def _replay_chunk(args):
    items, params = args
    core.setup_repo_import()
    from droplets import DiffuseDroplet, Emulsion, SphericalDroplet

    L, dim, periodic, M, open_axes = params
    grid = _grid(dim, L, periodic, open_axes)
    bad = []
    nontriv = 0
    for idx, it in items:
        em_spec = it["em"]
        cls = SphericalDroplet if idx % 2 else DiffuseDroplet
        objs = [cls(np.array(d["p"], float), float(d["r"])) for d in em_spec]
        em = Emulsion(objs, copy=False)
        n = len(objs)
        fails = []
        got = None
        try:
            # ---- queries before removal
            q = it["q"]
            for sub in (False, True):
                dm = em.get_pairwise_distances(subtract_radius=sub, grid=grid)
                if dm.shape != (n, n):
                    fails.append("pairwise-shape")
                    continue
                for a in range(n):
                    if dm[a, a] != 0:
                        fails.append("pairwise-diagonal")
                    for b in range(n):
                        if a == b:
                            continue
                        ref = math.sqrt(q[a][b]) - ((em_spec[a]["r"] + em_spec[b]["r"]) if sub else 0)
                        if dm[a, b] != dm[b, a]:
                            fails.append("pairwise-asymmetric")
                        if abs(dm[a, b] - ref) > 1e-12 * max(1, abs(ref)):
                            fails.append("pairwise-value")
                        if sub:
                            ov = objs[a].overlaps(objs[b], grid=grid)
                            s = em_spec[a]["r"] + em_spec[b]["r"]
                            if bool(ov) != (q[a][b] < s * s):
                                fails.append("overlaps-vs-surface-distance")
            if not periodic and n >= 2:
                nd = em.get_neighbor_distances()
                for a in range(n):
                    ref = min(math.sqrt(q[a][b]) for b in range(n) if b != a)
                    if abs(nd[a] - ref) > 1e-12 * max(1, ref):
                        fails.append("neighbor-distance")
                # with subtract_radius the documented value is the surface distance to the (centre-)nearest
                # neighbour; if several neighbours are equally near, any of them is accepted.  For tied
                # radii this is the row minimum of the surface-distance matrix.
                nds = em.get_neighbor_distances(subtract_radius=True)
                for a in range(n):
                    qmin = min(q[a][b] for b in range(n) if b != a)
                    refs = [math.sqrt(q[a][b]) - em_spec[a]["r"] - em_spec[b]["r"]
                            for b in range(n) if b != a and q[a][b] == qmin]
                    if not any(abs(nds[a] - ref) <= 1e-12 * max(1, abs(ref)) for ref in refs):
                        fails.append("neighbor-surface-distance")
            # ---- removal
            em.remove_overlapping(min_distance=M, grid=grid)
            ids = {id(o): i + 1 for i, o in enumerate(objs)}
            got = [ids.get(id(o), 0) for o in em]
            if got != it["out"]:
                fails.append("survivors-differ")
            em.remove_overlapping(min_distance=M, grid=grid)
            if [ids.get(id(o), 0) for o in em] != got:
                fails.append("second-call-removes")
            for o, d in zip(objs, em_spec):
                if list(o.position) != [float(x) for x in d["p"]] or o.radius != d["r"]:
                    fails.append("droplet-altered")
        except Exception as exc:  # noqa: BLE001
            fails.append(f"raised {type(exc).__name__}: {exc}")
        if len(it["out"]) < n:
            nontriv += 1
        if fails:
            bad.append({"em": em_spec, "expected": it["out"], "got": got, "fails": sorted(set(fails)), "q": it["q"]})
    return len(items), nontriv, bad


# ------------------------------------------------------------- exact projection


def less_surface(q1, s1, q2, s2):
    """sqrt(q1) - s1 < sqrt(q2) - s2 for Fractions, q >= 0 (exact)."""
    c = s1 - s2  # sqrt(q1) < sqrt(q2) + c
    if c >= 0:
        lhs = q1 - q2 - c * c
        return lhs < 0 or lhs * lhs < 4 * c * c * q2
    rhs = q2 - q1 - c * c
    return rhs > 0 and 4 * c * c * q1 < rhs * rhs


def project(drops, d2, M, eps=Fraction(1, 10**9)):
    """drops: [(pos, r)] floats. Returns trace dict or None when a comparison is a knife-edge."""
    n = len(drops)
    Q = [[d2(drops[a], drops[b]) if a != b else Fraction(0) for b in range(n)] for a in range(n)]
    S = [[Fraction(drops[a][1]) + Fraction(drops[b][1]) for b in range(n)] for a in range(n)]
    Mf = Fraction(M)
    approx = [[math.sqrt(Q[a][b]) - float(S[a][b]) for b in range(n)] for a in range(n)]
    pairs = [(a, b) for a in range(n) for b in range(a + 1, n)]
    # knife-edge: any two surface distances / the threshold / radii closer than eps (but not exactly equal
    # by construction)
    scale = max([1.0] + [abs(approx[a][b]) for a, b in pairs])
    vals = sorted(pairs, key=lambda p: approx[p[0]][p[1]])
    for p, q in zip(vals, vals[1:]):
        if abs(approx[p[0]][p[1]] - approx[q[0]][q[1]]) < 1e-9 * scale:
            same = Q[p[0]][p[1]] == Q[q[0]][q[1]] and S[p[0]][p[1]] == S[q[0]][q[1]]
            if not same:
                return None
    for a, b in pairs:
        if abs(approx[a][b] - M) < 1e-9 * scale:
            return None
    rs = sorted({drops[i][1] for i in range(n)})
    for x, y in zip(rs, rs[1:]):
        if y - x < 1e-12 * max(1.0, y):
            return None
    # exact ranks by insertion with the exact comparator
    import functools

    def cmp(p, q):
        if less_surface(Q[p[0]][p[1]], S[p[0]][p[1]], Q[q[0]][q[1]], S[q[0]][q[1]]):
            return -1
        if less_surface(Q[q[0]][q[1]], S[q[0]][q[1]], Q[p[0]][p[1]], S[p[0]][p[1]]):
            return 1
        return 0

    order = sorted(pairs, key=functools.cmp_to_key(cmp))
    rank = {}
    r = 0
    for i, p in enumerate(order):
        if i > 0 and cmp(order[i - 1], p) != 0:
            r += 1
        rank[p] = r
    rk = [[(rank[(min(a, b), max(a, b))] if a != b else 1000000) for b in range(n)] for a in range(n)]

    def close(a, b):
        t = Mf + S[a][b]
        return t > 0 and Q[a][b] < t * t

    cl = [[(close(a, b) if a != b else False) for b in range(n)] for a in range(n)]
    rr = [rs.index(drops[i][1]) for i in range(n)]
    return {"n": n, "rk": rk, "cl": cl, "rr": rr}


def _gen_emulsion(rng):
    dim = rng.choice([1, 2, 2, 3])
    periodic = rng.random() < 0.5
    L = rng.choice([4.0, 10.0, 7.5])
    n = rng.randint(0, 9)
    style = rng.choice(["uniform", "chain", "crowd", "dupes", "satellite", "twins", "vanished"])
    if style == "uniform" and rng.random() < 0.3:
        # pairs that touch exactly at an irrational centre distance: (0,0) and (a,a) with radii a / sqrt 2 each
        drops = []
        for _ in range(rng.randint(1, 3)):
            a = rng.choice([1.0, 0.5, 1.5, 2.0])
            p = [rng.uniform(1, L - 3) for _ in range(dim)]
            q = [x + a for x in p] if dim > 1 else [p[0] + a * math.sqrt(2)]
            rr = a * math.sqrt(dim) / 2 if dim > 1 else a * math.sqrt(2) / 2
            drops += [(p, rr), (q, rr)]
        return dim, L, False, drops, rng.choice([0, -0.3])
    if style in ("twins", "vanished"):
        drops = []
        for _ in range(rng.randint(1, 4)):
            p = [rng.uniform(0, L) for _ in range(dim)]
            r = rng.uniform(0.3, 1.2)
            if style == "twins":
                # an overlapping pair whose radii differ by a relative 1e-6 .. 1e-9: the (barely) larger one must survive
                r2 = r * (1 + rng.choice([1e-6, 1e-8, 3e-9]))
                q = [x + rng.uniform(-0.5, 0.5) * r for x in p]
                pair = [(p, r2), (q, r)] if rng.random() < 0.6 else [(q, r), (p, r2)]
                drops += pair
            else:
                # a vanished droplet (radius exactly 0) strictly inside another one: its surface distance is negative
                drops.append((p, r))
                u = [rng.gauss(0, 1) for _ in range(dim)]
                nu = math.sqrt(sum(x * x for x in u)) or 1.0
                drops.append(([x + rng.uniform(0.1, 0.8) * r * y / nu for x, y in zip(p, u)], 0.0))
        if rng.random() < 0.5:
            rng.shuffle(drops)
        M = rng.choice([0, 0, 0.3, -0.2])
        return dim, L, periodic, drops, M
    if style == "satellite":
        # big droplets (possibly overlapping) each with tiny satellites just outside their surface
        drops = []
        c = [rng.uniform(L / 3, 2 * L / 3) for _ in range(dim)]
        for _ in range(rng.randint(1, 3)):
            R = rng.uniform(0.8, 1.6)
            p = [x + rng.uniform(-1.2, 1.2) for x in c]
            drops.append((p, R))
            for _ in range(rng.randint(0, 2)):
                r = rng.uniform(0.02, 0.1)
                u = [rng.gauss(0, 1) for _ in range(dim)]
                nu = math.sqrt(sum(x * x for x in u)) or 1.0
                gap = rng.uniform(0.01, 0.2)
                drops.append(([x + (R + r + gap) * y / nu for x, y in zip(p, u)], r))
        rng.shuffle(drops)
        M = rng.choice([0, 0, 0.3, -0.3])
        return dim, L, periodic, drops, M
    drops = []
    for i in range(n):
        if style == "chain" and drops:
            p0, r0 = drops[-1]
            r = rng.uniform(0.2, 1.5)
            p = [x + rng.uniform(-1, 1) * (r0 + r) * 0.6 for x in p0]
        else:
            r = rng.uniform(0.1, 2.0 if style == "crowd" else 0.9)
            p = [rng.uniform(0, L) for _ in range(dim)]
            if periodic and rng.random() < 0.25:
                p = [x + rng.choice([-2, -1, 1, 2, 3]) * L for x in p]   # a centre outside the fundamental cell
        if style == "dupes" and drops and rng.random() < 0.3:
            p, r = list(drops[rng.randrange(len(drops))][0]), rng.choice([r, drops[-1][1]])
        drops.append((p, r))
    M = rng.choice([0, 0, 0.3, -0.3, 1.0, -1.0, 2.5])
    return dim, L, periodic, drops, M


def _random_chunk(seeds):
    core.setup_repo_import()
    from pde import CartesianGrid

    from droplets import Emulsion, SphericalDroplet

    out = []
    skipped = 0
    for sd in seeds:
        rng = random.Random(sd)
        dim, L, periodic, drops, M = _gen_emulsion(rng)
        Lf = Fraction(L)

        def d2(a, b):
            s = Fraction(0)
            for x, y in zip(a[0], b[0]):
                d = abs(Fraction(x) - Fraction(y))
                if periodic:
                    d = d % Lf
                    d = min(d, Lf - d)
                s += d * d
            return s

        tr = project(drops, d2, M)
        if tr is None:
            skipped += 1
            continue
        grid = CartesianGrid([[0, L]] * dim, 4, periodic=True) if periodic else None
        objs = [SphericalDroplet(np.array(p, float), r) for p, r in drops]
        em = Emulsion(objs, copy=False)
        res = {}
        try:
            n = len(objs)
            qf = [[float(d2(drops[a], drops[b])) if a != b else 0.0 for b in range(n)] for a in range(n)]
            qfail = []
            for sub in (False, True):
                dm = em.get_pairwise_distances(subtract_radius=sub, grid=grid)
                for a in range(n):
                    if dm[a, a] != 0:
                        qfail.append("pairwise-diagonal")
                    for b in range(n):
                        if a != b:
                            ref = math.sqrt(qf[a][b]) - ((drops[a][1] + drops[b][1]) if sub else 0)
                            if dm[a, b] != dm[b, a]:
                                qfail.append("pairwise-asymmetric")
                            if abs(dm[a, b] - ref) > 1e-9 * max(1, abs(ref)):
                                qfail.append("pairwise-value")
                            if sub and abs(ref) > 1e-9 and bool(objs[a].overlaps(objs[b], grid=grid)) != (ref < 0):
                                qfail.append("overlaps-vs-surface-distance")
                            # whatever rounding does, the two answers of the library agree with each other: overlap
                            # exactly when ITS surface distance is negative (touching droplets: distance 0, no overlap)
                            if sub and bool(objs[a].overlaps(objs[b], grid=grid)) != bool(dm[a, b] < 0):
                                qfail.append("overlaps-vs-own-surface-distance")
            if not periodic and n >= 2:
                nd = em.get_neighbor_distances()
                nds = em.get_neighbor_distances(subtract_radius=True)
                for a in range(n):
                    qmin = min(qf[a][b] for b in range(n) if b != a)
                    if abs(nd[a] - math.sqrt(qmin)) > 1e-9 * max(1, math.sqrt(qmin)):
                        qfail.append("neighbor-distance")
                    refs = [math.sqrt(qf[a][b]) - drops[a][1] - drops[b][1] for b in range(n)
                            if b != a and qf[a][b] <= qmin * (1 + 1e-9) + 1e-300]
                    if not any(abs(nds[a] - ref) <= 1e-9 * max(1, abs(ref)) for ref in refs):
                        qfail.append("neighbor-surface-distance")
            if qfail:
                res["query_fails"] = sorted(set(qfail))
            em.remove_overlapping(min_distance=M, grid=grid)
            ids = {id(o): i + 1 for i, o in enumerate(objs)}
            res["out"] = [ids.get(id(o), 0) for o in em]
            em.remove_overlapping(min_distance=M, grid=grid)
            res["second"] = [ids.get(id(o), 0) for o in em]
        except Exception as exc:  # noqa: BLE001
            res["error"] = f"{type(exc).__name__}: {exc}"
        tr["out"] = res.get("out", [])
        out.append({"seed": sd, "trace": tr, "res": res,
                    "input": {"dim": dim, "L": L, "periodic": periodic, "drops": drops, "M": M}})
    return out, skipped


def _from_random_check(out, seed, n):
    """Emulsion.from_random stays inside the requested region and radius range."""
    core.setup_repo_import()
    from pde import CartesianGrid, UnitGrid

    from droplets import DiffuseDroplet, Emulsion, SphericalDroplet

    rng = random.Random(seed)
    for k in range(n):
        dim = rng.choice([1, 2, 3])
        lo = [rng.uniform(-5, 5) for _ in range(dim)]
        hi = [l + rng.uniform(0.5, 8) for l in lo]
        r0 = rng.uniform(0.05, 1.0)
        r1 = r0 + rng.choice([0, rng.uniform(0, 1)])
        use_grid = rng.random() < 0.5
        npr = np.random.default_rng(seed * 7919 + k)
        if use_grid:
            g = CartesianGrid(list(zip(lo, hi)), 4, periodic=rng.random() < 0.5)
            where = g
        else:
            where = list(zip(lo, hi))
        cls = rng.choice([SphericalDroplet, DiffuseDroplet])
        rem = rng.random() < 0.6
        em = Emulsion.from_random(rng.randint(0, 12), where, (r0, r1) if r1 > r0 else r0,
                                  remove_overlapping=rem, droplet_class=cls, rng=npr)
        out.evaluations += 1
        fails = []
        for d in em:
            if not (r0 <= d.radius <= r1):
                fails.append("radius-out-of-range")
            if any(not (l <= x <= h) for x, l, h in zip(d.position, lo, hi)):
                fails.append("position-outside-region")
            if type(d) is not cls:
                fails.append("wrong-class")
        if rem and len(em) > 1:
            dm = em.get_pairwise_distances(subtract_radius=True)
            if (dm[~np.eye(len(em), dtype=bool)] < 0).any():
                fails.append("from_random-overlapping-left")
        if fails:
            out.violation({"from_random": {"lo": lo, "hi": hi, "r": [r0, r1], "grid": use_grid, "k": k,
                                           "seed": seed}, "fails": sorted(set(fails))})
    # curvilinear grids: the droplets are points of the disc / ball / cylinder the grid describes, in Cartesian
    # coordinates of the grid's dimension
    from pde import CylindricalSymGrid, PolarSymGrid, SphericalSymGrid

    for k in range(max(4, n // 4)):
        kind = k % 4
        rad = rng.uniform(1.0, 6.0)
        zlo = rng.uniform(-3, 3)
        zhi = zlo + rng.uniform(1.0, 6.0)
        inner = rng.choice([0.0, 0.0, rad * rng.uniform(0.1, 0.6)])
        if kind == 0:
            g, dim = PolarSymGrid((inner, rad) if inner else rad, 4), 2
        elif kind == 1:
            g, dim = SphericalSymGrid((inner, rad) if inner else rad, 4), 3
        else:
            g, dim = CylindricalSymGrid(rad, (zlo, zhi), 4, periodic_z=(kind == 3)), 3
        r0 = rng.uniform(0.05, 0.5)
        r1 = r0 + rng.choice([0, rng.uniform(0, 0.5)])
        cls = rng.choice([SphericalDroplet, DiffuseDroplet])
        npr = np.random.default_rng(seed * 104729 + k)
        fails = []
        try:
            em = Emulsion.from_random(rng.randint(1, 10), g, (r0, r1) if r1 > r0 else r0,
                                      remove_overlapping=rng.random() < 0.5, droplet_class=cls, rng=npr)
        except Exception as exc:  # noqa: BLE001
            em = []
            fails.append(f"from_random raised {type(exc).__name__}")
        out.evaluations += 1
        for d in em:
            pos = np.asarray(d.position, float)
            if not (r0 <= d.radius <= r1):
                fails.append("radius-out-of-range")
            if type(d) is not cls:
                fails.append("wrong-class")
            if pos.shape != (dim,) or d.dim != dim:
                fails.append(f"droplet of dimension {pos.shape} on a grid of dimension {dim}")
                continue
            eps = 1e-12 * max(1.0, rad)
            if kind in (0, 1):
                rr = float(np.linalg.norm(pos))
                if not (inner - eps <= rr <= rad + eps):
                    fails.append("position-outside-region")
            else:
                if float(np.hypot(pos[0], pos[1])) > rad + eps or not (zlo - eps <= pos[2] <= zhi + eps):
                    fails.append("position-outside-region")
        if fails:
            out.violation({"from_random": {"grid": repr(g), "r": [r0, r1], "k": k, "seed": seed}, "fails": sorted(set(fails))})


def run(out: core.Outcome) -> None:
    core.setup_repo_import()
    import multiprocessing as mp

    out.rule = (
        "TLC enumerates every emulsion (sequence of <= MaxN droplets, duplicates allowed) of each lattice config "
        "and checks all invariants; each is replayed through remove_overlapping (survivors compared by object "
        "identity and order, second call no-op) and the distance queries. Random float emulsions are projected "
        "exactly and validated/judged by TraceOverlap.tla. Non-trivial = at least one droplet removed."
    )
    deviations = 0
    for name in QUICK if out.tier == "quick" else THOROUGH:
        L, dim, periodic, M = CFGS[name][:4]
        open_axes = CFGS[name][4] if len(CFGS[name]) > 4 else ()
        r = core.tlc("MC_Overlap", f"MC_Overlap_{name}.cfg", timeout=3000)
        if r.violated:
            out.violation({"tlc_config": name, "violated": r.violated, "tlc_tail": r.stdout[-3000:]})
            continue
        r.require_actions(["Step", "Stop"])
        out.add_tlc(name, r)
        items = list(enumerate(r.printed))
        size = max(1, len(items) // (core.NCPU * 4))
        chunks = [(items[i : i + size], (L, dim, periodic, M, open_axes)) for i in range(0, len(items), size)]
        with mp.get_context("fork").Pool(core.NCPU) as pool:
            results = pool.map(_replay_chunk, chunks)
        bad = []
        for n, nt, b in results:
            out.evaluations += n
            out.nontrivial_count += nt
            bad += b
        out.parts[name]["emulsions_replayed"] = len(items)
        out.parts[name]["mismatches"] = len(bad)
        out.sample({"config": name, "case": r.printed[len(r.printed) * 2 // 3]})
        # classify: query failures are direct violations; survivor differences are judged by TLC
        jt, jcases = [], []
        for b in bad:
            other = [f for f in b["fails"] if f != "survivors-differ"]
            case = {"config": name, "L": L, "dim": dim, "periodic": periodic, "M": M, **b}
            if other:
                out.violation({"case": case, "failed_clauses": other}, signature=None)
            if "survivors-differ" in b["fails"] and b["got"] is not None:
                drops = [(d["p"], d["r"]) for d in b["em"]]

                def d2(a, c, _L=L, _per=periodic, _open=open_axes):
                    s = 0
                    for ax, (x, y) in enumerate(zip(a[0], c[0]), 1):
                        d = abs(x - y)
                        if _per and ax not in _open:
                            d = min(d, _L - d)
                        s += d * d
                    return Fraction(s)

                tr = project_lattice(drops, d2, M)
                tr["out"] = b["got"]
                jt.append(tr)
                jcases.append(case)
        rows, st = core.judge_traces("TraceOverlap", jt)
        out.transitions += st
        for case, row in zip(jcases, rows):
            failed = [c for c in CLAUSES if not row["judge"][c]]
            if failed:
                out.violation({"case": case, "failed_clauses": failed})
            else:
                deviations += 1
    # ---- random float emulsions
    n_random = 3000 if out.tier == "quick" else 40000
    seeds = [out.seed * 1000003 + i for i in range(n_random)]
    size = max(1, n_random // (core.NCPU * 2))
    with mp.get_context("fork").Pool(core.NCPU) as pool:
        results = pool.map(_random_chunk, [seeds[i : i + size] for i in range(0, n_random, size)])
    cases, skipped = [], 0
    for c, s in results:
        cases += c
        skipped += s
    rows, st = core.judge_traces("TraceOverlap", [c["trace"] for c in cases])
    out.transitions += st
    out.traces += len(cases)
    out.parts["trace_validation"] = {"traces": len(cases), "tlc_states_generated": st}
    for c, row in zip(cases, rows):
        out.evaluations += 1
        vr, vj = row["run"], row["judge"]
        for cl in CLAUSES:
            if not vr[cl]:
                raise core.MachineryError(f"spec run violates {cl} on seed {c['seed']}")
        if len(c["trace"]["out"]) < c["trace"]["n"]:
            out.nontriv(("rnd", c["seed"]))
        res = c["res"]
        if "error" in res:
            out.violation({"random": c["input"], "seed": c["seed"], "failed_clauses": ["raised"], "error": res["error"]})
            continue
        failed = [cl for cl in CLAUSES if not vj[cl]] + res.get("query_fails", [])
        if res.get("second") != res.get("out"):
            failed.append("second-call-removes")
        if failed:
            out.violation({"random": c["input"], "seed": c["seed"], "got": res, "failed_clauses": failed})
        elif not vr["conform"]:
            deviations += 1
    if cases:
        out.sample({"random_trace": cases[0]["trace"]})
    _from_random_check(out, out.seed, 200 if out.tier == "quick" else 3000)
    out.extra["deviations_from_operational_model_without_property_violation"] = deviations
    out.extra["knife_edge_skipped"] = skipped
    out.extra["interpretation"] = (
        "get_neighbor_distances(subtract_radius=True) is compared with the surface-distance row minimum only "
        "for tied radii; for polydisperse emulsions the implementation documents 'distance to the nearest "
        "neighbour' (centre-nearest), which differs from the surface row minimum and is not judged"
    )
    out.exhaustive = True
    out.assumptions += [
        "lattice world: integer centres/radii/min_distance => every float comparison is exact",
        "random traces: exact rational projection; inputs within 1e-9 of a comparison flip skipped (counted)",
    ]


def project_lattice(drops, d2, M):
    """Projection for lattice inputs (ties are exact, no knife-edge skipping)."""
    import functools

    n = len(drops)
    Q = [[d2(drops[a], drops[b]) if a != b else Fraction(0) for b in range(n)] for a in range(n)]
    S = [[Fraction(drops[a][1] + drops[b][1]) for b in range(n)] for a in range(n)]
    pairs = [(a, b) for a in range(n) for b in range(a + 1, n)]

    def cmp(p, q):
        if less_surface(Q[p[0]][p[1]], S[p[0]][p[1]], Q[q[0]][q[1]], S[q[0]][q[1]]):
            return -1
        if less_surface(Q[q[0]][q[1]], S[q[0]][q[1]], Q[p[0]][p[1]], S[p[0]][p[1]]):
            return 1
        return 0

    order = sorted(pairs, key=functools.cmp_to_key(cmp))
    rank, r = {}, 0
    for i, p in enumerate(order):
        if i > 0 and cmp(order[i - 1], p) != 0:
            r += 1
        rank[p] = r
    rk = [[(rank[(min(a, b), max(a, b))] if a != b else 1000000) for b in range(n)] for a in range(n)]
    Mf = Fraction(M)
    cl = [[(a != b and Mf + S[a][b] > 0 and Q[a][b] < (Mf + S[a][b]) ** 2) for b in range(n)] for a in range(n)]
    rs = sorted({d[1] for d in drops})
    return {"n": n, "rk": rk, "cl": cl, "rr": [rs.index(d[1]) for d in drops]}
