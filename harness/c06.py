"""C06 — tracking neither loses, duplicates nor alters droplets (Tracking.tla)."""
from . import tracking


def run(out):
    tracking.run(out, "C06")
