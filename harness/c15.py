"""C15 — results do not depend on the number of worker processes or on scheduling (Parallel.tla).

spec -> code : TLC explores every interleaving of Take/Finish/Yield for N tasks and W workers and
               checks OrderPreserved, Deterministic, OnceEach, OutGrows, Termination; every complete
               SCHEDULE (completion order) it finds is forced in a real ProcessPoolExecutor: each task
               computes its result and then waits until all tasks that precede it in the schedule have
               finished.  The results of refine_droplets / locate_droplets(refine=True) and of
               EmulsionTimeCourse.from_storage must equal the serial run bit for bit and in order.
code -> spec : the workers log start/end of every task (O_APPEND); TraceParallel.tla validates that the
               recorded schedule is a behaviour of the spec and that the caller's output is what the
               spec's consumer yields.
"""

from __future__ import annotations

import copy
import hashlib
import json
import os
import shutil
import time

import numpy as np

from . import core

CFGS = {
    # name: (N, W, IsNone)
    "q42": (4, 2, []), "q33": (3, 3, [2]), "q31": (3, 1, []),
    "t43": (4, 3, [1, 3]), "t52": (5, 2, [2]), "t53": (5, 3, []), "t54": (5, 4, [1, 3]), "t44": (4, 4, []),
    "t62": (6, 2, [1, 3]),
}
QUICK = ["q42", "q33", "q31"]
THOROUGH = list(CFGS)

# ---- state inherited by forked workers ------------------------------------------------------------
_ORIG_REFINE = None
_ORIG_LOCATE = None
_CENTRES = None      # refine tasks: task i <-> droplet centre
_FRAMEKEYS = None    # frame tasks: digest of data -> i
_NONE = set()        # tasks whose result is replaced by None (refine only)
_GATE = None         # (directory, schedule) or None
_LOG = None          # path of the event log or None
_PARENT = os.getpid()


def _event(kind, i):
    if _LOG is not None:
        fd = os.open(_LOG, os.O_WRONLY | os.O_APPEND | os.O_CREAT)
        try:
            os.write(fd, f"{kind} {i} {os.getpid()}\n".encode())
        finally:
            os.close(fd)


def _gate(i):
    """Block until every task scheduled to finish before task i has finished, then finish."""
    if _GATE is None or os.getpid() == _PARENT:
        _event("E", i)
        return
    d, sched = _GATE
    before = sched[: sched.index(i)]
    t0 = time.time()
    while not all(os.path.exists(os.path.join(d, f"done{j}")) for j in before):
        if time.time() - t0 > 60:
            raise RuntimeError("gate timeout")
        time.sleep(0.002)
    _event("E", i)
    open(os.path.join(d, f"done{i}"), "w").close()


def _task_of_droplet(droplet):
    p = np.asarray(droplet.position, float)
    return 1 + int(np.argmin([np.linalg.norm(p - c) for c in _CENTRES]))


def refine_wrapper(phase_field, droplet, **kwargs):
    if _CENTRES is None:  # refinement nested in a frame task: not a task of its own
        return _ORIG_REFINE(phase_field, droplet, **kwargs)
    i = _task_of_droplet(droplet)
    _event("S", i)
    res = _ORIG_REFINE(phase_field, droplet, **kwargs)
    if i in _NONE:
        res = None
    _gate(i)
    return res


def locate_wrapper(frame, *args, **kwargs):
    key = hashlib.md5(np.ascontiguousarray(frame.data).tobytes()).hexdigest()
    i = _FRAMEKEYS.get(key) if _FRAMEKEYS is not None else None
    if i is None:  # a nested or unrelated call
        return _ORIG_LOCATE(frame, *args, **kwargs)
    _event("S", i)
    res = _ORIG_LOCATE(frame, *args, **kwargs)
    _gate(i)
    return res


# ---- scenarios -------------------------------------------------------------------------------------
def _field(n, variant):
    """A field with n well separated droplets; returns (field, centres, locate kwargs)."""
    from pde import CartesianGrid, ScalarField

    from droplets import DiffuseDroplet, Emulsion

    rng = np.random.default_rng(1000 + 17 * n + variant)
    periodic = [True, False] if variant % 2 else [False, False]
    L = 14.0 * n
    grid = CartesianGrid([[0, L], [0, 16]], [int(2 * L), 32], periodic=periodic)
    centres, drops = [], []
    for k in range(n):
        c = np.array([7.0 + 14.0 * k + rng.uniform(-1, 1), 8.0 + rng.uniform(-1, 1)])
        r = rng.uniform(2.0, 3.0) if k % 2 else rng.uniform(3.5, 4.5)   # clearly different sizes
        centres.append(c)
        drops.append(DiffuseDroplet(c, r, interface_width=rng.uniform(0.8, 1.3)))
    if variant == 2:
        # a droplet cut by the (non-periodic) upper boundary whose true centre lies outside the grid: the
        # candidate is the small visible cap and the fit moves the centre by more than the candidate's radius
        c0 = np.array([centres[0][0], 17.5])
        drops[0] = DiffuseDroplet(c0, 4.0, interface_width=1.0)
        centres[0] = np.array([centres[0][0], 15.5])
    field = Emulsion(drops).get_phasefield(grid)
    kw = [dict(), dict(modes=2), dict(interface_width=0.7), dict(modes=2, interface_width=1.0)][variant % 4]
    if variant % 2 == 0:
        kw = dict(kw, refine_args={"least_squares_params": {"max_nfev": 1000}})   # one options dict for all candidates
    return field, centres, kw


def _same(a, b):
    """bit-identical emulsions / lists of droplets, same order, same classes"""
    if len(a) != len(b):
        return False
    for x, y in zip(a, b):
        if type(x) is not type(y) or x.data.dtype != y.data.dtype or x.data.tobytes() != y.data.tobytes():
            return False
    return True


def _read_log(path):
    ev = []
    if os.path.exists(path):
        for line in open(path):
            k, i, pid = line.split()
            ev.append((k, int(i), int(pid)))
    return ev


class Patched:
    def __enter__(self):
        global _ORIG_REFINE, _ORIG_LOCATE
        from droplets import image_analysis

        _ORIG_REFINE = image_analysis.refine_droplet
        _ORIG_LOCATE = image_analysis.locate_droplets
        image_analysis.refine_droplet = refine_wrapper
        image_analysis.locate_droplets = locate_wrapper
        return self

    def __exit__(self, *a):
        from droplets import image_analysis

        image_analysis.refine_droplet = _ORIG_REFINE
        image_analysis.locate_droplets = _ORIG_LOCATE


def _run_forced(kind, call, sched, w, tag):
    """Run call() with the schedule forced; returns (result, events, forced_ok)."""
    global _GATE, _LOG
    d = core.WORK / f"c15-{os.getpid()}-{tag}"
    shutil.rmtree(d, ignore_errors=True)
    d.mkdir(parents=True)
    _LOG = str(d / "log")
    _GATE = (str(d), list(sched)) if sched is not None else None
    try:
        res = call()
        ev = _read_log(_LOG)
    finally:
        _GATE = None
        _LOG = None
        shutil.rmtree(d, ignore_errors=True)
    return res, ev


def run(out: core.Outcome) -> None:
    global _CENTRES, _FRAMEKEYS, _NONE
    core.setup_repo_import()
    import multiprocessing as mp

    from pde import MemoryStorage

    from droplets import EmulsionTimeCourse
    from droplets.image_analysis import locate_droplets

    if mp.get_start_method() != "fork":
        raise core.MachineryError("process pools must fork (wrappers are inherited by the workers)")
    out.rule = (
        "TLC explores every interleaving of N tasks on W workers; every complete schedule is forced in a real "
        "ProcessPoolExecutor (gated completion order, verified from the workers' log) for locate_droplets(refine=True) "
        "and EmulsionTimeCourse.from_storage; results must be bit-identical to the serial run, in order, and identical "
        "when repeated; the recorded schedules are validated by TraceParallel.tla. Non-trivial = completion order "
        "differs from submission order."
    )
    names = QUICK if out.tier == "quick" else THOROUGH
    max_per_cfg = 10 if out.tier == "quick" else 60
    traces = {}
    trace_cases = {}
    with Patched():
        for name in names:
            n, w, none = CFGS[name]
            r = core.tlc("MC_Parallel", f"MC_Parallel_{name}.cfg", timeout=900)
            if r.violated:
                out.violation({"tlc_config": name, "violated": r.violated, "tlc_tail": r.stdout[-2500:]})
                continue
            r.require_actions(["Take", "Finish", "Yield"])
            out.add_tlc(name, r)
            scheds = sorted({tuple(p["fin"]) for p in r.printed})
            expect_out = {tuple(p["fin"]): p["out"] for p in r.printed}
            out.parts[name]["schedules"] = len(scheds)
            # choose schedules: always the reversed-most ones, then an even spread
            scheds.sort(key=lambda s: -sum(1 for a in range(n) for b in range(a + 1, n) if s[a] > s[b]))
            if len(scheds) > max_per_cfg:
                step = len(scheds) / max_per_cfg
                scheds = [scheds[int(k * step)] for k in range(max_per_cfg)]
            out.parts[name]["schedules_forced"] = len(scheds)
            for variant in range(4 if out.tier == "thorough" else 2):
                variant = variant + (2 if out.tier == "quick" and name == "q33" else 0)
                out.parts[name].setdefault("variants", []).append(variant)
                # ---------------- (A) refinement of N candidates
                field, centres, kw = _field(n, variant)
                _CENTRES = centres
                _NONE = set(none)
                serial, _ = _run_forced("refine", lambda: locate_droplets(field, refine=True, num_processes=1, **copy.deepcopy(kw)), None, 1, "s")
                serial2, _ = _run_forced("refine", lambda: locate_droplets(field, refine=True, num_processes=1, **copy.deepcopy(kw)), None, 1, "s")
                out.evaluations += 2
                if not _same(serial, serial2):
                    out.violation({"scenario": "refine", "config": name, "variant": variant, "fails": ["serial-run-not-repeatable"]})
                if len(serial) != n - len(none):
                    raise core.MachineryError(f"scenario {name}/{variant}: serial run found {len(serial)} droplets, expected {n - len(none)}")
                for sched in scheds:
                    for procs in ([w] if w > 1 else [1]) + (["auto"] if w >= n else []):
                        if procs == 1:
                            continue
                        try:
                            res, ev = _run_forced("refine", lambda: locate_droplets(field, refine=True, num_processes=procs, **copy.deepcopy(kw)), sched, w, "p")
                        except Exception as exc:  # noqa: BLE001
                            out.evaluations += 1
                            out.violation({"scenario": "refine", "config": name, "variant": variant, "schedule": list(sched), "num_processes": procs,
                                           "fails": [f"parallel run raised {type(exc).__name__}: {str(exc)[:120]} (the serial run returns {len(serial)} droplets)"]},
                                          signature="unpickled-droplet-read-only" if "NoneType" in str(exc) else None)
                            continue
                        out.evaluations += 1
                        _judge(out, "refine", name, variant, sched, procs, res, serial, ev, n, w, none, expect_out, traces, trace_cases)
                # ---------------- (A') the same field object, updated in place, analysed again in parallel
                if w > 1 and not none:
                    field.data[...] = np.roll(field.data, 3, axis=1)
                    _CENTRES = [c + np.array([0.0, 3 * 0.5]) for c in centres]
                    ser2, _ = _run_forced("refine", lambda: locate_droplets(field, refine=True, num_processes=1, **copy.deepcopy(kw)), None, 1, "s")
                    try:
                        par2, _ = _run_forced("refine", lambda: locate_droplets(field, refine=True, num_processes=w, **copy.deepcopy(kw)), None, w, "p")
                        out.evaluations += 2
                        if not _same(par2, ser2):
                            out.violation({"scenario": "refine-after-inplace-update", "config": name, "variant": variant, "num_processes": w,
                                           "fails": ["parallel result differs from the serial one after the field was modified in place"]})
                    except Exception as exc:  # noqa: BLE001
                        out.violation({"scenario": "refine-after-inplace-update", "config": name, "variant": variant,
                                       "fails": [f"raised {type(exc).__name__}: {str(exc)[:100]}"]})
                # ---------------- (B) frames of a storage
                _CENTRES = None
                storage = MemoryStorage()
                from pde import CartesianGrid, ScalarField
                from droplets import DiffuseDroplet, Emulsion
                fgrid = CartesianGrid([[0, 28], [0, 16]], [56, 32], periodic=[bool(variant % 2), False])
                frames = []
                for k in range(n):
                    # every frame holds different droplets, so a permutation of the frames is visible
                    ds = [DiffuseDroplet(np.array([7.0 + 0.37 * k, 8.0 - 0.21 * k]), 3.0 + 0.25 * k, 1.0)]
                    if (k + variant) % 3 != 0:
                        ds.append(DiffuseDroplet(np.array([21.0 - 0.4 * k, 8.3]), 4.0 - 0.2 * k, 1.2))
                    frames.append(Emulsion(ds).get_phasefield(fgrid))
                storage.start_writing(frames[0])
                for k, f in enumerate(frames):
                    storage.append(f, (0.5 * k - 1) if variant % 2 == 0 else float(k // 2))   # odd variants: repeated time stamps
                _FRAMEKEYS = {hashlib.md5(np.ascontiguousarray(f.data).tobytes()).hexdigest(): k + 1 for k, f in enumerate(storage)}
                if len(_FRAMEKEYS) != n:
                    raise core.MachineryError("frames are not distinct")
                _NONE = set()
                refine = bool(variant % 2)
                ser, _ = _run_forced("frames", lambda: EmulsionTimeCourse.from_storage(storage, num_processes=1, refine=refine, progress=False), None, 1, "s")
                out.evaluations += 1
                for sched in scheds:
                    if w == 1:
                        break
                    for progress in (None, True, False):
                        res, ev = _run_forced("frames", lambda: EmulsionTimeCourse.from_storage(storage, num_processes=w, refine=refine, progress=progress), sched, w, "p")
                        out.evaluations += 1
                        fails = []
                        if list(res.times) != list(ser.times) or list(res.times) != list(storage.times):
                            fails.append("times-differ")
                        if len(res) != len(ser) or not all(_same(a, b) for a, b in zip(res.emulsions, ser.emulsions)):
                            fails.append("frames-differ-from-serial")
                        fin = [i for k, i, _ in ev if k == "E"]
                        if tuple(fin) != tuple(sched):
                            out.extra["schedule_not_forced"] = out.extra.get("schedule_not_forced", 0) + 1
                            continue
                        if tuple(sched) != tuple(range(1, n + 1)):
                            out.nontrivial_count += 1
                        key = (n, w, ())
                        traces.setdefault(key, []).append({"events": [[k, i] for k, i, _ in ev], "out": list(range(1, n + 1)), "fin": list(sched)})
                        trace_cases.setdefault(key, []).append({"scenario": "frames", "config": name, "variant": variant, "schedule": list(sched), "progress": progress})
                        if fails:
                            out.violation({"scenario": "from_storage", "config": name, "variant": variant, "schedule": list(sched),
                                           "num_processes": w, "progress": progress, "refine": refine, "fails": fails})
                _FRAMEKEYS = None
        # ---------------- (C) long storages: many more frames than workers (and than any bounded submission window);
        # the completion order is left to the pool, with frames of very different cost so that it is NOT the
        # submission order
        _CENTRES = None
        _FRAMEKEYS = None
        _NONE = set()
        from pde import CartesianGrid
        from droplets import DiffuseDroplet, Emulsion
        for nlong, procs in ((7, 2), (11, 3), (2 * core.NCPU + 5, "auto")) if out.tier == "quick" else \
                ((7, 2), (9, 2), (11, 3), (13, 4), (2 * core.NCPU + 5, "auto"), (4 * core.NCPU + 1, "auto")):
            lgrid = CartesianGrid([[0, 24], [0, 12]], [48, 24], periodic=[True, False])
            lst = MemoryStorage()
            lframes = []
            for k in range(nlong):
                ds = [DiffuseDroplet(np.array([6.0 + 0.29 * k, 6.0]), 2.5 + 0.05 * k, 1.0)]
                if k % 3 == 1:      # costly frames: two more droplets to refine
                    ds += [DiffuseDroplet(np.array([15.0, 6.2]), 3.0, 1.1), DiffuseDroplet(np.array([21.0 - 0.1 * k, 5.8]), 2.0, 0.9)]
                lframes.append(Emulsion(ds).get_phasefield(lgrid))
            lst.start_writing(lframes[0])
            for k, f in enumerate(lframes):
                lst.append(f, 0.25 * k)
            ser = EmulsionTimeCourse.from_storage(lst, num_processes=1, refine=True, progress=False)
            par = EmulsionTimeCourse.from_storage(lst, num_processes=procs, refine=True, progress=False)
            out.evaluations += 1
            out.nontrivial_count += 1
            fails = []
            if list(par.times) != list(ser.times) or list(par.times) != list(lst.times):
                fails.append("times-differ")
            if len(par) != len(ser) or not all(_same(a, b) for a, b in zip(par.emulsions, ser.emulsions)):
                fails.append("frames-differ-from-serial")
            if fails:
                out.violation({"scenario": "from_storage-long", "frames": nlong, "num_processes": procs, "fails": fails})
        out.parts["long_storages"] = {"frames_vs_processes": "7/2, 11/3, (2 cpu + 5)/auto"}
        # ---------------- (D) refine_droplets called directly: candidates given as a list, as an Emulsion and as one-shot
        # iterables (generator, iterator, filter); fits that stop on their evaluation budget; repeated runs
        from droplets.image_analysis import refine_droplets
        dgrid = CartesianGrid([[0, 24], [0, 16]], [48, 32], periodic=[False, True])
        truth = [DiffuseDroplet(np.array([6.0, 8.0]), 3.0, 1.0), DiffuseDroplet(np.array([17.5, 7.3]), 3.6, 1.2),
                 DiffuseDroplet(np.array([11.8, 15.6]), 2.2, 0.8)]
        dfield = Emulsion(truth).get_phasefield(dgrid)
        dfield.data += 0.02 * np.random.default_rng(5).standard_normal(dfield.data.shape)

        from droplets import SphericalDroplet

        def cands():
            cs = [DiffuseDroplet(np.array(d.position) + 0.3, d.radius * 0.9, 1.0) for d in truth]
            # a vanished plain spherical droplet outside the periodic cell, a tiny one between support points, and a
            # candidate rebuilt from a row of a structured array (its data is a numpy.void, not a record)
            cs.append(SphericalDroplet(np.array([3.0, 16.0 + 4.1]), 0.0))
            cs.append(DiffuseDroplet(np.array([20.26, -3.74]), 0.05, None))
            plain = np.dtype(cs[0].data.dtype.descr)          # a plain structured dtype: its rows are numpy.void scalars
            rows = np.array([tuple(cs[0].data)], dtype=plain)
            cs.append(DiffuseDroplet.from_data(rows[0]))
            tiny = np.array([(np.array([9.26, 33.0]), 0.05, np.nan)], dtype=plain)
            cs.append(DiffuseDroplet.from_data(tiny[0]))
            if type(cs[-1].data) is not np.void:
                raise core.MachineryError("scenario: candidate data is not a numpy.void")
            return cs

        for budget in (None, 3):
            kw = {} if budget is None else {"least_squares_params": {"max_nfev": budget}}
            ref = list(refine_droplets(dfield, cands(), num_processes=1, **copy.deepcopy(kw)))
            ref2 = list(refine_droplets(dfield, cands(), num_processes=1, **copy.deepcopy(kw)))
            variants = {"repeated serial run": ref2}

            def attempt(label, make, procs):
                try:
                    variants[label] = list(refine_droplets(dfield, make(), num_processes=procs, **copy.deepcopy(kw)))
                except Exception as exc:  # noqa: BLE001
                    variants[label] = f"raised {type(exc).__name__}: {str(exc)[:120]}"

            for procs in (1, 2, 3):
                attempt(f"list, {procs} processes", cands, procs)
                attempt(f"generator, {procs} processes", lambda: (c for c in cands()), procs)
                attempt(f"iterator, {procs} processes", lambda: iter(cands()), procs)
                attempt(f"filter, {procs} processes", lambda: filter(lambda c: True, cands()), procs)
                attempt(f"Emulsion without the plain spherical candidate, {procs} processes", lambda: Emulsion([c for c in cands() if type(c) is DiffuseDroplet]), procs)
            ref_d = [r for r, c in zip(ref, cands()) if type(c) is DiffuseDroplet]
            for name_v, res in variants.items():
                out.evaluations += 1
                want = ref_d if name_v.startswith("Emulsion") else ref
                if isinstance(res, str):
                    out.violation({"scenario": "refine_droplets-direct", "max_nfev": budget, "variant": name_v,
                                   "fails": [f"{res} (the serial list run returns {len(want)} droplets)"]})
                    continue
                ref_here = want
                if len(res) != len(ref_here) or not all(_same([a], [b]) for a, b in zip(res, ref_here)):
                    out.violation({"scenario": "refine_droplets-direct", "max_nfev": budget, "variant": name_v,
                                   "fails": [f"{len(res)} droplets, serial list run {len(ref_here)}; or parameters differ"]})
    # ---- code -> spec: validate the recorded schedules
    for key, trs in traces.items():
        n, w, none = key
        cfg = (f"SPECIFICATION TSpec\nCONSTANTS\n  N = {n}\n  W = {w}\n  IsNone = {{{', '.join(map(str, none))}}}\n  Strict = FALSE\n"
               "INVARIANT Verdict\nINVARIANT TypeOK\nINVARIANT OrderPreserved\n")
        core.WORK.mkdir(exist_ok=True)
        tf = core.WORK / f"trace-par-{os.getpid()}.json"
        cf = core.WORK / f"trace-par-{os.getpid()}.cfg"
        tf.write_text(json.dumps(trs))
        cf.write_text(cfg)
        try:
            r = core.tlc("TraceParallel", str(cf), workers=4, env={"TRACE_FILE": str(tf)}, coverage=False)
        finally:
            tf.unlink(missing_ok=True)
            cf.unlink(missing_ok=True)
        if r.violated:
            out.violation({"trace_validation": "invariant violated on a recorded schedule", "violated": r.violated,
                           "n": n, "w": w, "tlc_tail": r.stdout[-2000:]})
            continue
        out.transitions += r.generated
        verd = {v["tid"]: v for v in r.printed}
        for i, (tr, case) in enumerate(zip(trs, trace_cases[key]), 1):
            out.traces += 1
            v = verd.get(i)
            if v is None:
                out.violation({"trace": tr, "case": case, "fails": ["recorded schedule is not a behaviour of Parallel.tla"]})
            elif not (v["output"] and v["order"]):
                out.violation({"trace": tr, "case": case, "fails": [k for k in ("output", "order") if not v[k]]})
    if out.tier == "thorough":
        _apalache(out)
    out.sample({"config": names[0], "schedules": "see parts"})
    out.explanation = out.rule
    out.assumptions = [
        "fork start method; the wrappers installed by the harness are inherited by the workers",
        "a forced run whose recorded completion order differs from the intended one is not judged (counted in schedule_not_forced)",
        "the executor's call queue is FIFO (Strict=TRUE in the model; the log validation uses Strict=FALSE)",
    ]


def _apalache(out):
    """Unbounded schedules: IndInv of ParallelInd.tla is inductive (Apalache), and a non-inductive variant is refuted."""
    import subprocess

    d = core.WORK / f"apa-{os.getpid()}"
    d.mkdir(parents=True, exist_ok=True)
    res = {}
    try:
        for name, cinit, init, inv, length, expect_ok in (
            ("init", "CInit", "Init", "IndInv", 0, True), ("step", "CInit", "IndInit", "IndInv", 1, True),
            ("step-wide", "CInitWide", "IndInit", "IndInv", 1, True), ("step-serial", "CInitSerial", "IndInit", "IndInv", 1, True),
            ("sanity-bogus", "CInit", "BogusInit", "Bogus", 1, False),
        ):
            r = subprocess.run(["apalache-mc", "check", f"--cinit={cinit}", f"--init={init}", f"--inv={inv}", f"--length={length}",
                                f"--out-dir={d}/{name}", str(core.SPECS / "ParallelInd.tla")], capture_output=True, text=True, timeout=1500, cwd=d)
            ok = "EXITCODE: OK" in r.stdout
            res[name] = "holds" if ok else "counter-example" if "EXITCODE: ERROR (12)" in r.stdout else "error"
            if res[name] == "error":
                raise core.MachineryError(f"apalache {name}: {r.stdout[-800:]}")
            if expect_ok and not ok:
                out.violation({"apalache": name, "fails": ["inductive invariant of ParallelInd.tla does not hold"], "tail": r.stdout[-1500:]})
            if not expect_ok and ok:
                raise core.MachineryError("apalache accepted a non-inductive invariant (vacuous setup)")
    finally:
        shutil.rmtree(d, ignore_errors=True)
    out.parts["apalache_inductive_invariant"] = res


def _judge(out, scen, name, variant, sched, procs, res, serial, ev, n, w, none, expect_out, traces, trace_cases):
    fails = []
    fin = [i for k, i, _ in ev if k == "E"]
    if tuple(fin) != tuple(sched):
        out.extra["schedule_not_forced"] = out.extra.get("schedule_not_forced", 0) + 1
        return
    if tuple(sched) != tuple(range(1, n + 1)):
        out.nontrivial_count += 1
    if not _same(res, serial):
        fails.append("result-differs-from-serial")
    # which tasks did the caller receive, in which order
    got = []
    for d in res:
        p = np.asarray(d.position, float)
        got.append(1 + int(np.argmin([np.linalg.norm(p - c) for c in _CENTRES])))
    if got != expect_out[tuple(sched)]:
        fails.append(f"order: got tasks {got}, spec yields {expect_out[tuple(sched)]}")
    key = (n, w if procs != "auto" else n, tuple(none))
    if procs != "auto":
        traces.setdefault(key, []).append({"events": [[k, i] for k, i, _ in ev], "out": got, "fin": list(sched)})
        trace_cases.setdefault(key, []).append({"scenario": scen, "config": name, "variant": variant, "schedule": list(sched)})
    if fails:
        out.violation({"scenario": scen, "config": name, "variant": variant, "schedule": list(sched), "num_processes": procs,
                       "fails": fails})


def replay(out, path):
    case = json.loads(open(path).read())
    print(json.dumps(case, indent=1)[:3000])
    print("re-run: ./check C15 --tier", out.tier, "(schedules are regenerated by TLC; the case above names config/variant/schedule)")
    return 0
