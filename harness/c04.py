"""C04 — refinement never worsens the fit and respects bounds, symmetry and the box (Refine.tla).

spec -> code : Refine.tla specifies the protocol around the optimiser (Promote, DefaultWidth, Region, FreeMask, Bounds, Solve as
               ANY non-worsening step inside the bounds, Wrap); TLC checks ClassKept, ConstraintsFrozen, BoundsLayout,
               RadiusWidthBounded, NeverWorse, WrapRespectsSymmetry on every request family x candidate class x modes x width
               option x level option.  Every request is executed with scipy's least_squares wrapped by a recording proxy:
               the start vector and bounds handed to the solver must have the spec's layout; the residual callable the code
               handed over must not be larger at the result than at the start; the documented objective, recomputed by the
               harness over the documented region, must not increase; class, layout, bounds of the result, frozen
               coordinates, wrapping, image bytes and the fixed point are compared.
"""

from __future__ import annotations

import json
import warnings

import numpy as np

from . import core

KIND = {"ninf": -np.inf, "zero": 0.0, "m1": -1.0, "inf": np.inf, "one": 1.0}
IMAGES = ["clean", "noisy", "fixedpoint", "neighbour", "wall", "nanstrip"]     # env.support and not env.flat
# width of the candidate in CELLS that realises the spec's w2 = floor(2 w / h) (the fit region grows by 1 + w2 cells,
# whatever the physical size h of a cell: F23)
WIDTH_CELLS_OF_W2 = {0: 0.3, 1: 0.75, 2: 1.0, 3: 1.6, 4: 2.0}


def make_grid(fam, variant):
    from pde import CartesianGrid, CylindricalSymGrid, PolarSymGrid, SphericalSymGrid

    n = fam["name"]
    dx = [1.0, 0.5, 0.25][variant % 3]        # = typical discretisation h of the grid, whatever the family
    if not n.startswith("cart"):
        dx = 2 * dx                            # the symmetric grids below have cells of size dx / 2
    if n.startswith("cart1"):
        return CartesianGrid([[2.0, 2.0 + 40 * dx]], 40, periodic="periodic" in n)
    if n.startswith("cart2"):
        per = [False, False] if n == "cart2" else ([True, False] if n == "cart2-periodic" else [True, True])
        return CartesianGrid([[0, 24 * dx], [-3, -3 + 20 * dx]], [24, 20], periodic=per)
    if n == "cart3":
        return CartesianGrid([[0, 12 * dx]] * 3, 12, periodic=[False, True, False])
    if n == "polar":
        return PolarSymGrid(14 * dx, 28)
    if n == "spherical":
        return SphericalSymGrid(14 * dx, 28)
    return CylindricalSymGrid(7 * dx, [0, 20 * dx], [14, 40], periodic_z="periodic" in n)


def scenario(rec, variant, image):
    """truth, candidate, image field, level arguments"""
    from droplets import droplets as D

    req = rec["req"]
    fam = req["fam"]
    grid = make_grid(fam, variant)
    rng = np.random.default_rng(1000 * variant + len(image))
    h = grid.typical_discretization
    dim = fam["dim"]
    lo = np.array([b[0] for b in grid.axes_bounds], float)
    hi = np.array([b[1] for b in grid.axes_bounds], float)
    n = fam["name"]
    R = 4.2 * h if dim < 3 else 3.2 * h
    w = 1.0 * h
    if n.startswith("cart"):
        pos = (lo + hi) / 2 + rng.uniform(-1, 1, dim) * h
        for a in fam["periodic"]:
            pos[a - 1] = hi[a - 1] - 0.4 * h       # the droplet straddles the periodic boundary
    elif n in ("polar", "spherical"):
        pos = np.zeros(dim)
        R = 6.3 * h
    else:
        pos = np.array([0.0, 0.0, (lo[1] + hi[1]) / 2 + 0.3 * h])
        if fam["periodic"]:
            pos[2] = hi[1] - 5.0 * h
    modes = req["modes"]
    cls = getattr(D, req["cand"])
    amps = rng.uniform(-0.08, 0.08, modes)

    def mk(c, p, r, ww, a):
        if c is D.SphericalDroplet:
            return c(p, r)
        if c is D.DiffuseDroplet:
            return c(p, r, ww)
        return c(p, r, ww, a)

    truth_cls = D.DiffuseDroplet if cls is D.SphericalDroplet else cls
    truth = mk(truth_cls, pos, R, w, amps)
    cpos = pos.copy()
    free_axes = [a for a in range(dim) if (a + 1) not in fam["constraints"]]
    for a in free_axes:
        cpos[a] += rng.uniform(-0.6, 0.6) * h
    for a in fam["periodic"]:
        if n.startswith("cart"):
            cpos[a - 1] = lo[a - 1] - 0.5 * h      # candidate outside the box: the result must be wrapped back
    if fam["constraints"] and image == "noisy" and req["cand"] != "PerturbedDroplet3DAxisSym":
        # a candidate that does not sit on the symmetry axis / centre: its fixed coordinates must still be left alone
        for cidx in fam["constraints"]:
            if cidx <= dim:
                cpos[cidx - 1] = [0.3, 0.1, 0.2][cidx - 1] * h
    w2 = int(rec.get("env", {}).get("w2", 2))
    cw = {"none": None, "given": WIDTH_CELLS_OF_W2[w2] * h, "zero": 0.0}[req["width"]]
    if image == "fixedpoint":
        cand = mk(cls, pos.copy(), R, cw if cw is not None else None, amps.copy())
        src = mk(truth_cls, pos, R, cw if cw is not None else h, amps)
    else:
        cand = mk(cls, cpos, R * (1 + rng.uniform(-0.1, 0.1)), cw, np.zeros(modes))
        src = truth
    if image == "wall" and n.startswith("cart"):
        # a droplet cut by a non-periodic wall: its centre lies outside the box, where the fit will put it
        for a in range(dim):
            if (a + 1) not in fam["periodic"]:
                pos[a] = hi[a] + 0.8 * h
                cpos[a] = hi[a] - 0.6 * h
                break
        truth = mk(truth_cls, pos, R, w, amps)
    if image == "tiny":
        # a candidate so small that it covers no cell centre (between support points), outside the box on periodic axes
        tp = cpos.copy()
        for a in free_axes:
            tp[a] = np.floor((tp[a] - lo[min(a, len(lo) - 1)]) / h) * h + lo[min(a, len(lo) - 1)] if n.startswith("cart") else tp[a]
        cand = mk(cls, tp, 0.05 * h, cw, np.zeros(modes))
    levels = (0.0, 1.0) if req["levels"] in ("fixed", "adjust") else (2.0, 5.0)
    if image in ("neighbour", "nanstrip") or (image == "noisy" and variant == 1):
        levels = (0.0, 200.0) if req["levels"] in ("fixed", "adjust") else (40.0, 240.0)   # 8-bit-like intensities
    flat = bool(rec.get("env", {}).get("flat", False))
    with warnings.catch_warnings():
        warnings.simplefilter("ignore")
        field = src.get_phase_field(grid, vmin=levels[0], vmax=levels[1])
        if image == "noisy":
            field.data += 0.03 * (levels[1] - levels[0]) * rng.standard_normal(field.data.shape)
        if image in ("neighbour", "nanstrip") and n.startswith("cart") and dim == 2:
            other = D.DiffuseDroplet(pos + np.array([0.0, 2.2 * R]), 0.8 * R, w)
            field.data += other.get_phase_field(grid, vmin=0, vmax=levels[1] - levels[0]).data
        if image == "nanstrip":
            # invalid pixels (masked detector rows) far away from the droplet: none of the caller's pixels may change
            far = 0 if pos[0] > (lo[0] + hi[0]) / 2 else -1
            if 0 not in fam["periodic"] and 1 not in fam["periodic"]:
                field.data[far, :] = np.nan
    if flat:
        # a homogeneous region: constant image; supplied levels coincide (intensity range zero)
        field.data[...] = 3.0
        levels = (3.0, 3.0) if image == "flat" else (2.5, 2.5)
    # "auto": both levels automatic, or (variant 1) the outside level supplied and only the inside level automatic
    auto_kw = dict(vmin=None, vmax=None) if variant != 1 else dict(vmin=levels[0], vmax=None)
    kw = {"fixed": dict(vmin=levels[0], vmax=levels[1]), "auto": auto_kw,
          "adjust": dict(vmin=levels[0], vmax=levels[1], adjust_values=True),
          "autoadjust": dict(vmin=None, vmax=None, adjust_values=True)}[req["levels"]]
    return grid, truth, cand, field, kw, levels


class Proxy:
    """stands in for scipy.optimize inside droplets.image_analysis; records what the solver is given"""

    def __init__(self, real):
        self.real = real
        self.calls = []

    def __getattr__(self, name):
        return getattr(self.real, name)

    def least_squares(self, fun, x0, bounds=(-np.inf, np.inf), **kw):
        # the callable is only WATCHED, never called by the proxy: an extra evaluation (e.g. at the returned optimum)
        # would leave the fitted object in a state the real call sequence never produces
        x0 = np.array(x0, float)
        seen = []

        def watched(x):
            r = fun(x)
            seen.append((np.array(x, float), float(np.sum(np.asarray(r) ** 2)), int(np.asarray(r).size)))
            return r

        self.kwargs = dict(kw)
        res = self.real.least_squares(watched, x0, bounds=bounds, **kw)
        first = seen[0]   # the start vector (moved into the interior by the solver if it sits on a bound, e.g. width 0)
        c1 = float(np.sum(np.asarray(res.fun) ** 2))
        self.calls.append({"x0": x0.copy(), "lo": np.array(bounds[0], float), "hi": np.array(bounds[1], float),
                           "c0": first[1], "c1": c1, "x": np.array(res.x), "nres": first[2],
                           "last_evaluated": seen[-1][0], "nfev": len(seen)})
        return res


def region_and_deviation(grid, cand_promoted, width, field, levels_fn):
    from scipy import ndimage

    mask = cand_promoted._get_phase_field(grid, dtype=bool)
    mask = ndimage.binary_dilation(mask, iterations=1 + int(2 * width / grid.typical_discretization))
    data = field.data[mask]
    vmin, vmax = levels_fn(data)

    def dev(d):
        img = vmin + (vmax - vmin) * d._get_phase_field(grid)[mask]
        return float(np.sum((img - data) ** 2))

    return dev


def run_case(rec, variant, image):
    from droplets import DiffuseDroplet, SphericalDroplet, image_analysis

    req = rec["req"]
    fam = req["fam"]
    fails = []
    grid, truth, cand, field, kw, levels = scenario(rec, variant, image)
    before_img = field.data.tobytes()
    cand0 = cand.copy()
    dim = fam["dim"]
    proxy = Proxy(image_analysis.optimize)
    image_analysis.optimize = proxy
    try:
        with warnings.catch_warnings():
            warnings.simplefilter("ignore")
            res = image_analysis.refine_droplet(field, cand, **kw)
    except Exception as exc:  # noqa: BLE001
        return [f"raised {type(exc).__name__}: {str(exc)[:100]}"]
    finally:
        image_analysis.optimize = proxy.real
    # ---- what the solver was given
    support = bool(rec.get("env", {"support": image != "tiny"})["support"])
    if not support:
        if len(proxy.calls) != 0:
            fails.append(f"{len(proxy.calls)} solver calls although the spec's region holds no support point")
    elif len(proxy.calls) != 1:
        fails.append(f"{len(proxy.calls)} solver calls")
    else:
        c = proxy.calls[0]
        nfree = len(rec["free"])
        if len(c["x0"]) != nfree + rec["nextra"]:
            fails.append(f"solver started with {len(c['x0'])} parameters, spec: {nfree} free + {rec['nextra']} intensity")
        else:
            if [KIND[k] for k in rec["lower"]] != list(np.broadcast_to(c["lo"], c["x0"].shape)[:nfree]):
                fails.append("lower bounds handed to the solver differ from the spec's layout")
            if [KIND[k] for k in rec["upper"]] != list(np.broadcast_to(c["hi"], c["x0"].shape)[:nfree]):
                fails.append("upper bounds handed to the solver differ from the spec's layout")
        if getattr(proxy, "kwargs", {}).get("loss", "linear") != "linear":
            fails.append(f"the solver is asked to minimise the loss {proxy.kwargs.get('loss')!r}, not the squared deviation")
        if not (c["c1"] <= c["c0"] * (1 + 1e-12) + 1e-300):
            fails.append(f"residual of the handed-over objective grew: {c['c0']!r} -> {c['c1']!r}")
        if np.any(c["x"] < np.broadcast_to(c["lo"], c["x"].shape) - 1e-12) or np.any(c["x"] > np.broadcast_to(c["hi"], c["x"].shape) + 1e-12):
            fails.append("solver result outside the bounds")
    # ---- the result
    if type(res).__name__ != rec["cls"]:
        fails.append(f"class {type(res).__name__}, spec {rec['cls']}")
        return fails
    if not isinstance(res, DiffuseDroplet):
        fails.append("result has no diffuse interface")
    if not np.all(np.isfinite(res._data_array)):
        fails.append("non-finite parameter")
    if res.radius < 0 or res.interface_width is None or res.interface_width < 0:
        fails.append("negative radius or width")
    if rec["req"]["modes"] and (len(res.amplitudes) != rec["req"]["modes"] or np.any(np.abs(res.amplitudes) > 1)):
        fails.append("amplitudes outside [-1, 1] or wrong number")
    for cidx in fam["constraints"]:
        if cidx <= dim and res.position[cidx - 1].tobytes() != cand0.position[cidx - 1].tobytes():
            fails.append(f"coordinate {cidx} is fixed by the grid's symmetry but changed")
    for a in fam["periodic"]:
        ax = a - 1 if fam["name"].startswith("cart") else 1   # cylindrical: Cartesian z is grid axis 1
        lo_, hi_ = grid.axes_bounds[ax]
        if not (lo_ - 1e-12 <= res.position[a - 1] <= hi_ + 1e-12):
            fails.append("position not wrapped into the box along a periodic axis")
    if proxy.calls and image != "tiny":
        # wrapping may only change coordinates along periodic axes: all others are exactly the solver's result
        c = proxy.calls[0]
        free_pos = [i for i in rec["free"] if i <= dim]
        for k, i in enumerate(free_pos):
            if i not in fam["periodic"] and res.position[i - 1] != c["x"][k]:
                fails.append(f"coordinate {i} is not periodic but differs from the solver's result ({res.position[i - 1]!r} vs {c['x'][k]!r})")
        # WriteBack: every fitted parameter of the returned droplet IS the solver's result (not, say, the last vector the
        # solver happened to evaluate)
        flat = np.asarray(res._data_array, float)
        if len(c["x"]) >= len(rec["free"]):
            for k, i in enumerate(rec["free"]):
                if i > dim and i - 1 < len(flat) and flat[i - 1] != c["x"][k]:
                    fails.append(f"parameter {i} of the returned droplet differs from the solver's result ({flat[i - 1]!r} vs {c['x'][k]!r})")
    if field.data.tobytes() != before_img:
        fails.append("image modified")
    # ---- the fit region is the documented one: candidate's binary image dilated 1 + floor(2 w) times
    if proxy.calls:
        from scipy import ndimage

        pr = cand0 if isinstance(cand0, DiffuseDroplet) else DiffuseDroplet.from_droplet(cand0)
        wr = pr.interface_width if pr.interface_width is not None else grid.typical_discretization
        pr = pr.copy()
        pr.interface_width = wr
        iters = rec.get("iters") or 1 + int(2 * wr / grid.typical_discretization)
        if iters != 1 + int(2 * wr / grid.typical_discretization):
            raise core.MachineryError(f"scenario does not realise the spec's w2: iters {iters}, width {wr}")
        region = ndimage.binary_dilation(pr._get_phase_field(grid, dtype=bool), iterations=iters)
        if int(region.sum()) != proxy.calls[0]["nres"]:
            fails.append(f"fit region has {proxy.calls[0]['nres']} cells, the spec's region (dilated {iters} times) {int(region.sum())}")
        c = proxy.calls[0]
        if rec["nextra"] == 2 and len(c["x0"]) == len(rec["free"]) + 2:
            # intensity parameters: start (vmin, vrng), bounds [vmin - vrng, vmax] and [0, 3 vrng]
            dm = field.data[region]
            v0 = kw["vmin"] if kw["vmin"] is not None else float(dm.min())
            v1 = kw["vmax"] if kw["vmax"] is not None else float(dm.max())
            lo2 = np.broadcast_to(c["lo"], c["x0"].shape)[-2:]
            hi2 = np.broadcast_to(c["hi"], c["x0"].shape)[-2:]
            want = {"vmin-vrng": v0 - (v1 - v0), "zero": 0.0, "vmax": v1, "3vrng": 3 * (v1 - v0)}
            if list(c["x0"][-2:]) != [v0, v1 - v0]:
                fails.append(f"intensity parameters start at {list(c['x0'][-2:])}, spec: (vmin, vrng) = {[v0, v1 - v0]}")
            if list(lo2) != [want[k] for k in rec["xlo"]] or list(hi2) != [want[k] for k in rec["xhi"]]:
                fails.append(f"intensity bounds {list(lo2)}..{list(hi2)} differ from the spec's {rec['xlo']}..{rec['xhi']}")
    # ---- the documented objective over the documented region must not increase
    if req["levels"] in ("fixed", "auto") and image != "tiny" and not rec.get("env", {}).get("flat"):
        promoted = cand0 if isinstance(cand0, DiffuseDroplet) else DiffuseDroplet.from_droplet(cand0)
        w0 = promoted.interface_width if promoted.interface_width is not None else grid.typical_discretization
        promoted = promoted.copy()
        promoted.interface_width = w0
        lv = (lambda d: levels) if req["levels"] == "fixed" else \
             (lambda d: (float(d.min()) if kw["vmin"] is None else kw["vmin"], float(d.max()) if kw["vmax"] is None else kw["vmax"]))
        dev = region_and_deviation(grid, promoted, w0, field, lv)
        d0, d1 = dev(promoted), dev(res)
        if d1 > d0 * (1 + 1e-9) + 1e-12:
            fails.append(f"squared deviation over the fitted region grew: {d0!r} -> {d1!r}")
        # what the solver is handed IS that objective: the sum of squares of its residuals at the start equals the squared
        # deviation of the (promoted) candidate over the region, with the levels as documented -- no weights, no other levels
        # (up to one constant factor: c0 / d0 = c1 / d1 -- a uniformly rescaled objective has the same minimiser)
        if proxy.calls and rec["width"] != "zero" and not (np.any(np.isnan(field.data))):
            c0, c1 = proxy.calls[0]["c0"], proxy.calls[0]["c1"]
            scale = float(np.sum((field.data[np.isfinite(field.data)] - np.nanmean(field.data)) ** 2)) + 1e-300
            if d0 > 1e-9 * scale and d1 > 1e-9 * scale and c0 > 0 and c1 > 0:
                if abs(c0 / d0 - c1 / d1) > 1e-6 * (c0 / d0):
                    fails.append(f"objective handed to the solver ({c0!r} -> {c1!r}) is not proportional to the squared deviation over the "
                                 f"fitted region with the documented levels ({d0!r} -> {d1!r})")
    # ---- fixed point
    if image == "fixedpoint" and req["levels"] in ("fixed", "adjust"):   # the supplied levels are the rendering levels
        ref = cand0 if isinstance(cand0, DiffuseDroplet) else DiffuseDroplet.from_droplet(cand0)
        h = grid.typical_discretization
        dpos = np.asarray(res.position) - np.asarray(ref.position)
        for a in fam["periodic"]:
            ax = a - 1 if fam["name"].startswith("cart") else 1
            L = grid.axes_bounds[ax][1] - grid.axes_bounds[ax][0]
            dpos[a - 1] = (dpos[a - 1] + L / 2) % L - L / 2
        w_ref = ref.interface_width if ref.interface_width is not None else h
        if np.max(np.abs(dpos)) > 1e-5 * h or abs(res.radius - ref.radius) > 1e-5 * h or abs(res.interface_width - w_ref) > 1e-5 * h:
            fails.append("image rendered from the candidate, but the candidate is not returned (beyond solver tolerance)")
        if rec["req"]["modes"] and np.max(np.abs(res.amplitudes - ref.amplitudes)) > 1e-5:
            fails.append("image rendered from the candidate, but the amplitudes moved")
    return sorted(set(fails))


def _chunk(items):
    core.setup_repo_import()
    bad = []
    n = 0
    for idx, rec, variant, image in items:
        try:
            fails = run_case(rec, variant, image)
        except core.MachineryError:
            raise
        except Exception as exc:  # noqa: BLE001
            fails = [f"harness could not evaluate: {type(exc).__name__}: {exc}"]
        n += 1
        if fails:
            bad.append({"index": idx, "variant": variant, "image": image, **rec, "fails": fails})
    return n, bad


def run(out: core.Outcome) -> None:
    import multiprocessing as mp

    core.setup_repo_import()
    out.rule = (
        "TLC checks the protocol invariants of Refine.tla on every request; each request is executed on several images "
        "(clean, noisy, rendered from the candidate, with a neighbouring droplet) and grid spacings with least_squares wrapped "
        "by a recording proxy: solver inputs (layout of start vector and bounds), non-increase of the handed-over residual and "
        "of the independently recomputed documented objective, result class/layout/bounds, frozen coordinates, wrapping, image "
        "bytes, fixed point. Non-trivial = every executed case."
    )
    name = "q" if out.tier == "quick" else "t"
    r = core.tlc("MC_Refine", f"MC_Refine_{name}.cfg", timeout=900)
    if r.violated:
        out.violation({"tlc_config": name, "violated": r.violated, "tlc_tail": r.stdout[-3000:]})
        return
    r.require_actions(["Promote", "DefaultWidth", "Region", "NoSupport", "FreeMask", "Bounds", "Levels", "Solve", "Wrap"])
    out.add_tlc(name, r)
    cases = []
    for idx, rec in enumerate(r.printed):
        env = rec["env"]
        # every request on grids of spacing 1, 1/2, 1/4: the region rule counts cells, not lengths
        variants = [idx % 3] if out.tier == "quick" else [0, 1, 2]
        if not env["support"]:
            images = ["tiny"]
        elif env["flat"]:
            images = ["flat", "flat2"]
        else:
            images = IMAGES
        for v in variants:
            for image in images:
                if image in ("neighbour", "nanstrip") and not (rec["req"]["fam"]["name"].startswith("cart2")):
                    continue
                cases.append((idx, rec, v, image))
    # heavy 3-D cases first
    cases.sort(key=lambda c: -(c[1]["req"]["fam"]["dim"] ** 3 * (1 + c[1]["req"]["modes"])))
    chunks = [cases[i :: core.NCPU * 4] for i in range(core.NCPU * 4)]
    with mp.get_context("fork").Pool(core.NCPU) as pool:
        results = pool.map(_chunk, [c for c in chunks if c])
    nbad = 0
    for n, bad in results:
        out.evaluations += n
        nbad += len(bad)
        for b in bad:
            out.violation({"config": name, **b})
    out.nontrivial_count = out.evaluations
    out.parts[name].update(requests=len(r.printed), cases=len(cases), mismatches=nbad)
    out.sample(r.printed[len(r.printed) // 2])
    # code -> spec: random executions validated by TLC (TraceRefine.tla)
    from . import c04trace

    c04trace.run(out, 600 if out.tier == "quick" else 12000, seed0=out.seed * 1000003)
    out.exhaustive = True
    out.explanation = out.rule
    out.assumptions = [
        "the optimiser is a black box: only 'inside the bounds and not worse' is required of it",
        "on symmetric grids candidates on the axis / centre and (noisy images) slightly off it are used",
        "fixed point: judged when the supplied levels are those of the rendering (automatic levels are estimates); tolerance 1e-5 grid spacings",
    ]


def replay(out, path):
    core.setup_repo_import()
    case = json.loads(open(path).read())
    fails = run_case(case, case["variant"], case["image"])
    print("fails:", fails)
    if fails:
        print(f"VIOLATION property=C04 replay={path}")
        return 1
    return 0
