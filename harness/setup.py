"""setup_cmd: parse every specification with SANY and check that /repo imports."""
from __future__ import annotations

import sys

from . import core


def main() -> int:
    core.WORK.mkdir(exist_ok=True)
    bad = 0
    for p in sorted(core.SPECS.glob("*.tla")):
        try:
            core.sany(p.stem)
        except core.MachineryError as exc:
            print(exc, file=sys.stderr)
            bad += 1
    core.setup_repo_import()
    print(f"setup: {len(list(core.SPECS.glob('*.tla')))} modules parsed, {bad} rejected")
    return 2 if bad else 0
