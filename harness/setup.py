"""setup_cmd: parse every specification with SANY and check that /repo imports."""
from __future__ import annotations

import sys

from . import core


def main() -> int:
    core.WORK.mkdir(exist_ok=True)
    bad = 0
    for p in sorted(core.SPECS.glob("*.tla")):
        if "Apalache" in p.read_text().split("EXTENDS", 1)[-1].split("\n", 1)[0]:
            continue  # Apalache modules are parsed by apalache-mc (thorough tier of C15), not by SANY
        try:
            core.sany(p.stem)
        except core.MachineryError as exc:
            print(exc, file=sys.stderr)
            bad += 1
    core.setup_repo_import()
    print(f"setup: {len(list(core.SPECS.glob('*.tla')))} modules parsed, {bad} rejected")
    return 2 if bad else 0
