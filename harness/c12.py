"""C12 — sphere volume, surface and radius conversions are mutually consistent (SphereAlgebra.tla).

spec        : every conversion is a monomial 2^a 3^b pi^c x^p; TLC checks the round trips, "surface = d volume / d radius",
              the scaling degrees and the merge identity as equalities of exponent vectors, i.e. for all positive reals.
spec -> code: TLC enumerates conversion x dimension x variant (function, array, dimension-specialised compiled,
              dimension-generic compiled, droplet property/setter) x decade; the harness evaluates the spec's monomial
              with 50 digits and requires every real variant to agree within a few ulp, with equal shapes for array
              arguments, at zero and at extreme radii, and checks round trips and the bounding box on real droplets.
"""

from __future__ import annotations

import json
import warnings
from fractions import Fraction

import pickle

import numpy as np

from . import core

ULP = 16  # allowed distance in units in the last place (pow with exponent 1/3 is not correctly rounded)
MANT = [1.0, 1.5, 2.0, 3.0, 7.25, 9.999999999999998, 1.0000000000000002]


def mono_eval(m, x):
    import mpmath as mp

    mp.mp.dps = 50
    q = lambda t: mp.mpf(t[0]) / mp.mpf(t[1])
    k = mp.power(2, q(m["a"])) * mp.power(3, q(m["b"])) * mp.power(mp.pi, q(m["c"]))
    p = q(m["p"])
    if x == 0:
        return k if p == 0 else (mp.mpf(0) if p > 0 else mp.inf)
    return k * mp.power(mp.mpf(x), p)


def close(val, ref, ulp=ULP):
    import mpmath as mp

    val = float(val)
    if not np.isfinite(val):
        return False
    r = float(ref)
    if r == 0:
        return val == 0
    return abs(mp.mpf(val) - ref) <= ulp * abs(ref) * mp.mpf(2) ** -52


_NJ = {}


def variants(conv, dim):
    """name -> callable(x) for every real variant of the conversion"""
    import numba

    from droplets import DiffuseDroplet, SphericalDroplet
    from droplets.tools import spherical as S

    out = {}
    if conv == "volume_from_radius":
        out["function"] = lambda x: S.volume_from_radius(x, dim)
        out["compiled"] = S.make_volume_from_radius_compiled(dim)
        f = S.make_volume_from_radius_nd_compiled()
        key = ("v", dim)
        if key not in _NJ:
            _NJ[key] = numba.njit(lambda x: f(x, dim))
        out["nd_compiled"] = lambda x: (f(x, dim), _NJ[key](x))
        out["droplet"] = lambda x: (SphericalDroplet(np.zeros(dim), x).volume, DiffuseDroplet(np.ones(dim), x, 0.5).volume)
    elif conv == "radius_from_volume":
        out["function"] = lambda x: S.radius_from_volume(x, dim)
        out["compiled"] = S.make_radius_from_volume_compiled(dim)
        f = S.make_radius_from_volume_nd_compiled()
        key = ("r", dim)
        if key not in _NJ:
            _NJ[key] = numba.njit(lambda x: f(x, dim))
        out["nd_compiled"] = lambda x: (f(x, dim), _NJ[key](x))

        def via_droplet(x):
            d = SphericalDroplet(np.zeros(dim), 1.0)
            d.volume = x
            return (d.radius, SphericalDroplet.from_volume(np.zeros(dim), x).radius, DiffuseDroplet.from_volume(np.zeros(dim), x).radius)

        out["droplet"] = via_droplet
    elif conv == "surface_from_radius":
        out["function"] = lambda x: S.surface_from_radius(x, dim)
        out["compiled"] = S.make_surface_from_radius_compiled(dim)
        out["droplet"] = lambda x: (SphericalDroplet(np.zeros(dim), x).surface_area, DiffuseDroplet(np.zeros(dim), x, None).surface_area)
    elif conv == "radius_from_surface":
        out["function"] = lambda x: S.radius_from_surface(x, dim)
    else:
        out["droplet"] = lambda x: SphericalDroplet(np.zeros(dim), x).interface_curvature
    return out


def check_item(rec):
    import mpmath as mp

    conv, dim, variant, dec, mono = rec["conv"], rec["dim"], rec["variant"], rec["decade"], rec["mono"]
    fails = []
    vs = variants(conv, dim)
    if variant == "array":
        fn = vs.get("function")
    else:
        fn = vs.get(variant)
    if fn is None:
        return None  # this variant does not exist for this conversion
    xs = [m * 10.0**dec for m in MANT]
    if dec == 0:
        xs += [0.0, 1e-150, 1e120]
    with warnings.catch_warnings():
        warnings.simplefilter("ignore")
        for x in xs:
            ref = mono_eval(mono, x)
            if ref == mp.inf or (ref != 0 and not (mp.mpf("1e-290") < abs(ref) < mp.mpf("1e290"))):
                continue
            if x in (0.0,) and conv == "curvature":
                continue
            # x ** (1 / 3) uses the double nearest to 1/3: its relative error grows with |ln x|
            ulp = ULP + (int(2 * abs(float(mp.log(x)))) if (x > 0 and mono["p"][1] == 3) else 0)
            try:
                if variant == "array":
                    for arr in (np.array([x, x]), np.array(x), np.full((2, 3), x)):
                        keep = arr.copy()
                        res = np.asarray(fn(arr))
                        if not np.array_equal(arr, keep):
                            fails.append("the argument array was modified")
                        if res.shape != arr.shape:
                            fails.append(f"array argument of shape {arr.shape} gives shape {res.shape}")
                        elif not all(close(v, ref, ulp) for v in res.ravel()):
                            fails.append(f"array variant differs from the closed form at x={x!r}")
                else:
                    res = fn(x)
                    for v in (res if isinstance(res, tuple) else (res,)):
                        if np.ndim(v) != 0:
                            fails.append(f"scalar argument gives shape {np.shape(v)}")
                        elif not close(v, ref, ulp):
                            fails.append(f"{variant} variant differs from the closed form at x={x!r}: {float(v)!r} vs {float(ref)!r}")
            except Exception as exc:  # noqa: BLE001
                fails.append(f"{variant} variant raised {type(exc).__name__} at x={x!r}")
    return sorted(set(fails))


def compiled_arrays(out):
    """the dimension-specialised compiled variants: at zero, and element by element on arrays of any shape (run once, in
    this process: every new argument type costs a compilation)"""
    core.setup_repo_import()
    from droplets.tools import spherical as S

    for dim in (1, 2, 3):
        for r in (0.37, 2.5e3):
            fails = []
            # the dimension-specialised compiled variants: at zero, and element by element on arrays of any shape
            cv, cr, cs_ = S.make_volume_from_radius_compiled(dim), S.make_radius_from_volume_compiled(dim), S.make_surface_from_radius_compiled(dim)
            try:
                if cv(0.0) != 0 or cr(0.0) != 0 or cs_(0.0) != S.surface_from_radius(0.0, dim):
                    fails.append("compiled variants at zero differ from the closed form")
                for shape in ((), (3,), (2, 2)):
                    rr = np.array(r * np.array([1.0, 0.0, 2.0, 0.5])[: int(np.prod(shape)) or 1]).reshape(shape)
                    for nm, f_c, f_p in (("volume_from_radius", cv, S.volume_from_radius), ("surface_from_radius", cs_, S.surface_from_radius),
                                         ("radius_from_volume", cr, S.radius_from_volume)):
                        xx = rr if nm != "radius_from_volume" else S.volume_from_radius(rr, dim)
                        got, ref = np.asarray(f_c(xx)), np.asarray(f_p(xx, dim))
                        if got.shape != ref.shape or not np.allclose(got, ref, rtol=1e-13, atol=0):
                            fails.append(f"compiled {nm} on an array of shape {shape} differs from the closed form")
            except Exception as exc:  # noqa: BLE001
                fails.append(f"compiled variant raised {type(exc).__name__} on a float / array argument")
            out.evaluations += 1
            if fails:
                out.violation({"compiled_arrays": {"dim": dim, "r": r}, "fails": sorted(set(fails))})


def real_round_trips(seed, count):
    """round trips, setter/getter and bounding boxes on the real functions and droplets"""
    core.setup_repo_import()
    from droplets import DiffuseDroplet, SphericalDroplet
    from droplets.tools import spherical as S

    rng = np.random.default_rng(seed)
    bad = []
    for k in range(count):
        dim = int(rng.integers(1, 4))
        r = float(10 ** rng.uniform(-6, 6))
        fails = []
        v = S.volume_from_radius(r, dim)
        if abs(S.radius_from_volume(v, dim) - r) > 1e-14 * r:
            fails.append("radius_from_volume(volume_from_radius(r)) != r")
        if dim > 1:
            s = S.surface_from_radius(r, dim)
            if abs(S.radius_from_surface(s, dim) - r) > 1e-14 * r:
                fails.append("radius_from_surface(surface_from_radius(r)) != r")
        # surface = dV/dr (central difference of the real function, relative 1e-6)
        h = r * 1e-5
        dv = (S.volume_from_radius(r + h, dim) - S.volume_from_radius(r - h, dim)) / (2 * h)
        if abs(dv - S.surface_from_radius(r, dim)) > 1e-6 * abs(dv):
            fails.append("surface is not the derivative of the volume")
        # arrays that mix vanished droplets (0) with ordinary ones: element by element the scalar results
        arr = np.array([0.0, v, 0.0, 8 * v, v / 7])
        ra = S.radius_from_volume(arr, dim)
        if not np.all(np.isfinite(ra)) or ra[0] != 0 or ra[2] != 0 or \
                any(abs(ra[i] - S.radius_from_volume(float(arr[i]), dim)) > 1e-14 * r * 3 for i in (1, 3, 4)):
            fails.append("radius_from_volume of an array containing zeros differs from the scalar results")
        va = S.volume_from_radius(np.array([0.0, r, 2 * r, 0.0]), dim)
        if not np.all(np.isfinite(va)) or va[0] != 0 or va[3] != 0 or abs(va[1] - v) > 1e-14 * v:
            fails.append("volume_from_radius of an array containing zeros differs from the scalar results")
        if dim > 1:
            sa = S.surface_from_radius(np.array([0.0, r, 0.0]), dim)
            rs = S.radius_from_surface(np.array([0.0, float(sa[1]), 0.0]), dim)
            if not np.all(np.isfinite(sa)) or sa[0] != 0 or not np.all(np.isfinite(rs)) or rs[0] != 0 or abs(rs[1] - r) > 1e-14 * r:
                fails.append("surface conversions of an array containing zeros differ from the scalar results")
        if dim == 2:
            # 2-D perturbed droplets with an odd and an even number of amplitudes: volume setter and getter agree
            from droplets.droplets import PerturbedDroplet2D

            for na in (1, 2, 3, 5):
                import warnings as _w

                with _w.catch_warnings():
                    _w.simplefilter("ignore")
                    pd = PerturbedDroplet2D(rng.uniform(-5, 5, 2), r, None, rng.uniform(-0.2, 0.2, na))
                pd.volume = 1.75 * v
                if abs(pd.volume - 1.75 * v) > 1e-13 * v:
                    fails.append(f"perturbed 2-D droplet with {na} amplitudes: setting the volume and reading it back")
        pos = rng.uniform(-5, 5, dim)
        for cls in (SphericalDroplet, DiffuseDroplet):
            z = cls(pos, 0.0)      # a vanished droplet can be given a volume again
            try:
                z.volume = v
                if abs(z.volume - v) > 1e-14 * v or abs(z.radius - r) > 1e-14 * r:
                    fails.append("setting the volume of a droplet of radius 0 and reading it back")
            except Exception as exc:  # noqa: BLE001
                fails.append(f"setting the volume of a droplet of radius 0 raised {type(exc).__name__}")
            d = cls(pos, r)
            if k % 4 == 1:
                d = pickle.loads(pickle.dumps(d))      # droplets travel through pickle to and from worker processes
            elif k % 4 == 2:
                d = d.copy()
            elif k % 4 == 3:
                d = cls.from_data(d.data.copy())
            d.volume = v * 1.5
            if abs(d.volume - v * 1.5) > 1e-14 * v:
                fails.append("setting the volume and reading it back")
            # a change of the volume far below any plotting resolution is still a change (slow growth / ripening)
            for delta in (3e-10, -7e-10, 1e-12):
                v1 = d.volume * (1 + delta)
                d.volume = v1
                if abs(d.volume - v1) > 1e-13 * v1 or abs(d.radius - S.radius_from_volume(v1, dim)) > 1e-13 * r:   # cube roots: a few ulp times |ln x|
                    fails.append(f"setting the volume to a value {delta:g} (relative) away and reading it back")
            if abs(S.surface_from_radius(d.radius, dim) - d.surface_area) > 1e-14 * abs(d.surface_area) and dim > 1:
                fails.append("surface area does not follow the volume that was set")
            d.radius = r
            b = d.bbox
            bb = np.asarray(b.bounds)
            tol = 1e-13 * (np.abs(pos).max() + r)
            if np.max(np.abs(bb[:, 0] - (pos - r))) > tol or np.max(np.abs(bb[:, 1] - (pos + r))) > tol:
                fails.append("bounding box is not position -/+ radius")
            if d.interface_curvature != 1 / r:
                fails.append("curvature is not 1 / radius")
        if fails:
            bad.append({"round_trip": {"seed": seed, "k": k, "dim": dim, "r": r}, "fails": sorted(set(fails))})
    return count, bad


def run(out: core.Outcome) -> None:
    import multiprocessing as mp

    core.setup_repo_import()
    out.rule = (
        "TLC checks the monomial identities (for all positive reals) and enumerates conversion x dimension x variant x "
        "decade; each real variant is compared with the 50-digit value of the spec's monomial at seven mantissas per "
        "decade (plus 0, 1e-150, 1e120), arrays of three shapes must keep their shape; round trips, volume "
        "setter, bounding box and curvature are checked on real droplets. Non-trivial = all evaluated configurations."
    )
    name = "q" if out.tier == "quick" else "t"
    r = core.tlc("MC_SphereAlgebra", f"MC_SphereAlgebra_{name}.cfg", timeout=900)
    if r.violated:
        out.violation({"tlc_config": name, "violated": r.violated, "tlc_tail": r.stdout[-3000:]})
        return
    out.add_tlc(name, r)
    missing = 0
    for rec in r.printed:
        res = check_item(rec)
        if res is None:
            missing += 1
            continue
        out.evaluations += 1
        out.nontrivial_count += 1
        if res:
            out.violation({"config": name, **rec, "fails": res})
    out.parts[name].update(configurations=len(r.printed), variants_not_existing=missing)
    out.sample(r.printed[len(r.printed) // 2])
    n = 400 if out.tier == "quick" else 20000
    per = n // core.NCPU
    with mp.get_context("fork").Pool(core.NCPU) as pool:
        res = pool.starmap(real_round_trips, [(out.seed * 50 + k, per) for k in range(core.NCPU)])
    for cnt, bad in res:
        out.traces += cnt
        for b in bad:
            out.violation(b)
    out.exhaustive = True
    compiled_arrays(out)
    out.explanation = out.rule
    out.assumptions = [
        "the identities are decided symbolically (exponent vectors) by TLC; floating-point agreement is sampled",
        f"agreement within {ULP} ulp of the 50-digit value (cube roots are not correctly rounded)",
        "arguments are floats / float arrays as in the type hints (integer arguments to compiled variants are not judged)",
    ]


def replay(out, path):
    core.setup_repo_import()
    case = json.loads(open(path).read())
    if "conv" in case:
        res = check_item(case)
    else:
        rt = case["round_trip"]
        n, bad = real_round_trips(rt["seed"], rt["k"] + 1)
        res = [f for b in bad if b["round_trip"]["k"] == rt["k"] for f in b["fails"]]
    print("fails:", res)
    if res:
        print(f"VIOLATION property=C12 replay={path}")
        return 1
    return 0
