"""C20, code -> spec: long random operation sequences on real collections, validated by TraceCollections.tla.

A seeded driver performs sequences of public calls (all 24 operations of Collections.tla, arguments drawn from the
alphabets of MC_TraceCollections.tla, guards of the spec respected) on real droplets / Emulsion / EmulsionTimeCourse /
DropletTrack objects and logs, per call, the arguments, the exception name and the canonical observable state
(values in slot order, for every slot the first slot holding the same object -- found by writing through handles --,
layouts, times).  TLC accepts a log only if every event is a step of the spec's action with exactly that outcome, and
checks Aligned / Owned / ArrShared on the way.
"""

from __future__ import annotations

import json
import os
import random
from fractions import Fraction

from . import core
from . import c20

TIMEPOOL = [-3, 0, 2, 7]
INIT = [
    {"k": "S1", "r": 2, "x": [0, 1], "w": -1}, {"k": "S1", "r": 1, "x": [2, 1], "w": -1}, {"k": "S1", "r": 0, "x": [5, 1], "w": -1},
    {"k": "D1", "r": 1, "x": [6, 1], "w": 0}, {"k": "D1", "r": 2, "x": [9, 1], "w": 2}, {"k": "S2", "r": 1, "x": [3, 1], "w": -1},
]
MAXREFS, MAXEV, MAXTCS, MAXTRKS, MAXLEN = 12, 8, 4, 4, 6
MAXTRKS_ALL = 12   # tracks created by tracking / loading track lists may go beyond MAXTRKS


def kind_of(d):
    cls = type(d).__name__
    dim = len(d.position)
    return {("SphericalDroplet", 1): "S1", ("SphericalDroplet", 2): "S2", ("DiffuseDroplet", 1): "D1"}[(cls, dim)]


def value_of(d):
    k = kind_of(d)
    x = Fraction(float(d.position[0])).limit_denominator(10**6)
    if abs(float(x) - float(d.position[0])) > 1e-12 * max(1.0, abs(float(x))):
        raise core.MachineryError("position is not a small rational")
    r = float(d.data["radius"])
    if r != int(r):
        raise core.MachineryError("radius is not an integer")
    w = -1
    if k == "D1":
        iw = d.interface_width
        w = -1 if iw is None else int(iw)
        if iw is not None and iw != int(iw):
            raise core.MachineryError("width is not an integer")
    return {"k": k, "r": int(r), "x": [x.numerator, x.denominator], "w": w}


def canon(w: c20.World):
    """the observation Canon(s) of TraceCollections.tla, computed from the real objects"""
    vals, arr_vals, dpart, epart = c20.observe(w)
    slots = [s for s, _ in w.droplet_slots()]
    order = {s: i + 1 for i, s in enumerate(slots)}
    narr = len(w.arr) if w.arr is not None else 0
    for i in range(narr):
        order[("a", i + 1, 0, 0)] = len(slots) + i + 1
    rep = {}
    for grp in dpart:
        first = min(order[g] for g in grp)
        for g in grp:
            rep[order[g]] = first
    objs = dict(w.droplet_slots())
    valseq = [value_of(objs[s]) for s in slots]
    # rows of the linked array: value of the droplet sharing the row, or of the row itself
    for i in range(narr):
        pos = len(slots) + i + 1
        if rep[pos] != pos:
            valseq.append(valseq[rep[pos] - 1])
        else:
            row = w.arr[i]
            x = Fraction(float(row["position"][0])).limit_denominator(10**6)
            names = row.dtype.names
            k = "D1" if "interface_width" in names else ("S1" if len(row["position"]) == 1 else "S2")
            wv = -1
            if k == "D1":
                import math

                wv = -1 if math.isnan(float(row["interface_width"])) else int(row["interface_width"])
            valseq.append({"k": k, "r": int(row["radius"]), "x": [x.numerator, x.denominator], "w": wv})
    eslots = [s for s, _ in w.emulsion_slots()]
    eorder = {s: i + 1 for i, s in enumerate(eslots)}
    erep = {}
    for grp in epart:
        first = min(eorder[g] for g in grp)
        for g in grp:
            erep[eorder[g]] = first
    return {
        "vals": valseq,
        "rep": [rep[i + 1] for i in range(len(slots) + narr)],
        "erep": [erep[i + 1] for i in range(len(eslots))],
        "nrefs": len(w.refs),
        "ev": [{"len": len(e), "dt": c20._layout_name(e.dtype)} for e in w.ev],
        "tcs": [{"times": [int(t) for t in tc.times], "ems": [{"len": len(e), "dt": c20._layout_name(e.dtype)} for e in tc.emulsions]} for tc in w.tcs],
        "trks": [{"times": [int(t) for t in tr.times], "len": len(tr.droplets)} for tr in w.trks],
        "tls": [[1 + next(i for i, tr in enumerate(w.trks) if tr is x) for x in tl] for tl in w.tls],
        "files": [_file_state(w, p) for p in (1, 2)],
        "narr": narr,
    }


def _file_state(w, p):
    import h5py

    path = w.path(p)
    if not os.path.exists(path):
        return {"kind": "none", "nsets": 0}
    with h5py.File(path, "r") as fp:
        n = len(fp)
    return {"kind": w.file_kind[p], "nsets": n}


def _nsets(w, p):
    import h5py

    with h5py.File(w.path(p), "r") as fp:
        return len(fp)


def dim_of(d):
    return len(d.position)


def mergeable(a, b):
    if kind_of(a) != kind_of(b) or dim_of(a) != 1 or a.radius + b.radius <= 0:
        return False
    if kind_of(a) == "D1":
        wa, wb = a.interface_width, b.interface_width
        if wa is None or wb is None or (int(wa) + int(wb)) % 2:
            return False
    return True


def candidates(w: c20.World, rng):
    """enabled operations (guards of Collections.tla), one random instance per operation name"""
    ops = []
    ne, nr = len(w.ev), len(w.refs)
    L = [rng.randint(1, nr) for _ in range(rng.randint(0, 3))]
    if ne < MAXEV:
        ops.append({"op": "EmNew", "L": L, "copy": rng.random() < 0.7})
    if ne:
        e = rng.randint(1, ne)
        em = w.ev[e - 1]
        if len(em) < MAXLEN:
            ops.append({"op": "EmAppend", "e": e, "i": rng.randint(1, nr), "copy": rng.random() < 0.7, "force": rng.random() < 0.4})
        e2 = rng.randint(1, ne)
        if w.ev[e2 - 1] is not em and len(em) + len(w.ev[e2 - 1]) <= MAXLEN:
            ops.append({"op": "EmExtend", "e": e, "e2": e2, "copy": rng.random() < 0.7, "force": rng.random() < 0.4})
        if ne < MAXEV:
            ops.append({"op": "EmCopy", "e": e, "mr": rng.choice([-1, 0, 1])})
            lo = rng.randint(0, len(em))
            ops.append({"op": "EmSlice", "e": e, "lo": lo, "hi": rng.randint(lo, len(em))})
            if len(em) + len(w.ev[e2 - 1]) <= MAXLEN:
                ops.append({"op": "EmAdd", "e1": e, "e2": e2})
        if len(em) and nr < MAXREFS:
            ops.append({"op": "EmIndex", "e": e, "i": rng.randint(1, len(em))})
        ops.append({"op": "EmRemoveSmall", "e": e, "mr": rng.choice([-1, 0, 1])})
        if all(dim_of(d) == 1 for d in em):
            ops.append({"op": "EmRemoveOv", "e": e, "m": rng.choice([-1, 0, 1])})
        kinds = {kind_of(d) for d in em}
        classes = {type(d).__name__ for d in em}
        if len(em) == 0 or len(classes) > 1 or len(kinds) == 1:
            ops.append({"op": "EmLink", "e": e})
        if len(em) >= 2:
            i, j = rng.sample(range(1, len(em) + 1), 2)
            if em[i - 1] is not em[j - 1] and mergeable(em[i - 1], em[j - 1]):
                inplace = rng.random() < 0.5
                if inplace or nr < MAXREFS:
                    ops.append({"op": "EmMerge", "e": e, "i": i, "j": j, "inplace": inplace})
        if w.tcs:
            c = rng.randint(1, len(w.tcs))
            if len(w.tcs[c - 1].emulsions) < MAXLEN:
                if rng.random() < 0.5:
                    ops.append({"op": "TcAppend", "c": c, "e": e, "t": 0, "explicit": False})
                else:
                    ops.append({"op": "TcAppend", "c": c, "e": e, "t": rng.choice(TIMEPOOL), "explicit": True})
        if len(w.tcs) < MAXTCS:
            Le = [rng.randint(1, ne) for _ in range(rng.randint(0, 3))]
            if rng.random() < 0.5:
                ops.append({"op": "TcNew", "L": Le, "times": [], "explicit": False})
            else:
                ops.append({"op": "TcNew", "L": Le, "times": [rng.choice(TIMEPOOL) for _ in range(rng.choice([len(Le), len(Le), rng.randint(0, 3)]))], "explicit": True})
    if w.arr is not None and len(w.arr):
        ops.append({"op": "ArrWrite", "i": rng.randint(1, len(w.arr)), "r": rng.choice([0, 3])})
    i = rng.randint(1, nr)
    r = rng.choice([0, 3])
    if float(w.refs[i - 1].data["radius"]) != r:
        ops.append({"op": "Mutate", "i": i, "r": r})
    if w.tcs:
        c = rng.randint(1, len(w.tcs))
        tc = w.tcs[c - 1]
        if len(w.tcs) < MAXTCS:
            lo = rng.randint(0, len(tc.emulsions))
            ops.append({"op": "TcSlice", "c": c, "lo": lo, "hi": rng.randint(lo, len(tc.emulsions))})
            ops.append({"op": "TcCopy", "c": c})
        if len(tc.emulsions) and ne < MAXEV:
            ops.append({"op": "TcIndex", "c": c, "i": rng.randint(1, len(tc.emulsions))})
        if len(tc.emulsions):
            ops.append({"op": "TcClear", "c": c})
    p = rng.randint(1, 2)
    if ne:
        ops.append({"op": "EmSave", "e": rng.randint(1, ne), "p": p})
    if w.file_kind[p] == "em" and ne < MAXEV:
        ops.append({"op": "EmLoad", "p": p})
    if w.tcs:
        ops.append({"op": "TcSave", "c": rng.randint(1, len(w.tcs)), "p": p})
    if w.file_kind[p] == "tc" and len(w.tcs) < MAXTCS:
        ops.append({"op": "TcLoad", "p": p})
    if w.trks:
        ops.append({"op": "TrkSave", "k": rng.randint(1, len(w.trks)), "p": p})
    if w.file_kind[p] in ("trk", "tl") and len(w.trks) < MAXTRKS:
        ops.append({"op": "TrkLoad", "p": p})
    if w.tls:
        ops.append({"op": "TlSave", "l": rng.randint(1, len(w.tls)), "p": p})
    if w.file_kind[p] in ("trk", "tl") and len(w.tls) < 3 and len(w.trks) + _nsets(w, p) <= MAXTRKS_ALL:
        ops.append({"op": "TlLoad", "p": p})
    if ne < MAXEV:
        ops.append({"op": "EmLocate", "g": rng.randint(1, len(c20.IMAGES_A)), "w": rng.choice([-1, 2])})
    if len(w.tcs) < MAXTCS:
        ops.append({"op": "TcFromStorage", "L": [rng.randint(1, len(c20.IMAGES_A)) for _ in range(rng.randint(1, 3))], "w": rng.choice([-1, 2])})
    if w.tcs and len(w.tls) < 3:
        c = rng.randint(1, len(w.tcs))
        members = [d for em in w.tcs[c - 1].emulsions for d in list.__iter__(em)]
        if all(dim_of(d) == 1 for d in members) and len(w.trks) + len(members) <= MAXTRKS_ALL:
            meth, md = rng.choice([("overlap", -1), ("distance", -1), ("distance", 2), ("distance", 0)])
            ops.append({"op": "TlFromTc", "c": c, "meth": meth, "md": md})
    if len(w.trks) < MAXTRKS:
        if rng.random() < 0.5:
            ops.append({"op": "TrkNew", "L": L, "times": [], "explicit": False})
        else:
            ops.append({"op": "TrkNew", "L": L, "times": [rng.choice(TIMEPOOL) for _ in range(rng.choice([len(L), len(L), rng.randint(0, 3)]))], "explicit": True})
    if w.trks:
        k = rng.randint(1, len(w.trks))
        tr = w.trks[k - 1]
        if len(tr.droplets) < MAXLEN:
            if rng.random() < 0.5:
                ops.append({"op": "TrkAppend", "k": k, "i": rng.randint(1, nr), "t": 0, "explicit": False})
            else:
                ops.append({"op": "TrkAppend", "k": k, "i": rng.randint(1, nr), "t": rng.choice(TIMEPOOL), "explicit": True})
        if len(w.trks) < MAXTRKS:
            lo = rng.randint(0, len(tr.droplets))
            ops.append({"op": "TrkSlice", "k": k, "lo": lo, "hi": rng.randint(lo, len(tr.droplets))})
            ops.append({"op": "TrkCopy", "k": k})
        if len(tr.droplets) and nr < MAXREFS:
            ops.append({"op": "TrkIndex", "k": k, "i": rng.randint(1, len(tr.droplets))})
        if len(w.tls) < 3:
            ops.append({"op": "TlNew", "L": [rng.randint(1, len(w.trks)) for _ in range(rng.randint(0, 3))]})
    if w.tls:
        l = rng.randint(1, len(w.tls))
        if len(w.tls) < 3:
            lo = rng.randint(0, len(w.tls[l - 1]))
            ops.append({"op": "TlSlice", "l": l, "lo": lo, "hi": rng.randint(lo, len(w.tls[l - 1]))})
        ops.append({"op": "TlRemoveShort", "l": l, "md": rng.choice([-1, 0, 2])})
    return ops


def record(seed, length):
    core.setup_repo_import()
    rng = random.Random(seed)
    init = [INIT[i] for i in sorted(rng.sample(range(len(INIT)), rng.randint(3, len(INIT))))]
    w = c20.World(init)
    events = []
    for _ in range(length):
        ops = candidates(w, rng)
        if not ops:
            break
        o = rng.choice(ops)
        err = w.apply(o)
        try:
            obs = canon(w)
        except core.MachineryError:
            break  # left the lattice (e.g. a non-integer width): the log ends here
        events.append({"o": o, "e": err, "obs": obs})
    w.cleanup()
    return {"init": init, "events": events, "seed": seed}


def _record_many(seeds_len):
    seeds, length = seeds_len
    return [record(s, length) for s in seeds]


def run(out: core.Outcome) -> None:
    import multiprocessing as mp

    ntr, length = (48, 25) if out.tier == "quick" else (640, 40)
    seeds = [out.seed * 100003 + i for i in range(ntr)]
    per = max(1, ntr // core.NCPU)
    with mp.get_context("fork").Pool(core.NCPU) as pool:
        parts = pool.map(_record_many, [(seeds[i : i + per], length) for i in range(0, ntr, per)])
    traces = [t for p in parts for t in p]
    # binding self-test: a log with one corrupted field (an aliasing representative / a radius) must be rejected
    import copy

    bogus = copy.deepcopy(next(t for t in traces if len(t["events"]) >= 5))
    k = len(bogus["events"]) // 2
    obs = bogus["events"][k]["obs"]
    if len(obs["rep"]) >= 2 and obs["rep"][-1] != 1:
        obs["rep"][-1] = 1
    else:
        obs["vals"][0]["r"] += 1
    bogus["corrupted_at"] = k + 1
    traces.append(bogus)
    core.WORK.mkdir(exist_ok=True)
    accepted = 0
    events = 0
    batch = 16
    ops_seen = set()
    for s in range(0, len(traces), batch):
        part = traces[s : s + batch]
        tf = core.WORK / f"trace-coll-{os.getpid()}-{s}.json"
        tf.write_text(json.dumps(part))
        try:
            r = core.tlc("MC_TraceCollections", "TraceCollections.cfg", workers=core.NCPU, env={"TRACE_FILE": str(tf)}, coverage=False,
                         timeout=1800, tag=f"tracecoll-{s}")
        finally:
            tf.unlink(missing_ok=True)
        if r.violated:
            out.violation({"trace_validation": "invariant violated while validating a recorded log", "violated": r.violated, "tlc_tail": r.stdout[-2500:]})
            continue
        out.transitions += r.generated
        reached = {}
        for v in r.printed:
            reached[v["tid"]] = max(reached.get(v["tid"], 0), v["n"])
        for i, t in enumerate(part, 1):
            out.traces += 1
            events += len(t["events"])
            ops_seen.update(e["o"]["op"] for e in t["events"])
            got = reached.get(i, 0)
            if "corrupted_at" in t:
                out.traces -= 1
                if got >= t["corrupted_at"]:
                    raise core.MachineryError("TraceCollections accepted a corrupted log (binding is vacuous)")
                out.extra["corrupted_log_rejected_at_event"] = got + 1
                continue
            if got == len(t["events"]):
                accepted += 1
            else:
                ev = t["events"][got]
                out.violation({"recorded_log": {"seed": t["seed"], "init": t["init"], "rejected_at_event": got + 1, "call": ev["o"],
                                                "exception": ev["e"], "ops_before": [e["o"] for e in t["events"][:got]]},
                               "fails": ["the recorded call with this outcome is not a step of Collections.tla"]})
    out.parts["recorded_logs"] = {"logs": len(traces) - 1, "accepted": accepted, "events": events, "operations_seen": sorted(ops_seen)}
    if len(ops_seen) < 20:
        raise core.MachineryError(f"random driver exercised only {sorted(ops_seen)}")
