"""C03 — a rendered phase field is a faithful, finite picture of the droplet (Render.tla).

spec -> code : TLC enumerates every lattice droplet (centre anywhere within a margin around the box, incl. exactly on
               cell centres and outside the box; integer squared radii from 0 to larger than the box) on small
               Cartesian grids of every periodicity mask and checks RollEquivariant, PeriodInvariant, Monotone,
               OrderFree, NoWrapOpenAxes on the exact distance field.  Every droplet is rendered by the real code as
               SphericalDroplet and as DiffuseDroplet with width None / 0 / positive and several (vmin, vmax) pairs:
               finiteness, range, exact indicator for sharp droplets, "> midpoint iff Q < r2" cell by cell,
               monotonicity in the spec's exact Q, translation by whole cells = np.roll, emulsion = clipped sum,
               independent of order.
conformance  : perturbed classes (2-D, 3-D, axisymmetric) and polar / spherical / cylindrical grids are compared
               with an independent evaluation of the documented shape functions (numeric oracle, not TLC).
"""

from __future__ import annotations

import itertools
import json
import math
import warnings

import numpy as np

from . import core

QUICK = ["q_1d", "q_1do", "q_2d", "q_2dpp"]
THOROUGH = QUICK + ["t_2d2", "t_2dpp", "t_3d", "t_1d3"]
H = 0.25  # physical size of one lattice unit
# the last three are not dyadic: vmin + (vmax - vmin) is then rounded (F22)
LEVELS = [(0.0, 1.0), (-1.0, 1.0), (2.0, 5.0), (-0.25, 0.125), (1.0, 0.0), (-0.1, 0.3), (0.2, -0.1), (-0.3, 0.1)]


def cfg_params(name):
    txt = (core.SPECS / f"MC_Render_{name}.cfg").read_text()
    vals = {}
    for line in txt.splitlines():
        line = line.strip()
        if "=" in line and "<-" not in line:
            k, v = [x.strip() for x in line.split("=", 1)]
            vals[k] = v
    dim = int(vals["DimC"])
    shape = [int(vals[f"N{i}"]) for i in range(1, dim + 1)]
    per = [vals[f"P{i}"] == "TRUE" for i in range(1, dim + 1)]
    dx = [int(vals[f"DX{i}"]) for i in range(1, dim + 1)]
    x0 = [int(vals[f"O{i}"]) - 16 for i in range(1, dim + 1)]
    return dim, shape, per, dx, x0


def make_grid(shape, per, dx, x0):
    from pde import CartesianGrid

    return CartesianGrid([(o * H, (o + n * d) * H) for o, n, d in zip(x0, shape, dx)], shape, periodic=per)


def _check_field(data, q, r2, vmin, vmax, sharp, fails, tag):
    lo, hi = min(vmin, vmax), max(vmin, vmax)
    if not np.all(np.isfinite(data)):
        fails.append(f"{tag}: non-finite value")
        return
    if data.min() < lo or data.max() > hi:
        fails.append(f"{tag}: value outside [vmin, vmax]")
    inside = q < r2
    mid = (vmin + vmax) / 2
    above = (data > mid) if vmax > vmin else (data < mid)
    # a centre exactly ON the interface renders the midpoint itself; with levels that are not dyadic the scaled value and
    # (vmin + vmax) / 2 are two differently rounded numbers, so that cell is a knife-edge and is not judged
    dyadic = all(float(x * 8).is_integer() for x in (vmin, vmax))
    judged = np.ones(q.shape, bool) if dyadic or sharp else (q != r2)
    if not np.array_equal(above[judged], inside[judged]):
        fails.append(f"{tag}: cells beyond the midpoint differ from the cells inside the interface")
    if sharp:
        if not np.array_equal(data, np.where(inside, vmax, vmin)):
            fails.append(f"{tag}: sharp droplet is not the exact indicator")
    # never increases with distance
    order = np.argsort(q.ravel(), kind="stable")
    v = data.ravel()[order] if vmax > vmin else -data.ravel()[order]
    qs = q.ravel()[order]
    # values of strictly farther cells must not be larger; equal Q -> equal value
    runmin = np.minimum.accumulate(v)
    if np.any(v > runmin + 1e-12 * max(1.0, abs(hi - lo))):
        fails.append(f"{tag}: value increases with distance")
    same = qs[1:] == qs[:-1]
    if np.any(np.abs(v[1:][same] - v[:-1][same]) > 1e-12 * max(1.0, abs(hi - lo))):
        fails.append(f"{tag}: equal distances, different values")


def check_record(rec, dim, shape, per, dx, x0, idx):
    from droplets import DiffuseDroplet, Emulsion, SphericalDroplet

    fails = []
    grid = make_grid(shape, per, dx, x0)
    qs = [np.array(qq, dtype=np.int64).reshape(shape) for qq in rec["q"]]
    vmin, vmax = LEVELS[idx % len(LEVELS)]
    wpos = [0.5 * min(dx) * H, 1.0 * max(dx) * H, 3.0 * min(dx) * H][idx % 3]
    objs = []
    for d, q in zip(rec["drops"], qs):
        pos = np.array([p * H for p in d["pos"]], float)
        r = math.sqrt(d["r2"]) * H
        variants = [("spherical", SphericalDroplet(pos, r), True), ("diffuse-w0", DiffuseDroplet(pos, r, 0.0), True),
                    ("diffuse-none", DiffuseDroplet(pos, r, None), False), ("diffuse-w", DiffuseDroplet(pos, r, wpos), False)]
        for tag, obj, sharp in variants:
            for (a, b) in ((0.0, 1.0), (vmin, vmax)):
                f = obj.get_phase_field(grid, vmin=a, vmax=b)
                _check_field(f.data, q, d["r2"], a, b, sharp, fails, f"{tag} levels=({a},{b})")
            base = obj.get_phase_field(grid).data
            # translation by whole cells along periodic axes rolls the field
            for a in range(dim):
                if per[a]:
                    for k in (1, -2, shape[a], idx % shape[a]):
                        moved = obj.copy()
                        p2 = np.array(moved.position)
                        p2[a] += k * dx[a] * H
                        moved.position = p2
                        g = moved.get_phase_field(grid).data
                        if np.max(np.abs(g - np.roll(base, k, axis=a))) > 1e-12:
                            fails.append(f"{tag}: translating by {k} cells along periodic axis {a} does not roll the field")
        objs.append((SphericalDroplet(pos, r), DiffuseDroplet(pos, r, wpos)))
    # emulsion = clipped sum, independent of order
    for which in (0, 1, 2):
        # 2: a mixed emulsion -- a plain spherical droplet first, diffuse ones after it (each keeps its own profile)
        ds = [o[which] for o in objs] if which < 2 else [objs[0][0]] + [o[1] for o in objs[1:]] + [objs[0][1]]
        em = Emulsion(ds)
        total = em.get_phasefield(grid).data
        ref = np.clip(sum(d.get_phase_field(grid).data for d in ds), 0, 1)
        if not np.all(np.isfinite(total)) or np.max(np.abs(total - ref)) > 1e-12:
            fails.append("emulsion field is not the clipped sum of the droplets' fields")
        if total.min() < 0 or total.max() > 1:
            fails.append("emulsion field outside [0, 1]")
        if which == 0:
            union = np.zeros(shape, bool)
            for d, q in zip(rec["drops"], qs):
                union |= q < d["r2"]
            if not np.array_equal(total > 0.5, union) or not np.array_equal(total, union.astype(float)):
                fails.append("sharp emulsion is not the indicator of the union")
        for perm in list(itertools.permutations(range(len(ds))))[1:3]:
            t2 = Emulsion([ds[i] for i in perm]).get_phasefield(grid).data
            if np.max(np.abs(t2 - total)) > 1e-12:
                fails.append("emulsion field depends on droplet order")
    if len(objs) == 0 or True:
        pass
    return fails


def _chunk(args):
    items, params = args
    core.setup_repo_import()
    bad = []
    for idx, rec in items:
        try:
            with warnings.catch_warnings():
                warnings.simplefilter("ignore")
                fails = check_record(rec, *params, idx)
        except Exception as exc:  # noqa: BLE001
            fails = [f"raised {type(exc).__name__}: {exc}"]
        if fails:
            bad.append({"index": idx, "drops": rec["drops"], "q": rec["q"], "fails": sorted(set(fails))[:8]})
            if len(bad) > 40:
                break
    return len(items), bad


# ------------------------------------------------------------------ numeric oracle for the other classes / grids
def real_harmonic(l, m, theta, phi):
    """Real spherical harmonics from associated Legendre functions (independent of scipy's sph_harm_y)."""
    from scipy.special import factorial, lpmv

    am = abs(m)
    norm = np.sqrt((2 * l + 1) / (4 * np.pi) * factorial(l - am) / factorial(l + am))
    pl = (-1) ** am * lpmv(am, l, np.cos(theta))  # remove the Condon-Shortley phase
    if m == 0:
        return norm * lpmv(0, l, np.cos(theta))
    if m > 0:
        return np.sqrt(2) * norm * pl * np.cos(am * phi)
    return np.sqrt(2) * norm * pl * np.sin(am * phi)


def interface_distance_ref(cls, radius, amps, theta, phi):
    dist = np.ones_like(theta, dtype=float)
    if cls == "PerturbedDroplet2D":
        for k, a in enumerate(amps):
            n = k // 2 + 1
            dist += a * (np.sin(n * theta) if k % 2 == 0 else np.cos(n * theta))  # theta plays the role of the polar angle
    elif cls == "PerturbedDroplet3D":
        for k, a in enumerate(amps, 1):
            l = int(math.isqrt(k))
            m = k - l * (l + 1)
            dist += a * real_harmonic(l, m, theta, phi)
    else:
        for l, a in enumerate(amps, 1):
            dist += a * real_harmonic(l, 0, theta, phi)
    return radius * dist


def _zonal_amps(rng):
    """amplitudes of an axisymmetric droplet: 1-4 low modes, or up to 9 modes with the weight in one HIGH zonal mode (whose
    harmonic exceeds 1 at the poles: sqrt((2l+1)/4 pi) > 1 from l = 6 on)"""
    if rng.random() < 0.5:
        return rng.uniform(-0.3, 0.3, int(rng.integers(1, 5)))
    n = int(rng.integers(6, 10))
    amps = rng.uniform(-0.02, 0.02, n)
    amps[n - 1] = rng.choice([-1, 1]) * rng.uniform(0.3, 0.45)    # a pronounced bulge / dent at the poles
    return amps


def cell_vectors(grid, pos):
    """Min-image difference vectors (Cartesian) from pos to every cell centre, computed independently."""
    from pde import CartesianGrid, CylindricalSymGrid

    if isinstance(grid, CartesianGrid):
        axes = [np.asarray(grid.axes_coords[a]) for a in range(grid.dim)]
        mesh = np.meshgrid(*axes, indexing="ij")
        diff = []
        for a in range(grid.dim):
            d = mesh[a] - pos[a]
            if grid.periodic[a]:
                L = grid.axes_bounds[a][1] - grid.axes_bounds[a][0]
                d = (d + L / 2) % L - L / 2
            diff.append(d)
        return np.stack(diff, axis=-1)
    if isinstance(grid, CylindricalSymGrid):
        r, z = np.meshgrid(grid.axes_coords[0], grid.axes_coords[1], indexing="ij")
        return np.stack([r - pos[0], 0 * r - pos[1], z - pos[2]], axis=-1)
    r = np.asarray(grid.axes_coords[0])  # polar / spherical: the radial line
    out = np.zeros(r.shape + (grid.dim,))
    out[..., -1 if grid.dim == 3 else 0] = r
    return out - np.asarray(pos)


def _oracle_cases(seed, count):
    core.setup_repo_import()
    from pde import CartesianGrid, CylindricalSymGrid, PolarSymGrid, SphericalSymGrid

    from droplets import droplets as D

    rng = np.random.default_rng(seed)
    bad = []
    n = 0
    for k in range(count):
        kind = ["p2", "p3", "pa_cyl", "pa_c3", "polar", "sph", "cyl", "p2", "p3"][k % 9]
        w = [None, 0.0, float(rng.uniform(0.3, 1.5))][int(rng.integers(0, 3))]
        vmin, vmax = LEVELS[[0, 1, 2, 3, 5, 7][int(rng.integers(0, 6))]]
        on_centre = rng.random() < 0.4
        if kind == "p2":
            grid = CartesianGrid([[-1, 7], [0, 6]], [16, 12], periodic=[bool(rng.integers(0, 2)), bool(rng.integers(0, 2))])
            pos = np.array([rng.uniform(-3, 9), rng.uniform(0, 6)])
            if on_centre:
                pos = np.array([grid.axes_coords[0][int(rng.integers(0, 16))], grid.axes_coords[1][int(rng.integers(0, 12))]])
            amps = rng.uniform(-0.3, 0.3, int(rng.integers(1, 6)))
            obj = D.PerturbedDroplet2D(pos, float(rng.uniform(0.6, 0.95) if on_centre and k % 2 else rng.uniform(0.8, 2.5)), w, amps)
        elif kind in ("p3", "pa_c3"):
            grid = CartesianGrid([[0, 6], [0, 6], [-2, 4]], [8, 8, 8], periodic=[bool(rng.integers(0, 2)), False, bool(rng.integers(0, 2))])
            if kind == "p3":
                pos = np.array([rng.uniform(0, 6), rng.uniform(1, 5), rng.uniform(-2, 4)])
                if on_centre:
                    pos = np.array([grid.axes_coords[a][int(rng.integers(0, 8))] for a in range(3)])
                amps = rng.uniform(-0.25, 0.25, int(rng.integers(1, 9)))
                obj = D.PerturbedDroplet3D(pos, float(rng.uniform(1.0, 2.5)), w, amps)
            else:
                grid = CartesianGrid([[-3, 3], [-3, 3], [-2, 4]], [8, 8, 8], periodic=[False, False, bool(rng.integers(0, 2))])
                pos = np.array([0.0, 0.0, rng.uniform(-2, 4)])
                amps = _zonal_amps(rng)
                obj = D.PerturbedDroplet3DAxisSym(pos, float(rng.uniform(1.0, 2.5)), w, amps)
        elif kind == "pa_cyl":
            grid = CylindricalSymGrid(4, [0, 8], [8, 16], periodic_z=False)
            pos = np.array([0.0, 0.0, rng.uniform(1, 7)])
            if on_centre:
                pos[2] = grid.axes_coords[1][int(rng.integers(0, 16))]
            amps = _zonal_amps(rng)
            if len(amps) >= 6:
                # high zonal mode: a sharp interface on a finer grid, so that cells fall into the polar bulge
                w = 0.0
                grid = CylindricalSymGrid(4, [0, 8], [16, 32], periodic_z=False)
                if on_centre:
                    pos[2] = grid.axes_coords[1][int(rng.integers(0, 32))]
            obj = D.PerturbedDroplet3DAxisSym(pos, float(rng.uniform(1.8, 2.5)), w, amps)
        elif kind == "polar":
            grid = PolarSymGrid(6, 24)
            obj = D.DiffuseDroplet(np.zeros(2), float(rng.uniform(0, 7)), w)
        elif kind == "sph":
            grid = SphericalSymGrid(6, 24)
            obj = D.DiffuseDroplet(np.zeros(3), float(rng.uniform(0, 7)), w)
        else:
            grid = CylindricalSymGrid(4, [0, 8], [8, 16], periodic_z=False)
            obj = D.DiffuseDroplet(np.array([0.0, 0.0, rng.uniform(-1, 9)]), float(rng.uniform(0.2, 3)), w)
        fails = []
        try:
            with warnings.catch_warnings():
                warnings.simplefilter("ignore")
                data = obj.get_phase_field(grid, vmin=vmin, vmax=vmax).data
            vec = cell_vectors(grid, np.asarray(obj.position, float))
            dist = np.linalg.norm(vec, axis=-1)
            cls = type(obj).__name__
            if cls.startswith("Perturbed"):
                if cls == "PerturbedDroplet2D":
                    theta = np.arctan2(vec[..., 1], vec[..., 0])
                    phi = theta
                else:
                    with np.errstate(invalid="ignore", divide="ignore"):
                        theta = np.arccos(np.where(dist > 0, vec[..., 2] / np.where(dist > 0, dist, 1), 0.0))
                    phi = np.arctan2(vec[..., 1], vec[..., 0])
                iface = interface_distance_ref(cls, obj.radius, obj.amplitudes, theta, phi)
            else:
                iface = np.full(dist.shape, obj.radius)
            margin = iface - dist
            sure = np.abs(margin) > 1e-9 * max(1.0, obj.radius)
            if cls.startswith("Perturbed"):
                # the direction is undefined at the centre itself -- but whatever it is taken to be, the centre lies
                # inside as long as the interface distance is positive in EVERY direction (harmonics bounded by 1.6 here)
                amax = float(np.sum(np.abs(obj.amplitudes))) * (1.0 if cls == "PerturbedDroplet2D" else 1.6)
                at_centre = dist == 0
                if amax < 0.9:
                    margin = np.where(at_centre, obj.radius * (1 - amax), margin)
                else:
                    sure &= ~at_centre
            if not np.all(np.isfinite(data)):
                fails.append("non-finite value")
            else:
                lo, hi = min(vmin, vmax), max(vmin, vmax)
                if data.min() < lo or data.max() > hi:
                    fails.append("value outside [vmin, vmax]")
                mid = (vmin + vmax) / 2
                above = data > mid
                if not np.array_equal(above[sure], (margin > 0)[sure]):
                    fails.append("cells beyond the midpoint differ from the cells inside the interface")
                if w == 0.0 and not np.array_equal(data[sure], np.where(margin > 0, vmax, vmin)[sure]):
                    fails.append("sharp droplet is not the exact indicator")
                if not cls.startswith("Perturbed"):
                    order = np.argsort(dist.ravel(), kind="stable")
                    v = data.ravel()[order]
                    if np.any(v > np.minimum.accumulate(v) + 1e-12):
                        fails.append("value increases with distance")
        except Exception as exc:  # noqa: BLE001
            fails.append(f"raised {type(exc).__name__}: {exc}")
        n += 1
        if fails:
            bad.append({"oracle_case": {"seed": seed, "k": k, "kind": kind, "droplet": repr(obj), "grid": repr(grid),
                                        "width": w, "levels": [vmin, vmax]}, "fails": sorted(set(fails))})
    return n, bad


def classify(b):
    oc = b.get("oracle_case")
    if oc and "PerturbedDroplet3D(" in oc["droplet"] and any("non-finite" in f for f in b["fails"]):
        return "perturbed3d-on-cell-centre-nan"
    return None


def run(out: core.Outcome) -> None:
    import multiprocessing as mp

    core.setup_repo_import()
    out.rule = (
        "TLC enumerates every lattice droplet of each Cartesian config and checks the geometric laws of the exact distance "
        "field; each droplet is rendered by the real code in four class/width variants and two level pairs and compared "
        "cell by cell with Inside, the order of Q, rolls and the clipped sum. Perturbed classes and symmetric grids are "
        "compared with an independent evaluation of the shape functions. Non-trivial = droplet covering at least one cell."
    )
    for name in QUICK if out.tier == "quick" else THOROUGH:
        params = cfg_params(name)
        r = core.tlc("MC_Render", f"MC_Render_{name}.cfg", timeout=3400)
        if r.violated:
            out.violation({"tlc_config": name, "violated": r.violated, "tlc_tail": r.stdout[-3000:]})
            continue
        r.require_actions(["Radii"])
        out.add_tlc(name, r)
        items = list(enumerate(r.printed))
        size = max(1, len(items) // (core.NCPU * 4))
        chunks = [(items[i : i + size], params) for i in range(0, len(items), size)]
        with mp.get_context("fork").Pool(core.NCPU) as pool:
            results = pool.map(_chunk, chunks)
        nbad = 0
        for cnt, bad in results:
            out.evaluations += cnt
            nbad += len(bad)
            for b in bad:
                out.violation({"config": name, **b})
        out.nontrivial_count += sum(1 for _, rec in items if any(min(q) < d["r2"] for q, d in zip(rec["q"], rec["drops"])))
        out.parts[name].update(droplet_configurations=len(items), mismatches=nbad)
        out.sample({"config": name, "drops": r.printed[len(r.printed) // 2]["drops"]}, limit=3)
    ncase = 1600 if out.tier == "quick" else 32000
    per = ncase // core.NCPU
    with mp.get_context("fork").Pool(core.NCPU) as pool:
        res = pool.starmap(_oracle_cases, [(out.seed * 100 + k, per) for k in range(core.NCPU)])
    for cnt, bad in res:
        out.traces += cnt
        for b in bad:
            out.violation(b, signature=classify(b))
    out.extra["numeric_oracle_cases"] = per * core.NCPU
    out.explanation = out.rule
    out.assumptions = [
        "lattice geometry: dyadic coordinates, integer squared radii, so inside/outside incl. equality is decided exactly on both sides",
        "perturbed shapes and symmetric grids: inside/outside judged against an independent evaluation of the documented series "
        "(associated Legendre functions); cells within 1e-9 of the interface and the centre cell of a perturbed droplet are only "
        "required to be finite and in range",
        "vmin > vmax is accepted as 'between the two values' with the midpoint test mirrored",
    ]


def replay(out, path):
    core.setup_repo_import()
    case = json.loads(open(path).read())
    if "drops" in case:
        params = cfg_params(case["config"])
        fails = check_record(case, *params, case["index"])
    else:
        oc = case["oracle_case"]
        n, bad = _oracle_cases(oc["seed"], oc["k"] + 1)
        fails = [f for b in bad if b["oracle_case"]["k"] == oc["k"] for f in b["fails"]]
    print("fails:", fails)
    if fails:
        print(f"VIOLATION property=C03 replay={path}")
        return 1
    return 0
