SPECIFICATION Spec
CONSTANTS
  Mode = "waves"
  StretchExps <- ExpsW
  ScaleFactors <- Factors
  MaxWord = 0
  Shapes <- ShapesT
  MaxMode = 5
  SpacingExps <- SpT
INVARIANT DegreeOne
INVARIANT WaveOK
INVARIANT Emit
