SPECIFICATION Spec
CONSTANTS
  N = 4
  W = 3
  IsNone <- NoneSet13
  Strict = TRUE
INVARIANT TypeOK
INVARIANT OrderPreserved
INVARIANT PrefixAlways
INVARIANT Deterministic
INVARIANT OnceEach
INVARIANT Emit
PROPERTY OutGrows
PROPERTY Termination
