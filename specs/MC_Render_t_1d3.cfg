SPECIFICATION Spec
CONSTANTS
  N <- NC
  P <- PC
  DX <- DXC
  X0 <- X0C
  DimC = 1
  N1 = 8
  N2 = 1
  N3 = 1
  P1 = TRUE
  P2 = FALSE
  P3 = FALSE
  DX1 = 4
  DX2 = 4
  DX3 = 4
  O1 = 19
  O2 = 16
  O3 = 16
  R2S = {9, 25}
  Margin = 8
  PosStep = 2
  NDrops = 3
INVARIANT RollEquivariant
INVARIANT PeriodInvariant
INVARIANT Monotone
INVARIANT OrderFree
INVARIANT NoWrapOpenAxes
INVARIANT Emit
