SPECIFICATION Spec
CONSTANTS
  N <- NC
  P <- PC
  DimC = 2
  N1 = 3
  N2 = 3
  N3 = 1
  P1 = TRUE
  P2 = TRUE
  P3 = FALSE
  Variant = "unionfind"
INVARIANT Correct
INVARIANT Ordered
INVARIANT Emit
PROPERTY MaskIntact
PROPERTY Termination
