SPECIFICATION Spec
CONSTANTS
  Classes <- AllClasses
  MaxModes = 10
  MaxActive = 2
  RadExps <- ExpsQ
  KMax = 120
INVARIANT Bijection
INVARIANT InverseOnPairs
INVARIANT CountIsSquare
INVARIANT OptimalOnlySquares
INVARIANT TranslationModesFlat
INVARIANT HigherModesPositive
INVARIANT NoZerothMode
INVARIANT Emit
