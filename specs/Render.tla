-------------------------------- MODULE Render --------------------------------
(***************************************************************************)
(* SphericalDroplet / DiffuseDroplet._get_phase_field and                  *)
(* Emulsion.get_phasefield on Cartesian grids, on the sub-cell lattice of  *)
(* RenderLocate.tla (lengths in units of h; axis a has spacing DX[a],      *)
(* origin X0[a]; a droplet is [pos, r2] with integer centre -- anywhere,   *)
(* also outside the box -- and integer SQUARED radius).                    *)
(*                                                                         *)
(*   Q(c, d)      squared min-image distance of the centre of cell c from  *)
(*                the droplet centre (the grid's periodic metric)          *)
(*   Inside(d)    {c : Q(c, d) < r2}       (strict)                        *)
(* A sharp droplet (class Spherical, or width 0) renders the indicator of  *)
(* Inside; a diffuse one renders a decreasing function of Q that exceeds   *)
(* the midpoint exactly on Inside.  What TLC checks here are the           *)
(* geometric laws the picture must obey; the harness compares the real     *)
(* fields with Inside and with the order of Q cell by cell.                *)
(***************************************************************************)
EXTENDS Lattice

CONSTANTS DX, X0,     \* per-axis spacing and origin in h units (DX even)
          R2S,        \* squared radii
          Margin,     \* centres up to Margin outside the box (any axis)
          PosStep,
          NDrops

VARIABLES drops, pc      \* pc = 0: centres chosen, radii not yet (lets TLC spread the work); pc = 1: complete
vars == <<drops, pc>>

Period(a) == N[a] * DX[a]
Centre(c, a) == X0[a] + DX[a] * c[a] + DX[a] \div 2
MDa(x, y, a) == LET d == Abs(x - y) IN
                IF P[a] THEN LET m == d % Period(a) IN IF Period(a) - m < m THEN Period(a) - m ELSE m
                ELSE d
RECURSIVE Q2(_, _, _)
Q2(c, pos, i) == IF i = 0 THEN 0 ELSE MDa(Centre(c, i), pos[i], i) * MDa(Centre(c, i), pos[i], i) + Q2(c, pos, i - 1)
Q(c, d) == Q2(c, d.pos, Dim)
Inside(d) == {c \in Cells : Q(c, d) < d.r2}
Render(ds) == UNION {Inside(ds[i]) : i \in DOMAIN ds}

PosSet == {p \in [Axes -> (0 - 400)..400] :
              \A a \in Axes : /\ p[a] >= X0[a] - Margin /\ p[a] <= X0[a] + Period(a) + Margin
                              /\ (p[a] - X0[a]) % PosStep = 0}
DropSet == [pos : PosSet, r2 : R2S]

R0 == CHOOSE r \in R2S : \A x \in R2S : r <= x
Init == pc = 0 /\ drops \in [1..NDrops -> {d \in DropSet : d.r2 = R0}]
Radii == /\ pc = 0 /\ pc' = 1
         /\ \E rs \in [1..NDrops -> R2S] : drops' = [i \in 1..NDrops |-> [drops[i] EXCEPT !.r2 = rs[i]]]
Spec == Init /\ [][Radii]_vars

-----------------------------------------------------------------------------
Translate(d, a, k) == [d EXCEPT !.pos[a] = @ + k * DX[a]]
RollCell(c, a, k) == [c EXCEPT ![a] = (c[a] + k + 2 * N[a]) % N[a]]
Roll(S, a, k) == {RollCell(c, a, k) : c \in S}

\* translating a droplet by whole cells along a periodic axis rolls the picture -- the whole
\* distance field, hence every rendering that is a function of it
RollEquivariant == pc = 1 =>
    \A i \in DOMAIN drops : \A a \in Axes : P[a] =>
        \A k \in (0 - N[a])..N[a] :
            LET e == Translate(drops[i], a, k) IN
            /\ \A c \in Cells : Q(RollCell(c, a, k), e) = Q(c, drops[i])
            /\ Inside(e) = Roll(Inside(drops[i]), a, k)
\* in particular a whole period changes nothing
PeriodInvariant == pc = 1 =>
    \A i \in DOMAIN drops : \A a \in Axes : P[a] => Inside(Translate(drops[i], a, N[a])) = Inside(drops[i])
\* Inside is a sub-level set of the distance: the indicator never increases with distance
Monotone == pc = 1 => \A i \in DOMAIN drops : \A c1, c2 \in Cells :
                (Q(c1, drops[i]) <= Q(c2, drops[i]) /\ c2 \in Inside(drops[i])) => c1 \in Inside(drops[i])
\* a sharp emulsion is the indicator of the union, whatever the order of the droplets
Perms == {f \in [DOMAIN drops -> DOMAIN drops] : \A i, k \in DOMAIN drops : i # k => f[i] # f[k]}
OrderFree == pc = 1 => \A f \in Perms : Render([i \in DOMAIN drops |-> drops[f[i]]]) = Render(drops)
\* along non-periodic axes the plain distance is used: a centre outside the box is not wrapped in
NoWrapOpenAxes == pc = 1 => \A i \in DOMAIN drops : \A c \in Inside(drops[i]) : \A a \in Axes :
                      ~P[a] => (Centre(c, a) - drops[i].pos[a]) * (Centre(c, a) - drops[i].pos[a]) < drops[i].r2
=============================================================================
