---------------------------------- MODULE IO ----------------------------------
(***************************************************************************)
(* to_file / from_file of Emulsion, EmulsionTimeCourse, DropletTrack and   *)
(* DropletTrackList, with the file system as state.                        *)
(*                                                                         *)
(* A file is a sequence of datasets in key order.  A dataset carries the   *)
(* attribute droplet_class ("None" for an empty member), the layout of its *)
(* rows (the structured dtype: dimension, width field, number of modes),   *)
(* the rows (payload ids; track rows also carry their time) and, for time  *)
(* courses, the attribute time.  Writing is MULTI-STEP, as implemented:    *)
(* Open truncates the file, every member is one WriteDataset step that     *)
(* either adds a dataset or raises (members that cannot be stored as one   *)
(* array: several classes or several layouts), Close ends the call.  The   *)
(* reader walks the datasets in sorted key order and rebuilds every row    *)
(* through the class registry with the dataset's class and layout.         *)
(*                                                                         *)
(* A history is a sequence of write calls of arbitrary objects to a few    *)
(* paths; RoundTrip says that after every COMPLETED write the file decodes *)
(* to exactly the object written (nothing of earlier contents survives).   *)
(***************************************************************************)
EXTENDS Naturals, Sequences, FiniteSets

CONSTANTS Kind,          \* "Emulsion" | "TimeCourse" | "Track" | "TrackList"
          DTypes,        \* set of droplet types [cls |-> .., lay |-> ..]
          MaxDrops,      \* droplets per emulsion / track
          MaxMembers,    \* emulsions per time course / tracks per track list
          TimePatterns,  \* set of functions: member index -> time  (sequences long enough)
          Paths, MaxWrites,
          SecondObjs,    \* objects used for writes after the first one (keeps the history space small)
          CheckTrackClass  \* TRUE: a track is one dataset only if its droplets share class AND layout (design)
                           \* FALSE: only the layout is checked (the implementation before the repair of F8)

VARIABLES files,    \* [Paths -> Seq(dataset)]   (an absent file is <<>> with exists = FALSE)
          exists,   \* [Paths -> BOOLEAN]
          last,     \* [Paths -> [ok: BOOLEAN, obj: object]]  last write call per path
          pc,       \* "idle" | "writing"
          cur,      \* [obj, path, i]  the write call in progress
          hist      \* completed calls [obj, path, raised]  (for the replay harness)
vars == <<files, exists, last, pc, cur, hist>>

Range(k) == 1..k
Drop(t, pay) == [cls |-> t.cls, lay |-> t.lay, pay |-> pay]
DropSeqs == UNION {[Range(k) -> {Drop(t, 1) : t \in DTypes}] : k \in 0..MaxDrops}
\* payload ids number the droplets of an object consecutively so that rows are distinguishable
Renumber(ds, base) == [i \in Range(Len(ds)) |-> [ds[i] EXCEPT !.pay = base + i]]

Emulsions == {Renumber(ds, 0) : ds \in DropSeqs}
RECURSIVE Offsets(_, _)
Offsets(ms, k) == IF k = 0 THEN 0 ELSE Offsets(ms, k - 1) + Len(ms[k])
Members == UNION {[Range(m) -> DropSeqs] : m \in 0..MaxMembers}
NumberAll(ms) == [k \in Range(Len(ms)) |-> Renumber(ms[k], Offsets(ms, k - 1))]
Objects ==
    IF Kind = "Emulsion" THEN {[kind |-> Kind, drops |-> e] : e \in Emulsions}
    ELSE IF Kind = "Track" THEN
        {[kind |-> Kind, drops |-> e, times |-> [i \in Range(Len(e)) |-> tp[i]]] : e \in Emulsions, tp \in TimePatterns}
    ELSE IF Kind = "TimeCourse" THEN
        {[kind |-> Kind, mem |-> NumberAll(ms), times |-> [i \in Range(Len(ms)) |-> tp[i]]] : ms \in Members, tp \in TimePatterns}
    ELSE  \* TrackList: every track gets the time pattern shifted by its index
        {[kind |-> Kind, mem |-> NumberAll(ms),
          times |-> [k \in Range(Len(ms)) |-> [i \in Range(Len(ms[k])) |-> tp[i] + k]]] : ms \in Members, tp \in TimePatterns}

-----------------------------------------------------------------------------
(* the format *)
SameLayout(ds) == \A i, j \in Range(Len(ds)) : ds[i].lay = ds[j].lay
SameClass(ds) == \A i, j \in Range(Len(ds)) : ds[i].cls = ds[j].cls
\* can these droplets be stored as one structured array?
StorableEm(ds) == SameClass(ds) /\ SameLayout(ds)
StorableTrack(ds) == SameLayout(ds) /\ (CheckTrackClass => SameClass(ds))

EmptyDS(t) == [cls |-> "None", lay |-> "none", rows |-> <<>>, time |-> t]
DataSet(ds, ts, t) ==        \* ts: per-row times (tracks) or <<>>
    IF Len(ds) = 0 THEN EmptyDS(t)
    ELSE [cls |-> ds[1].cls, lay |-> ds[1].lay,
          rows |-> [i \in Range(Len(ds)) |-> [pay |-> ds[i].pay, t |-> IF Len(ts) = 0 THEN 0 ELSE ts[i]]],
          time |-> t]

NumSets(o) == IF o.kind \in {"Emulsion", "Track"} THEN 1 ELSE Len(o.mem)
\* the i-th dataset of object o, or "raise"
Storable(o, i) ==
    IF o.kind = "Emulsion" THEN StorableEm(o.drops)
    ELSE IF o.kind = "Track" THEN StorableTrack(o.drops)
    ELSE IF o.kind = "TimeCourse" THEN StorableEm(o.mem[i])
    ELSE StorableTrack(o.mem[i])
Encode(o, i) ==
    IF o.kind = "Emulsion" THEN DataSet(o.drops, <<>>, 0)
    ELSE IF o.kind = "Track" THEN DataSet(o.drops, o.times, 0)
    ELSE IF o.kind = "TimeCourse" THEN DataSet(o.mem[i], <<>>, o.times[i])
    ELSE DataSet(o.mem[i], o.times[i], 0)

\* the reader: every row becomes a droplet of the dataset's class and layout
DecodeDrops(d) == [i \in Range(Len(d.rows)) |-> [cls |-> d.cls, lay |-> d.lay, pay |-> d.rows[i].pay]]
DecodeTimes(d) == [i \in Range(Len(d.rows)) |-> d.rows[i].t]
Decode(f) ==
    IF Kind = "Emulsion" THEN [kind |-> Kind, drops |-> DecodeDrops(f[1])]
    ELSE IF Kind = "Track" THEN [kind |-> Kind, drops |-> DecodeDrops(f[1]), times |-> DecodeTimes(f[1])]
    ELSE IF Kind = "TimeCourse" THEN
        [kind |-> Kind, mem |-> [k \in Range(Len(f)) |-> DecodeDrops(f[k])], times |-> [k \in Range(Len(f)) |-> f[k].time]]
    ELSE [kind |-> Kind, mem |-> [k \in Range(Len(f)) |-> DecodeDrops(f[k])],
          times |-> [k \in Range(Len(f)) |-> DecodeTimes(f[k])]]

-----------------------------------------------------------------------------
NoObj == [kind |-> "none"]
Init ==
    /\ files = [p \in Paths |-> <<>>] /\ exists = [p \in Paths |-> FALSE]
    /\ last = [p \in Paths |-> [ok |-> FALSE, obj |-> NoObj]]
    /\ pc = "idle" /\ cur = [obj |-> NoObj, path |-> CHOOSE p \in Paths : TRUE, i |-> 0]
    /\ hist = <<>>

\* h5py.File(path, "w"): the old content is gone before anything is written
Open ==
    /\ pc = "idle" /\ Len(hist) < MaxWrites
    /\ \E p \in Paths : \E o \in (IF Len(hist) = 0 THEN Objects ELSE SecondObjs) :
        /\ files' = [files EXCEPT ![p] = <<>>]
        /\ exists' = [exists EXCEPT ![p] = TRUE]
        /\ last' = [last EXCEPT ![p] = [ok |-> FALSE, obj |-> o]]
        /\ cur' = [obj |-> o, path |-> p, i |-> 1]
        /\ pc' = "writing" /\ UNCHANGED hist

WriteDataset ==
    /\ pc = "writing" /\ cur.i <= NumSets(cur.obj) /\ Storable(cur.obj, cur.i)
    /\ files' = [files EXCEPT ![cur.path] = Append(@, Encode(cur.obj, cur.i))]
    /\ cur' = [cur EXCEPT !.i = @ + 1]
    /\ UNCHANGED <<exists, last, pc, hist>>

\* the member cannot be stored: the call raises and leaves a partial file behind
Raise ==
    /\ pc = "writing" /\ cur.i <= NumSets(cur.obj) /\ ~Storable(cur.obj, cur.i)
    /\ pc' = "idle"
    /\ hist' = Append(hist, [obj |-> cur.obj, path |-> cur.path, raised |-> TRUE])
    /\ UNCHANGED <<files, exists, last, cur>>

Close ==
    /\ pc = "writing" /\ cur.i > NumSets(cur.obj)
    /\ last' = [last EXCEPT ![cur.path] = [ok |-> TRUE, obj |-> cur.obj]]
    /\ pc' = "idle"
    /\ hist' = Append(hist, [obj |-> cur.obj, path |-> cur.path, raised |-> FALSE])
    /\ UNCHANGED <<files, exists, cur>>

Next == Open \/ WriteDataset \/ Raise \/ Close
Spec == Init /\ [][Next]_vars /\ WF_vars(Next)

-----------------------------------------------------------------------------
(* C08 *)
\* whatever was written by a completed call is read back equal -- classes, layouts, payloads,
\* times, order -- whatever the file held before
RoundTrip == \A p \in Paths : (pc = "idle" /\ last[p].ok) => Decode(files[p]) = last[p].obj
\* a call that does not raise never leaves something else behind  (same statement, per call)
NoSilentChange == \A k \in Range(Len(hist)) :
    (~hist[k].raised /\ \A j \in (k + 1)..Len(hist) : hist[j].path # hist[k].path) /\ pc = "idle"
        => Decode(files[hist[k].path]) = hist[k].obj
\* a time course / track list file holds exactly one dataset per member of the last write
OneSetPerMember == \A p \in Paths : (pc = "idle" /\ last[p].ok) => Len(files[p]) = NumSets(last[p].obj)
Termination == <>[](pc = "idle")
=============================================================================
