SPECIFICATION RSpec
CONSTANTS
  N <- NC
  P <- PC
  DX <- DXC
  X0 <- X0C
  Variant = "unionfind"
  DimC = 2
  N1 = 8
  N2 = 9
  N3 = 1
  P1 = TRUE
  P2 = TRUE
  P3 = FALSE
  DX1 = 4
  DX2 = 4
  DX3 = 4
  O1 = 16
  O2 = 16
  O3 = 16
  R2S = {36, 41}
  NDrops = 2
  Margin = 0
  PosStep = 4
INVARIANT OnePerOriginal
INVARIANT ExactVolume
INVARIANT HalfCell
INVARIANT NoWinding
INVARIANT Correct
INVARIANT Emit
PROPERTY MaskIntact
PROPERTY Termination
