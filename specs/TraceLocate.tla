---------------------------- MODULE TraceLocate ----------------------------
(* Validation of recorded executions of _locate_droplets_in_mask_cartesian on large random
   images.  A trace holds the binary image (list of cells) and, for every candidate droplet
   the implementation produced before overlap removal, its volume in cells `v` and integer
   moment `s` (= (cell-coordinate position - 1/2) * v, per axis), both recovered from the
   floats by the harness (which rejects non-integral values).  The lattice (N, P) is a
   constant of the run: the harness groups traces by lattice and generates the cfg.

   "run" mode: the LocateCart actions are executed on the recorded image; the verdict says
   whether the implementation's candidates are the spec's clusters in the same order
   (conform), whether they are in one-to-one correspondence up to order and whole periods
   (count, bijection) and whether the declarative property Correct holds. *)
EXTENDS LocateCart, Json, IOUtils

CONSTANTS DimC, N1, N2, N3, P1, P2, P3
NC == SubSeq(<<N1, N2, N3>>, 1, DimC)
PC == SubSeq(<<P1, P2, P3>>, 1, DimC)

Traces == JsonDeserialize(IOEnv.TRACE_FILE)
VARIABLES tid

ToSet(s) == {s[i] : i \in DOMAIN s}
MaskOf(t) == {[a \in Axes |-> c[a]] : c \in ToSet(Traces[t].mask)}

Init == \E t \in 1..Len(Traces) : tid = t /\ InitWith(MaskOf(t))
TNext == (Label /\ UNCHANGED tid) \/ (MergeStep /\ UNCHANGED tid) \/ (Select /\ UNCHANGED tid)
Spec == Init /\ [][TNext]_<<vars, tid>>

Obs == Traces[tid].obs
WindK(k) == Winding(Lift(clusters[k].cells))
Match(o, k, W) == /\ o.v = clusters[k].v
                  /\ (W[k] \/ \A a \in Axes : Cong(o.s[a], clusters[k].s[a], a, o.v))
Verdict == pc = "done" =>
    LET W == [k \in Range(Len(clusters)) |-> WindK(k)] IN
    PrintT(ToJson([tid |-> tid, mode |-> "run",
                   ncomp |-> Len(clusters),
                   correct |-> Correct,
                   count |-> (Len(Obs) = Len(clusters)),
                   conform |-> (/\ Len(Obs) = Len(clusters)
                                /\ \A k \in Range(Len(clusters)) : Match(Obs[k], k, W)),
                   bijection |-> (/\ Len(Obs) = Len(clusters)
                                  /\ \A k \in Range(Len(clusters)) : \E i \in Range(Len(Obs)) : Match(Obs[i], k, W)
                                  /\ \A i \in Range(Len(Obs)) : \E k \in Range(Len(clusters)) : Match(Obs[i], k, W))]))
=============================================================================
