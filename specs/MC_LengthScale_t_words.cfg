SPECIFICATION Spec
CONSTANTS
  Mode = "words"
  StretchExps <- ExpsWT
  ScaleFactors <- Factors
  MaxWord = 3
  Shapes <- NoShapes
  MaxMode = 0
  SpacingExps <- SpQ
INVARIANT DegreeOne
INVARIANT WaveOK
INVARIANT Emit
