----------------------------- MODULE MC_Threshold -----------------------------
EXTENDS Threshold, TLC, Json
Neg16 == 0 - 16
AffBs == {Neg16, 0, 16}
A5 == {0, 64, 128, 192, 256}
A9 == 0..8
A3 == {0, 3, 8}
ThrA5 == {0, 64, 128, 129, 256, 384, 512, 0 - 2}
ThrA9 == {0, 1, 5, 8, 16, 0 - 1}
SetToSeq(S) == LET RECURSIVE O(_) O(T) == IF T = {} THEN <<>> ELSE <<Min(T)>> \o O(T \ {Min(T)}) IN O(S)
Emit == pc = 1 => PrintT(ToJson(
    [img |-> img,
     extrema |-> SetToSeq(MaskExtrema(img)),
     mean |-> SetToSeq(MaskMean(img)),
     numeric |-> [k \in 1..Cardinality(NumThr2) |-> SetToSeq(MaskNumeric(img, SetToSeq(NumThr2)[k]))],
     thr2 |-> SetToSeq(NumThr2),
     otsu |-> IF ~Constant(img)
              THEN LET O == Outcomes(img)  bs == SetToSeq({x.b : x \in O}) IN
                   [k \in 1..Len(bs) |->
                      LET oo == CHOOSE x \in O : x.b = bs[k]
                      IN [b |-> oo.b, nxt |-> oo.nxt, maskAtB |-> SetToSeq(oo.maskAtB), maskAbove |-> SetToSeq(oo.maskAbove)]]
              ELSE <<>>,
     runs |-> [k \in 1..Cardinality(RMin2) |-> Filter(Runs(MaskExtrema(img)), SetToSeq(RMin2)[k])],
     runsP |-> [k \in 1..Cardinality(RMin2) |-> Filter(RunsP(MaskExtrema(img)), SetToSeq(RMin2)[k])],
     rmin2 |-> SetToSeq(RMin2)]))
=============================================================================
