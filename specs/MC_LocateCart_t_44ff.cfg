SPECIFICATION Spec
CONSTANTS
  N <- NC
  P <- PC
  DimC = 2
  N1 = 4
  N2 = 4
  N3 = 1
  P1 = FALSE
  P2 = FALSE
  P3 = FALSE
  Variant = "unionfind"
INVARIANT Correct
INVARIANT Ordered
INVARIANT Emit
PROPERTY MaskIntact
PROPERTY Termination
