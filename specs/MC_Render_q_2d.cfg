SPECIFICATION Spec
CONSTANTS
  N <- NC
  P <- PC
  DX <- DXC
  X0 <- X0C
  DimC = 2
  N1 = 4
  N2 = 5
  N3 = 1
  P1 = TRUE
  P2 = FALSE
  P3 = FALSE
  DX1 = 4
  DX2 = 2
  DX3 = 4
  O1 = 16
  O2 = 15
  O3 = 16
  R2S = {5, 25, 40}
  Margin = 12
  PosStep = 2
  NDrops = 1
INVARIANT RollEquivariant
INVARIANT PeriodInvariant
INVARIANT Monotone
INVARIANT OrderFree
INVARIANT NoWrapOpenAxes
INVARIANT Emit
