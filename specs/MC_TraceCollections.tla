-------------------------- MODULE MC_TraceCollections --------------------------
EXTENDS TraceCollections
\* argument alphabets of the random driver (harness/c20trace.py draws from exactly these)
Idx == 1..12
SeqsUpTo3(S) == UNION {[1..k -> S] : k \in 0..3}
TrEmLists == SeqsUpTo3(Idx)
TrEvLists == SeqsUpTo3(1..8)
TimePool == {0 - 3, 0, 2, 7}
TrTimeLists == SeqsUpTo3(TimePool)
AllOps == {"EmNew", "EmAppend", "EmExtend", "EmCopy", "EmSlice", "EmIndex", "EmAdd", "EmRemoveSmall", "EmRemoveOv", "EmLink",
           "ArrWrite", "Mutate", "EmMerge", "TcNew", "TcAppend", "TcSlice", "TcCopy", "TcIndex", "TcClear",
           "TrkNew", "TrkAppend", "TrkSlice", "TrkCopy", "TrkIndex", "TlNew", "TlSlice", "TlRemoveShort", "TlFromTc", "TlSave", "TlLoad", "EmLocate", "TcFromStorage", "EmSave", "EmLoad", "TcSave", "TcLoad", "TrkSave", "TrkLoad"}
TrTlLists == SeqsUpTo3(1..12)
TrMethods == {[meth |-> "overlap", md |-> 0 - 1], [meth |-> "distance", md |-> 0 - 1], [meth |-> "distance", md |-> 2], [meth |-> "distance", md |-> 0]}
TrImages == << <<0, 1, 1, 0, 0, 1, 0, 0>>, <<0, 0, 1, 1, 0, 1, 1, 0>>, <<0, 0, 0, 0, 0, 0, 0, 0>>, <<1, 1, 1, 0, 0, 0, 0, 1>> >>
TrImgLists == SeqsUpTo3(1..4)
TrWidths == {0 - 1, 2}
MinDursT == {0 - 1, 0, 2}
MinRsT == {0 - 1, 0, 1}
MinDistsT == {0 - 1, 0, 1}
=============================================================================
