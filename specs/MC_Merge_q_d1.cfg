SPECIFICATION Spec
CONSTANTS
  Dim = 1
  N = 2
  Radii = {0, 1, 3}
  Pos <- Pos1
  Widths <- WDiff
  Diffuse = TRUE
INVARIANT TotalVolume
INVARIANT TotalMoment
INVARIANT Commutative
INVARIANT Associative
INVARIANT FinalUnique
INVARIANT Emit
PROPERTY OperandsIntact
