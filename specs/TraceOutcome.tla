----------------------------- MODULE TraceOutcome -----------------------------
(* Validates recorded outcomes of real calls against Outcome.tla: an execution is a behaviour of the
   spec iff it returned finite droplets where nothing is documented to raise, or raised exactly the
   documented error.  One trace = [req, ev, kind]; distinct (request class, outcome) pairs are
   validated once, with their multiplicity carried along for the evidence. *)
EXTENDS Outcome, Json, IOUtils, TLC

Traces == JsonDeserialize(IOEnv.TRACE_FILE)
VARIABLES tid
tvars == <<req, pc, outcome, tid>>

TInit == tid \in 1..Len(Traces) /\ req = Traces[tid].req /\ pc = "called" /\ outcome = "pending"
TNext == /\ tid' = tid
         /\ \/ Traces[tid].ev = "return" /\ Return /\ outcome' = Traces[tid].kind
            \/ Traces[tid].ev = "raise" /\ Raise /\ outcome' = Traces[tid].kind
TSpec == TInit /\ [][TNext]_tvars
Verdict == pc \in {"returned", "raised"} => PrintT(ToJson([tid |-> tid, mode |-> "run", accepted |-> TRUE]))
=============================================================================
