--------------------------------- MODULE Merge ---------------------------------
(***************************************************************************)
(* Droplet merging (DropletBase.merge, <Class>._merge_data) on a heap.     *)
(*                                                                         *)
(* In power-sum coordinates a d-dimensional droplet is                     *)
(*     m = r^d            (its volume up to the constant of the dimension) *)
(*     M = m * position   (integer vector)                                 *)
(*     w = interface width (exact rational <<num, den>>, <<-1, 1>> = unset) *)
(* and the DESIGN of a merge is exact integer arithmetic:                  *)
(*     Merge(a, b) = [m_a + m_b, M_a + M_b, (w_a + w_b) / 2]               *)
(* Three code paths are separate actions on a heap of droplet objects:     *)
(*   MergeOut(i, j)      d_i.merge(d_j)            -> new object           *)
(*   MergeIn(i, j)       d_i.merge(d_j, inplace)   -> overwrites object i  *)
(*   MergeCompiled(i, j) Class._merge_data(a, b, out) in compiled code,    *)
(*                       out = a fresh record                              *)
(* A history merges the initial droplets in any order and grouping until   *)
(* one is left.                                                            *)
(***************************************************************************)
EXTENDS Integers, Sequences, FiniteSets

CONSTANTS Dim,        \* 1..3
          N,          \* number of initial droplets
          Radii,      \* set of initial radii (>= 0)
          Pos,        \* Seq of integer position vectors (one per droplet, fixed)
          Widths,     \* set of initial widths as rationals; <<-1, 1>> = no width (SphericalDroplet or None)
          Diffuse     \* TRUE: DiffuseDroplet (width field), FALSE: SphericalDroplet

VARIABLES heap,     \* Seq of droplet values [m, M, w]; objects are never freed
          alive,    \* Seq of heap indices still to be merged
          init,     \* the initial heap (for the conservation laws)
          hist      \* operations so far: [op, i, j, res]  (heap indices)
vars == <<heap, alive, init, hist>>

Range(k) == 1..k
RECURSIVE Pow(_, _)
Pow(b, e) == IF e = 0 THEN 1 ELSE b * Pow(b, e - 1)
Abs(a) == IF a < 0 THEN 0 - a ELSE a
RECURSIVE Gcd(_, _)
Gcd(a, b) == IF b = 0 THEN a ELSE Gcd(b, a % b)
Norm(q) == LET g == Gcd(Abs(q[1]), q[2]) IN IF g = 0 THEN <<0, 1>> ELSE <<q[1] \div g, q[2] \div g>>
NoW == <<0 - 1, 1>>
Mean(p, q) == IF p = NoW \/ q = NoW THEN NoW ELSE Norm(<<p[1] * q[2] + q[1] * p[2], 2 * p[2] * q[2]>>)

Value(r, p, w) == [m |-> Pow(r, Dim), M |-> [a \in Range(Dim) |-> Pow(r, Dim) * p[a]], w |-> w]
Merged(a, b) == [m |-> a.m + b.m, M |-> [k \in Range(Dim) |-> a.M[k] + b.M[k]], w |-> Mean(a.w, b.w)]

Init ==
    /\ \E rs \in [Range(N) -> Radii], ws \in [Range(N) -> Widths] :
          heap = [i \in Range(N) |-> Value(rs[i], Pos[i], ws[i])]
    /\ alive = [i \in Range(N) |-> i]
    /\ init = heap
    /\ hist = <<>>

Without(s, x) == SelectSeq(s, LAMBDA y : y # x)
Mergeable(i, j) == i # j /\ heap[i].m + heap[j].m > 0       \* positive total volume

MergeOut(kind) ==
    \E a, b \in Range(Len(alive)) :
        LET i == alive[a]  j == alive[b] IN
        /\ Mergeable(i, j)
        /\ heap' = Append(heap, Merged(heap[i], heap[j]))
        /\ alive' = Append(Without(Without(alive, i), j), Len(heap) + 1)
        /\ hist' = Append(hist, [op |-> kind, i |-> i, j |-> j, res |-> Len(heap) + 1])
        /\ UNCHANGED init

MergeIn ==
    \E a, b \in Range(Len(alive)) :
        LET i == alive[a]  j == alive[b] IN
        /\ Mergeable(i, j)
        /\ heap' = [heap EXCEPT ![i] = Merged(heap[i], heap[j])]
        /\ alive' = Without(alive, j)
        /\ hist' = Append(hist, [op |-> "in", i |-> i, j |-> j, res |-> i])
        /\ UNCHANGED init

Next == MergeOut("out") \/ MergeOut("compiled") \/ MergeIn
Spec == Init /\ [][Next]_vars

-----------------------------------------------------------------------------
(* C11 *)
RECURSIVE SumM(_, _)
SumM(h, s) == IF Len(s) = 0 THEN 0 ELSE h[Head(s)].m + SumM(h, Tail(s))
RECURSIVE SumMom(_, _, _)
SumMom(h, s, k) == IF Len(s) = 0 THEN 0 ELSE h[Head(s)].M[k] + SumMom(h, Tail(s), k)
All == [i \in Range(N) |-> i]
\* total volume and total first moment (hence the centre of mass) never change, whatever the
\* order, grouping and code path
TotalVolume == SumM(heap, alive) = SumM(init, All)
TotalMoment == \A k \in Range(Dim) : SumMom(heap, alive, k) = SumMom(init, All, k)
\* the result does not depend on operand order
Commutative == \A i, j \in Range(Len(heap)) : Merged(heap[i], heap[j]) = Merged(heap[j], heap[i])
\* regrouping: merging (a+b)+c and a+(b+c) give the same volume and moment (width is a plain mean, not associative)
Associative == \A i, j, k \in Range(Len(heap)) :
    LET x == Merged(Merged(heap[i], heap[j]), heap[k])
        y == Merged(heap[i], Merged(heap[j], heap[k]))
    IN x.m = y.m /\ x.M = y.M
\* operands are not modified unless in-place merging is requested
OperandsIntact == [][\A i \in Range(Len(heap)) :
                        heap'[i] # heap[i] => (hist' # hist /\ hist'[Len(hist')].op = "in" /\ hist'[Len(hist')].i = i)]_vars
\* a single droplet remains in the end, and it is the same for every history from the same start
Finished == Len(alive) = 1 \/ \A a, b \in Range(Len(alive)) : a = b \/ ~Mergeable(alive[a], alive[b])
FinalUnique == (Len(alive) = 1) =>
    /\ heap[alive[1]].m = SumM(init, All)
    /\ \A k \in Range(Dim) : heap[alive[1]].M[k] = SumMom(init, All, k)
=============================================================================
