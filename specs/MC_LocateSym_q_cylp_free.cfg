SPECIFICATION Spec
CONSTANTS
  N <- NC
  P <- PC
  Z0 <- Z0C
  Family = "cyl"
  NrC = 3
  NzC = 3
  PZC = TRUE
  DR = 4
  DZ = 4
  Z0P = 16
  Mode = "free"
  R2S <- R2Sdef_q_cylp_free
  ZStep = 1
  CentralRule = "halfopen"
  SpanHandling = "central"
  ZWeight = "count"
  Reading = "cells"
  SpanRule = "whole"
INVARIANT SingleCorrect
INVARIANT PeriodicCorrect
INVARIANT SpanSound
INVARIANT NoAxisNoDroplet
INVARIANT RadialCorrect
INVARIANT RadialHalfCell
INVARIANT CylOne
INVARIANT Emit
PROPERTY MaskIntact
PROPERTY Termination
