SPECIFICATION Spec
CONSTANTS
  Inf <- InfC
  Ov <- OvT
  DKey <- DKeyT
INVARIANT Verdict
