SPECIFICATION Spec
CONSTANTS
  Families <- AllFamilies
  ModeCounts = {0, 1, 2, 3, 4}
  WidthOpts = {"none", "given", "zero"}
  ThresholdRules <- AllRules
INVARIANT ClassAsRequested
INVARIANT ModesAsRequested
INVARIANT WidthCarried
INVARIANT WidthUnsetOtherwise
INVARIANT NoRaiseOtherwise
INVARIANT MustRaise
INVARIANT Emit
PROPERTY Termination
