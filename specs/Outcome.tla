-------------------------------- MODULE Outcome --------------------------------
(***************************************************************************)
(* Outcome classes of the public entry points (C09).                       *)
(*                                                                         *)
(* A call either returns droplets whose parameters are all finite (an      *)
(* unset interface width excepted) or raises one of the DOCUMENTED errors: *)
(*   locate  modes > 0 on a one-dimensional grid          -> ValueError    *)
(*   render  droplet dimension differs from the grid's     -> ValueError   *)
(* Nothing else may raise: not an empty image, a full image, a single      *)
(* cell, objects away from the axis of a cylindrical grid, a constant      *)
(* field, a frame without droplets in a time course.  The spec has exactly *)
(* these two transitions out of "called"; a recorded execution with any    *)
(* other outcome is not a behaviour of the spec.                           *)
(*                                                                         *)
(* TLC's job is to enumerate the INPUT SPACE: the option table times every *)
(* binary image of a tiny grid of each family (plus constant, ramp and     *)
(* noise images), droplet class times grid for rendering, and every short  *)
(* time course over a frame alphabet for both tracking methods.            *)
(***************************************************************************)
EXTENDS Naturals, FiniteSets, Sequences

CONSTANTS Op,           \* "locate" | "render" | "track"
          Families,     \* grid families with their number of cells: [name, dim, cells]
          ModeCounts, Refines, Widths, Rules, MinRadii, RefineArgs,   \* locate options
          Specials,     \* non-binary images: "const", "ramp", "noise"
          Classes,      \* render: [cls, dim]
          Methods, FrameKinds, MaxFrames   \* track: method x sequences of frame kinds

VARIABLES req, pc, outcome
vars == <<req, pc, outcome>>

Range(k) == 1..k
\* locate requests are built in two steps (options first, image second) so that TLC can spread the enumeration
LocateOptions ==
    {[op |-> "locate", fam |-> f.name, dim |-> f.dim, modes |-> m, refine |-> r, width |-> w, thr |-> t, minrad |-> mr,
      rargs |-> ra, img |-> {}, special |-> "pending"] :
        f \in Families, m \in ModeCounts, r \in Refines, w \in Widths, t \in Rules, mr \in MinRadii, ra \in RefineArgs}
CellsOf(name) == (CHOOSE f \in Families : f.name = name).cells
RenderRequests ==
    {[op |-> "render", cls |-> c.cls, dropdim |-> c.dim, fam |-> f.name, dim |-> f.dim] : c \in Classes, f \in Families}
FrameSeqs == UNION {[Range(k) -> FrameKinds] : k \in 0..MaxFrames}
TrackRequests == {[op |-> "track", method |-> m, frames |-> fs] : m \in Methods, fs \in FrameSeqs}
Requests == IF Op = "locate" THEN LocateOptions ELSE IF Op = "render" THEN RenderRequests ELSE TrackRequests

Documented(r) ==
    IF r.op = "locate" /\ r.modes > 0 /\ r.dim = 1 THEN "ValueError"
    ELSE IF r.op = "render" /\ r.dropdim # r.dim THEN "ValueError"
    ELSE "none"

Init == req \in Requests /\ pc = (IF Op = "locate" THEN "image" ELSE "called") /\ outcome = "pending"
\* every binary image of the family's tiny grid, and the non-binary special images
ChooseImage ==
    /\ pc = "image" /\ pc' = "called" /\ outcome' = outcome
    /\ \/ \E i \in SUBSET Range(CellsOf(req.fam)) : req' = [req EXCEPT !.img = i, !.special = "none"]
       \/ \E sp \in Specials : req' = [req EXCEPT !.special = sp]
Return == /\ pc = "called" /\ Documented(req) = "none"
          /\ pc' = "returned" /\ outcome' = "finite" /\ UNCHANGED req
Raise == /\ pc = "called" /\ Documented(req) # "none"
         /\ pc' = "raised" /\ outcome' = Documented(req) /\ UNCHANGED req
Next == ChooseImage \/ Return \/ Raise
Spec == Init /\ [][Next]_vars /\ WF_vars(Next)

NoUndocumentedRaise == pc = "raised" => outcome = Documented(req) /\ outcome # "none"
FiniteResult == pc = "returned" => outcome = "finite"
Total == <>(pc \in {"returned", "raised"})
=============================================================================
