SPECIFICATION Spec
CONSTANTS
  Dim = 2
  N = 3
  Radii = {0, 1, 2}
  Pos <- Pos2
  Widths <- WNone
  Diffuse = FALSE
INVARIANT TotalVolume
INVARIANT TotalMoment
INVARIANT Commutative
INVARIANT Associative
INVARIANT FinalUnique
INVARIANT Emit
PROPERTY OperandsIntact
