SPECIFICATION Spec
CONSTANTS
  FieldIds <- Fields4
  TimeSeqs <- TimesA
  SettingsSet <- AllSettings
  Sources <- NoSource
  Methods <- OneMethod
  MaxLen = 1
  ReaderOrder = "key"
INVARIANT OnlineEqualsOffline
INVARIANT FilePersists
INVARIANT FramePerInterrupt
INVARIANT TimesIdentical
INVARIANT LengthScalePerFrame
INVARIANT LengthScaleFile
INVARIANT Emit
PROPERTY AppendOnly
PROPERTY Termination
