--------------------------- MODULE TraceTracking ---------------------------
(* Validation of recorded executions of the real from_emulsion_time_course
   against Tracking.tla, thousands of traces per TLC run.

   A trace is the order/predicate projection of one call on arbitrary float input:
     n       droplets per frame
     ov      for droplet (f, j): the set of droplets (same or next/previous frame) it overlaps
     dk      for droplet (f, j): dense ranks of its centre distance to each droplet of frame f+1
             (Inf = beyond the cut-off), computed by the harness in exact rational arithmetic
     tracks  the assignment read off the implementation's result
   The droplet VALUE used by the spec is the record [id, ov, dk]; the relations are
   therefore constant-level operators on values, as Tracking.tla requires.

   Each trace is examined in two modes:
     "run"    the spec's own actions are executed on the input; `conform` says whether the
              implementation produced exactly the spec's final state;
     "judge"  the implementation's final state is loaded directly and every property
              predicate of Tracking.tla is evaluated on it.
   One verdict line per (trace, mode) is printed; nothing stops at the first failure. *)
EXTENDS Tracking, TLC, Json, IOUtils

Traces == JsonDeserialize(IOEnv.TRACE_FILE)
InfC == 1000000

ToSet(s) == {s[i] : i \in DOMAIN s}
OvT(a, b) == b.id \in a.ov
DKeyT(a, b) == a.dk[b.id[2]]

VARIABLES tid, mode

FramesOf(t) ==
    [fr \in 1..Len(Traces[t].n) |->
        [k \in 1..Traces[t].n[fr] |->
            [id |-> <<fr, k>>,
             ov |-> ToSet(Traces[t].ov[fr][k]),
             dk |-> Traces[t].dk[fr][k]]]]

Init == \E t \in 1..Len(Traces) : \E m \in {"run", "judge"} :
          /\ tid = t /\ mode = m
          /\ IF m = "run" THEN InitWith(Traces[t].method, FramesOf(t))
             ELSE /\ method = Traces[t].method /\ frames = FramesOf(t) /\ pc = "done" /\ f = Len(Traces[t].n) + 1 /\ j = 1
                  /\ tracks = Traces[t].tracks /\ alive = <<>> /\ D = <<>> /\ added = {}

U == UNCHANGED <<tid, mode>>
TNext == \/ (Begin /\ U) \/ (MatchOv /\ U) \/ (EndMatch /\ U) \/ (Pick /\ U) \/ (AddUn /\ U)
         \/ (EndUn /\ U) \/ (EndFrame /\ U) \/ (Empty /\ U)
Spec == Init /\ [][TNext]_<<vars, tid, mode>>

\* well-formedness of a judged result (entries must name existing droplets)
WellFormed == \A k \in Range(Len(tracks)) : \A i \in Range(Len(tracks[k])) :
                 /\ tracks[k][i][1] \in 1..T
                 /\ tracks[k][i][2] \in 1..Len(frames[tracks[k][i][1]])
Verdict == pc = "done" =>
    PrintT(ToJson([tid |-> tid, mode |-> mode,
                   conform |-> (tracks = Traces[tid].tracks),
                   wf |-> WellFormed,
                   partition |-> (WellFormed /\ Partition),
                   gapfree |-> (WellFormed /\ GapFree),
                   ovlinks |-> (WellFormed /\ OverlapLinks),
                   distlinks |-> (WellFormed /\ DistanceLinks)]))
=============================================================================
