SPECIFICATION Spec
CONSTANTS
  Op = "locate"
  Families <- FamLoc
  ModeCounts = {0, 2}
  Refines = {FALSE, TRUE}
  Widths = {"none", "given", "zero"}
  Rules = {"0.5", "otsu"}
  MinRadii = {"zero", "one"}
  RefineArgs = {"none", "autoadjust"}
  Specials = {"const", "ramp", "noise"}
  Classes <- None
  Methods = {"overlap"}
  FrameKinds = {"empty"}
  MaxFrames = 0
INVARIANT NoUndocumentedRaise
INVARIANT FiniteResult
INVARIANT Emit
