----------------------------- MODULE ParallelInd -----------------------------
(* Inductive-invariant formulation of Parallel.tla for Apalache (unbounded in the schedule; N, W, IsNone fixed per
   run).  IndInv constrains every variable; checked as  Init => IndInv  (length 0)  and  IndInv /\ Next => IndInv'
   (length 1 from IndInit).  OrderPreserved is a conjunct of IndInv, so it holds in every reachable state of every
   behaviour, not only within a depth bound. *)
EXTENDS Integers, Sequences, FiniteSets, Apalache

CONSTANTS
    \* @type: Int;
    N,
    \* @type: Int;
    W,
    \* @type: Set(Int);
    IsNone

VARIABLES
    \* @type: Int -> Str;
    status,
    \* @type: Seq(Int);
    fin,
    \* @type: Int;
    nxt,
    \* @type: Seq(Int);
    out

CInit == N = 5 /\ W = 3 /\ IsNone = {2, 4}
CInit8 == N = 8 /\ W = 3 /\ IsNone = {1, 5}
CInitWide == N = 6 /\ W = 6 /\ IsNone = {}
CInitSerial == N = 7 /\ W = 1 /\ IsNone = {7}

Tasks == 1..N
Running == {i \in Tasks : status[i] = "running"}
Queued == {i \in Tasks : status[i] = "queued"}

Init ==
    /\ status = [i \in Tasks |-> "queued"]
    /\ fin = <<>> /\ nxt = 1 /\ out = <<>>

Take(i) ==
    /\ status[i] = "queued"
    /\ Cardinality(Running) < W
    /\ \A j \in Queued : i <= j
    /\ status' = [status EXCEPT ![i] = "running"]
    /\ UNCHANGED <<fin, nxt, out>>
Finish(i) ==
    /\ status[i] = "running"
    /\ status' = [status EXCEPT ![i] = "done"]
    /\ fin' = Append(fin, i)
    /\ UNCHANGED <<nxt, out>>
Yield ==
    /\ nxt <= N /\ status[nxt] = "done"
    /\ out' = IF nxt \in IsNone THEN out ELSE Append(out, nxt)
    /\ nxt' = nxt + 1
    /\ UNCHANGED <<status, fin>>
Next == (\E i \in Tasks : Take(i) \/ Finish(i)) \/ Yield

\* the results handed out so far are exactly the non-None tasks below nxt, in increasing order
Kept(k) == {i \in Tasks : i <= k /\ i \notin IsNone}
OutIsExpected ==
    /\ Len(out) = Cardinality(Kept(nxt - 1))
    /\ \A p \in DOMAIN out : out[p] \in Kept(nxt - 1)
    /\ \A p, q \in DOMAIN out : p < q => out[p] < out[q]
IndInv ==
    /\ status \in [Tasks -> {"queued", "running", "done"}]
    /\ nxt \in 1..(N + 1)
    /\ Cardinality(Running) <= W
    /\ \A i \in Tasks : i < nxt => status[i] = "done"
    /\ OutIsExpected
    /\ Len(fin) = Cardinality({i \in Tasks : status[i] = "done"})
    /\ \A p \in DOMAIN fin : fin[p] \in Tasks /\ status[fin[p]] = "done"
    /\ \A p, q \in DOMAIN fin : p # q => fin[p] # fin[q]
\* sanity: this is NOT inductive (Yield breaks it), Apalache must find the counter-example
Bogus == IndInv /\ Len(out) = 0
BogusInit == status = Gen(8) /\ fin = Gen(8) /\ nxt = Gen(1) /\ out = Gen(8) /\ Bogus
IndInit ==
    /\ status = Gen(8) /\ fin = Gen(8) /\ nxt = Gen(1) /\ out = Gen(8)
    /\ IndInv
=============================================================================
