SPECIFICATION Spec
CONSTANTS
  Dim = 2
  N = 3
  Radii = {0, 2}
  Pos <- Pos2
  Widths <- WDiff
  Diffuse = TRUE
INVARIANT TotalVolume
INVARIANT TotalMoment
INVARIANT Commutative
INVARIANT Associative
INVARIANT FinalUnique
INVARIANT Emit
PROPERTY OperandsIntact
