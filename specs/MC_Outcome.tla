------------------------------- MODULE MC_Outcome -------------------------------
EXTENDS Outcome, TLC, Json
F(n, d, c) == [name |-> n, dim |-> d, cells |-> c]
\* tiny grids: 3x3 with a 10:1 spacing ratio (cart2a), 1x6, 3x3, 2x2x2, cylindrical 3x3 (with and without periodic z), polar 4, spherical 4
FamLoc == {F("cart2a", 2, 9), F("cart1", 1, 6), F("cart2", 2, 9), F("cart3", 3, 8), F("cyl", 3, 9), F("cylp", 3, 9), F("polar", 2, 4), F("spherical", 3, 4)}
FamLocT == {F("cart2a", 2, 12), F("cart1", 1, 8), F("cart2", 2, 12), F("cart3", 3, 12), F("cyl", 3, 12), F("cylp", 3, 12), F("polar", 2, 6), F("spherical", 3, 6)}
FamRender == {F("cart1", 1, 0), F("cart2", 2, 0), F("cart3", 3, 0), F("cyl", 3, 0), F("polar", 2, 0), F("spherical", 3, 0)}
C(c, d) == [cls |-> c, dim |-> d]
AllClasses == {C("SphericalDroplet", 1), C("SphericalDroplet", 2), C("SphericalDroplet", 3), C("DiffuseDroplet", 1),
               C("DiffuseDroplet", 2), C("DiffuseDroplet", 3), C("PerturbedDroplet2D", 2), C("PerturbedDroplet3D", 3),
               C("PerturbedDroplet3DAxisSym", 3)}
SetToSeq(S) == LET RECURSIVE O(_) O(T) == IF T = {} THEN <<>> ELSE LET m == CHOOSE x \in T : \A y \in T : x <= y IN <<m>> \o O(T \ {m}) IN O(S)
Emit == pc \in {"returned", "raised"} =>
    PrintT(ToJson(IF Op = "locate" THEN [req |-> [req EXCEPT !.img = SetToSeq(req.img)], pc |-> pc, outcome |-> outcome]
                  ELSE [req |-> req, pc |-> pc, outcome |-> outcome]))
None == {}
=============================================================================
