----------------------------- MODULE MC_Parallel -----------------------------
EXTENDS Parallel, TLC, Json
\* one line per complete schedule (completion order) for the replay harness
Emit == (Done /\ Len(fin) = N) => PrintT(ToJson([n |-> N, w |-> W, fin |-> fin, out |-> out]))
NoneSet2 == {2}
NoneSet13 == {1, 3}
Empty == {}
=============================================================================
