SPECIFICATION Spec
CONSTANTS
  N <- NC
  P <- PC
  DX <- DXC
  X0 <- X0C
  DimC = 1
  N1 = 6
  N2 = 1
  N3 = 1
  P1 = TRUE
  P2 = FALSE
  P3 = FALSE
  DX1 = 4
  DX2 = 4
  DX3 = 4
  O1 = 16
  O2 = 16
  O3 = 16
  R2S = {0, 1, 9, 36, 49, 200}
  Margin = 30
  PosStep = 1
  NDrops = 1
INVARIANT RollEquivariant
INVARIANT PeriodInvariant
INVARIANT Monotone
INVARIANT OrderFree
INVARIANT NoWrapOpenAxes
INVARIANT Emit
