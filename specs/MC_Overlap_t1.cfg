SPECIFICATION Spec
CONSTANTS
  SLt <- SLtL
  Close <- CloseL
  Bigger <- BiggerL
  L = 7
  Dim = 1
  Periodic = TRUE
  Radii = {1, 2}
  MaxN = 4
  OpenAxes = {}
  M = 0
INVARIANT Subsequence
INVARIANT InRange
INVARIANT Separated
INVARIANT Dominated
INVARIANT StrictMaxSurvives
INVARIANT NoNeedlessRemoval
INVARIANT Emit
PROPERTY Shrinks
PROPERTY Termination
