SPECIFICATION Spec
CONSTANTS
  N = 5
  W = 4
  IsNone <- NoneSet13
  Strict = TRUE
INVARIANT TypeOK
INVARIANT OrderPreserved
INVARIANT PrefixAlways
INVARIANT Deterministic
INVARIANT OnceEach
INVARIANT Emit
PROPERTY OutGrows
PROPERTY Termination
