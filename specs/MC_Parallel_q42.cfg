SPECIFICATION Spec
CONSTANTS
  N = 4
  W = 2
  IsNone <- Empty
  Strict = TRUE
INVARIANT TypeOK
INVARIANT OrderPreserved
INVARIANT PrefixAlways
INVARIANT Deterministic
INVARIANT OnceEach
INVARIANT Emit
PROPERTY OutGrows
PROPERTY Termination
