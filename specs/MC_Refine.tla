------------------------------- MODULE MC_Refine -------------------------------
EXTENDS Refine, TLC, Json
Fm(n, d, c, p) == [name |-> n, dim |-> d, constraints |-> c, periodic |-> p]
None == {}
AllFamilies == {Fm("cart1", 1, None, None), Fm("cart1-periodic", 1, None, {1}), Fm("cart2", 2, None, None),
                Fm("cart2-periodic", 2, None, {1}), Fm("cart2-periodic2", 2, None, {1, 2}), Fm("cart3", 3, None, {2}),
                Fm("polar", 2, {1, 2}, None), Fm("spherical", 3, {1, 2, 3}, None),
                Fm("cylindrical", 3, {1, 2}, None), Fm("cylindrical-periodic", 3, {1, 2}, {3})}
AllCands == {"SphericalDroplet", "DiffuseDroplet", "PerturbedDroplet2D", "PerturbedDroplet3D", "PerturbedDroplet3DAxisSym"}
SetToSeq(S) == Ordered(S)
Emit == Done => PrintT(ToJson([req |-> [req EXCEPT !.fam = [name |-> req.fam.name, dim |-> req.fam.dim,
                                                             constraints |-> SetToSeq(req.fam.constraints),
                                                             periodic |-> SetToSeq(req.fam.periodic)]],
                               env |-> env, iters |-> iters, xlo |-> xlo, xhi |-> xhi,
                               cls |-> cls, width |-> width, free |-> SetToSeq(free), lower |-> lower, upper |-> upper,
                               nextra |-> nextra]))
=============================================================================
