------------------------------ MODULE MC_Tracker ------------------------------
EXTENDS Tracker, TLC, Json
S(th, mr, rf, ra, mo) == [threshold |-> th, minimal_radius |-> mr, refine |-> rf, refine_args |-> ra, modes |-> mo]
Thresholds == {"0.5", "auto", "otsu", "0.3"}
\* every option individually and jointly non-default
AllSettings == {S(th, mr, rf, ra, mo) : th \in Thresholds, mr \in {0, 2}, rf \in BOOLEAN, ra \in {"none", "free"}, mo \in {0, 2}}
FewSettings == {S("0.5", 0, FALSE, "none", 0), S("auto", 2, FALSE, "none", 2), S("0.3", 0, TRUE, "free", 0),
                S("otsu", 2, TRUE, "none", 2), S("0.5", 2, TRUE, "free", 2), S("auto", 0, FALSE, "free", 2)}
Fields4 == {"none", "one", "two", "small"}
\* times in tenths; sequences that are increasing, repeated, decreasing, and restarting (two runs into one tracker)
TimesA == {<<0, 5, 10, 15>>, <<20, 30, 0, 10>>, <<0, 5, 0, 5>>, <<7, 7, 3, 0 - 4>>}
\* <<3, 3, ..>>: the same time twice in a row (a simulation continued with the same tracker hands over its start time again)
TimesB == {<<0, 5, 10, 15>>, <<20, 0 - 4, 30, 10>>, <<0 - 5, 0, 5, 10>>, <<3, 3, 8, 8>>}
AllSources == {"none", "index", "callable"}
NoSource == {"none"}
AllMethods == {"structure_factor_mean", "structure_factor_maximum", "droplet_detection"}
OneMethod == {"droplet_detection"}
Emit == pc = "done" => PrintT(ToJson([sim |-> sim, settings |-> settings, source |-> source, method |-> method, data |-> data, file |-> file]))
=============================================================================
