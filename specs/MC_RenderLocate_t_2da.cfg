SPECIFICATION RSpec
CONSTANTS
  N <- NC
  P <- PC
  DX <- DXC
  X0 <- X0C
  Variant = "unionfind"
  DimC = 2
  N1 = 10
  N2 = 7
  N3 = 1
  P1 = TRUE
  P2 = TRUE
  P3 = FALSE
  DX1 = 4
  DX2 = 8
  DX3 = 4
  O1 = 16
  O2 = 17
  O3 = 16
  R2S = {144, 150, 169, 200}
  NDrops = 1
  Margin = 8
  PosStep = 2
INVARIANT OnePerOriginal
INVARIANT ExactVolume
INVARIANT HalfCell
INVARIANT NoWinding
INVARIANT Correct
INVARIANT Emit
PROPERTY MaskIntact
PROPERTY Termination
