------------------------------ MODULE LocateSym ------------------------------
(***************************************************************************)
(* Locating droplets on symmetric grids:                                   *)
(*  - polar / spherical grids (_locate_droplets_in_mask_spherical): the    *)
(*    cluster containing the innermost cell gives a droplet at the origin  *)
(*    whose radius is the outer edge of that cluster;                      *)
(*  - cylindrical grids (_locate_droplets_in_mask_cylindrical[_single]):   *)
(*    clusters touching the symmetry axis; periodic z handled by padding   *)
(*    the image three times, a spanning cluster falls back to the plain    *)
(*    analysis, candidates outside the central box are dropped.            *)
(* Lattice: N = <<Nr, Nz>> (Nz = 1 for radial grids), P = <<FALSE, PZ>>.   *)
(* Lengths in integer units h: radial spacing DR (even), axial spacing DZ  *)
(* (even), axial origin Z0.  Cell (i, j) has centre (DR(2i+1)/2, Z0 +      *)
(* DZ j + DZ/2) and volume weight 2i+1 (volume = pi DR^2 DZ (2i+1)).       *)
(***************************************************************************)
EXTENDS Lattice, TLC

CONSTANTS Family,      \* "radial" | "cyl"
          DR, DZ, Z0,
          CentralRule, \* which copies of a padded candidate are kept: "closed" z_min <= z <= z_max (the implementation
                       \* before the repair of F18: a centre exactly on the seam is kept twice) | "halfopen" z_min <= z < z_max
          SpanHandling,\* what happens when the padded image holds a cluster that winds around the axis: "fallback" the padded
                       \* analysis is abandoned for the WHOLE image (the implementation before the repair of F21: every other
                       \* cluster crossing the seam is then cut in two) | "central" the winding cluster is kept as one candidate
                       \* made of its cells in the central copy of the padded image (so its volume is that of one period),
                       \* everything else is analysed as usual
          ZWeight,     \* axial position of a cluster as computed: "count" the mean over its cells (the implementation) |
                       \* "volume" every cell weighted with its volume (2i+1)
          Reading,     \* what the PROPERTY takes the centre of mass of a component to be: "cells" every cell of the binary
                       \* image counts once, as on Cartesian grids (the reading adopted, DESIGN 9.3) | "volume" cells weighted
                       \* with their volume (under this reading the implementation is refuted for clusters that are not
                       \* mirror symmetric in z; recorded as an observation)
          SpanRule     \* when a cluster counts as winding: "one-period" a cluster starting at the padded edge that is
                       \* longer than one period (before the repair: also true for non-winding clusters longer than a
                       \* period) | "whole" a cluster spanning the whole padded image (exactly the winding clusters)

VARIABLES mask,        \* set of cells <<i, j>>
          pc,          \* "start" | "padded" | "single" | "central" | "done"
          cands,       \* Seq([vc, w, sz, szw, pn, pd, cells]): on-axis clusters (count, volume weight, sum of j, volume-weighted
                       \* sum of j, axial position pn/pd in cells, cells)
          result,      \* final candidates (before Overlap.tla's removal, which is validated separately)
          radius,      \* radial grids: outer edge index (stop) or -1
          spanning     \* the padded analysis met a cluster spanning the whole axis

vars == <<mask, pc, cands, result, radius, spanning>>
Range(n) == 1..n
Nr == N[1]
Nz == N[2]
PZ == P[2]

InitWith(m) == /\ mask = m /\ pc = "start" /\ cands = <<>> /\ result = <<>>
               /\ radius = 0 - 1 /\ spanning = FALSE

-----------------------------------------------------------------------------
(* radial grids *)
\* first index not in the mask, scanning outwards from the origin
RECURSIVE StopFrom(_)
StopFrom(i) == IF i < Nr /\ <<i, 0>> \in mask THEN StopFrom(i + 1) ELSE i

Radial ==
    /\ pc = "start" /\ Family = "radial"
    /\ radius' = IF <<0, 0>> \in mask THEN StopFrom(0) ELSE 0 - 1
    /\ pc' = "done"
    /\ UNCHANGED <<mask, cands, result, spanning>>

-----------------------------------------------------------------------------
(* cylindrical grids *)
PKey(c, nz) == c[1] * nz + c[2]
PMinKey(C, nz) == CHOOSE k \in {PKey(c, nz) : c \in C} : \A c \in C : k <= PKey(c, nz)
RECURSIVE OrderBy(_, _)
OrderBy(Cs, nz) == IF Cs = {} THEN <<>>
                   ELSE LET m == CHOOSE C \in Cs : \A E \in Cs : PMinKey(C, nz) <= PMinKey(E, nz)
                        IN <<m>> \o OrderBy(Cs \ {m}, nz)

RECURSIVE SumJ(_)
SumJ(C) == IF C = {} THEN 0 ELSE LET c == CHOOSE x \in C : TRUE IN c[2] + SumJ(C \ {c})
RECURSIVE SumW(_)
SumW(C) == IF C = {} THEN 0 ELSE LET c == CHOOSE x \in C : TRUE IN 2 * c[1] + 1 + SumW(C \ {c})

RECURSIVE SumWJ(_)
SumWJ(C) == IF C = {} THEN 0 ELSE LET c == CHOOSE x \in C : TRUE IN (2 * c[1] + 1) * c[2] + SumWJ(C \ {c})

OnAxis(C) == \E c \in C : c[1] = 0
MinJ(C) == CHOOSE j \in {c[2] : c \in C} : \A c \in C : j <= c[2]
MaxJ(C) == CHOOSE j \in {c[2] : c \in C} : \A c \in C : j >= c[2]

CandOf(C) == [vc |-> Cardinality(C), w |-> SumW(C), sz |-> SumJ(C), szw |-> SumWJ(C),
              pn |-> IF ZWeight = "count" THEN SumJ(C) ELSE SumWJ(C),
              pd |-> IF ZWeight = "count" THEN Cardinality(C) ELSE SumW(C),
              cells |-> C]
\* candidates of one image (set of cells on a lattice with nz axial cells), in label order
CandsOf(img, nz) ==
    LET seq == OrderBy(CompsO(img), nz)
        on == SelectSeq(seq, OnAxis)
    IN [k \in Range(Len(on)) |-> CandOf(on[k])]

Padded == UNION {{<<c[1], c[2] + k * Nz>> : c \in mask} : k \in 0..2}

Start ==
    /\ pc = "start" /\ Family = "cyl"
    /\ IF PZ
       THEN LET cs == CandsOf(Padded, 3 * Nz)
                IsSpan(cd) == /\ MinJ(cd.cells) = 0
                              /\ IF SpanRule = "one-period" THEN MaxJ(cd.cells) + 1 > Nz
                                 ELSE MaxJ(cd.cells) + 1 = 3 * Nz
                span == \E k \in Range(Len(cs)) : IsSpan(cs[k])
            IN IF span /\ SpanHandling = "fallback" THEN spanning' = TRUE /\ cands' = <<>> /\ pc' = "single"
               ELSE /\ spanning' = span
                    \* of a winding cluster only the cells in the central copy count: its volume is that of one period
                    /\ cands' = [k \in Range(Len(cs)) |->
                                   IF IsSpan(cs[k]) THEN CandOf({c \in cs[k].cells : c[2] >= Nz /\ c[2] < 2 * Nz}) ELSE cs[k]]
                    /\ pc' = "central"
       ELSE spanning' = FALSE /\ cands' = <<>> /\ pc' = "single"
    /\ UNCHANGED <<mask, result, radius>>

Single ==
    /\ pc = "single"
    /\ result' = CandsOf(mask, Nz)
    /\ pc' = "done"
    /\ UNCHANGED <<mask, cands, radius, spanning>>

\* z of a padded candidate after subtracting one period, times 2 pd:  2 pd (Z0 + DZ (pn/pd + 1/2) - Nz DZ)
ZNum(cd, shift) == 2 * cd.pd * Z0 + DZ * (2 * cd.pn + cd.pd) - 2 * cd.pd * shift
Central ==
    /\ pc = "central"
    /\ result' = SelectSeq(cands, LAMBDA cd :
                     /\ ZNum(cd, Nz * DZ) >= 2 * cd.pd * Z0
                     /\ IF CentralRule = "closed" THEN ZNum(cd, Nz * DZ) <= 2 * cd.pd * (Z0 + Nz * DZ)
                        ELSE ZNum(cd, Nz * DZ) < 2 * cd.pd * (Z0 + Nz * DZ))
    /\ pc' = "done"
    /\ UNCHANGED <<mask, cands, radius, spanning>>

Next == Radial \/ Start \/ Single \/ Central

-----------------------------------------------------------------------------
(* Properties *)
Done == pc = "done"

RefD(C) == IF Reading = "cells" THEN Cardinality(C) ELSE SumW(C)
RefN(C) == IF Reading = "cells" THEN SumJ(C) ELSE SumWJ(C)
\* C02 (cylindrical clause), non-periodic z: result <-> open components touching the axis, each with its volume and
\* its centre of mass (in the adopted Reading)
SingleCorrect == (Done /\ Family = "cyl" /\ ~PZ) =>
    LET on == {C \in CompsO(mask) : OnAxis(C)} IN
    /\ Len(result) = Cardinality(on)
    /\ \A k \in Range(Len(result)) : /\ result[k].cells \in on /\ result[k].w = SumW(result[k].cells)
                                     /\ result[k].pn * RefD(result[k].cells) = result[k].pd * RefN(result[k].cells)
    /\ \A k, m \in Range(Len(result)) : k # m => result[k].cells # result[m].cells

\* periodic z: EVERY torus component touching the axis is found EXACTLY ONCE with its volume weight -- also when its
\* centre sits exactly on the seam, and also when some OTHER component winds around the axis; a non-winding component
\* is reported at its lifted centre of mass (modulo the period)
Unpad(C) == {<<c[1], c[2] % Nz>> : c \in C}
RECURSIVE WSumLift(_)
WSumLift(S) == IF S = {} THEN 0
               ELSE LET e == CHOOSE x \in S : TRUE
                    IN (2 * e[1][1] + 1) * (e[1][2] + Nz * e[2][2]) + WSumLift(S \ {e})
RefLift(Lf) == IF Reading = "cells" THEN SumLift(Lf, 2) ELSE WSumLift(Lf)
WindingOnAxis == \E C \in CompsP(mask) : OnAxis(C) /\ Winding(Lift(C))
PeriodicCorrect == (Done /\ Family = "cyl" /\ PZ) =>
    LET on == {C \in CompsP(mask) : OnAxis(C)} IN
    /\ \A C \in on :
         LET Lf == Lift(C)
             hits == {k \in Range(Len(result)) : Unpad(result[k].cells) = C /\ result[k].vc = Cardinality(C)}
         IN /\ Cardinality(hits) = 1
            /\ \A k \in hits : /\ result[k].w = SumW(C)
                              /\ ~Winding(Lf) =>
                                    (result[k].pn * RefD(C) - result[k].pd * RefLift(Lf)) % (Nz * result[k].pd * RefD(C)) = 0
    /\ \A k \in Range(Len(result)) : Unpad(result[k].cells) \in on /\ Cardinality(Unpad(result[k].cells)) = result[k].vc
    /\ (on = {}) => result = <<>>
\* a cluster is treated as winding exactly when a component touching the axis winds around the periodic axis
SpanSound == (Done /\ Family = "cyl" /\ PZ) => (spanning <=> WindingOnAxis)

NoAxisNoDroplet == (Done /\ Family = "cyl" /\ ~(\E c \in mask : c[1] = 0)) => result = <<>>

RadialCorrect == (Done /\ Family = "radial") =>
    /\ (<<0, 0>> \notin mask) => radius = 0 - 1
    /\ (<<0, 0>> \in mask) => /\ radius \in 1..Nr
                              /\ \A i \in 0..(radius - 1) : <<i, 0>> \in mask
                              /\ radius < Nr => <<radius, 0>> \notin mask

MaskIntact == [][mask' = mask]_vars
Termination == <>(pc = "done")
=============================================================================
