------------------------------- MODULE Overlap -------------------------------
(***************************************************************************)
(* Emulsion.remove_overlapping(min_distance, grid) as a loop of steps.     *)
(*                                                                         *)
(*   dists = pairwise surface distances, diagonal = inf                    *)
(*   while len(dists) > 1:                                                 *)
(*       x, y = first minimum of dists in row-major order   (np.argmin)    *)
(*       if dists[x, y] < min_distance:                                    *)
(*           pop y if radius[x] > radius[y] else pop x                     *)
(*       else: break                                                       *)
(*                                                                         *)
(* Geometry is abstract (constant operators on droplet values):            *)
(*   SLt(a, b, c, d)  surface distance of (a,b) < surface distance of (c,d)*)
(*   Close(a, b)      surface distance of (a,b) < min_distance             *)
(*   Bigger(a, b)     radius of a > radius of b                            *)
(* so the same actions serve the exact integer lattice (MC_Overlap) and    *)
(* the tables recorded from float executions (TraceOverlap).               *)
(***************************************************************************)
EXTENDS Naturals, Integers, Sequences, FiniteSets

CONSTANTS SLt(_, _, _, _), Close(_, _), Bigger(_, _)

VARIABLES input,   \* Seq(droplet value): the emulsion before the call; never changes
          cur,     \* Seq(Nat): indices into input of the droplets still present, in list order
          pc       \* "loop" | "done"
vars == <<input, cur, pc>>

Range(n) == 1..n
At(x) == input[cur[x]]

InitWith(em) == input = em /\ cur = [i \in Range(Len(em)) |-> i] /\ pc = "loop"

Pairs == {p \in Range(Len(cur)) \X Range(Len(cur)) : p[1] # p[2]}
Before(p, q) == p[1] < q[1] \/ (p[1] = q[1] /\ p[2] < q[2])
PLt(p, q) == SLt(At(p[1]), At(p[2]), At(q[1]), At(q[2]))
\* first minimum in row-major order
MinPair == CHOOSE p \in Pairs : \A q \in Pairs : q # p =>
               (PLt(p, q) \/ (~PLt(q, p) /\ Before(p, q)))

Remove(s, k) == [i \in Range(Len(s) - 1) |-> IF i < k THEN s[i] ELSE s[i + 1]]

Step ==
    /\ pc = "loop" /\ Len(cur) > 1
    /\ LET p == MinPair IN
       IF Close(At(p[1]), At(p[2]))
       THEN /\ cur' = IF Bigger(At(p[1]), At(p[2])) THEN Remove(cur, p[2]) ELSE Remove(cur, p[1])
            /\ pc' = pc
       ELSE cur' = cur /\ pc' = "done"
    /\ UNCHANGED input

Stop ==
    /\ pc = "loop" /\ Len(cur) <= 1
    /\ pc' = "done" /\ UNCHANGED <<input, cur>>

Next == Step \/ Stop

-----------------------------------------------------------------------------
(* Properties (C10), all stated on (input, cur) only *)

Survivors == {cur[i] : i \in Range(Len(cur))}
Removed == Range(Len(input)) \ Survivors

Subsequence == \A i \in Range(Len(cur) - 1) : cur[i] < cur[i + 1]
InRange == \A i \in Range(Len(cur)) : cur[i] \in Range(Len(input))

Separated == pc = "done" =>
    \A a, b \in Survivors : a # b => ~Close(input[a], input[b])

Dominated == \A k \in Removed : \E jj \in Range(Len(input)) :
                 jj # k /\ Close(input[k], input[jj]) /\ ~Bigger(input[k], input[jj])

StrictMaxSurvives ==
    \A k \in Range(Len(input)) :
        (\A jj \in Range(Len(input)) : jj # k => Bigger(input[k], input[jj])) => k \in Survivors

\* nothing is removed from an already separated emulsion (=> a second call is a no-op)
NoNeedlessRemoval ==
    (\A a, b \in Range(Len(input)) : a # b => ~Close(input[a], input[b])) => Removed = {}

Shrinks == [][Len(cur') <= Len(cur) /\ input' = input]_vars
Termination == <>(pc = "done")
=============================================================================
