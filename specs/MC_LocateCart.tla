--------------------------- MODULE MC_LocateCart ---------------------------
(* Every binary image of a small lattice: Init enumerates SUBSET Cells. *)
EXTENDS LocateCart, Json

CONSTANTS DimC, N1, N2, N3, P1, P2, P3      \* cfg files cannot hold tuples
NC == SubSeq(<<N1, N2, N3>>, 1, DimC)
PC == SubSeq(<<P1, P2, P3>>, 1, DimC)

Init == \E m \in SUBSET Cells : InitWith(m)
Spec == Init /\ [][Next]_vars /\ WF_vars(Next)

WindOf(k) == Winding(Lift(clusters[k].cells))
Emit == pc = "done" =>
    PrintT(ToJson([mask |-> mask,
                   cl |-> [k \in Range(Len(clusters)) |->
                             [v |-> clusters[k].v, s |-> clusters[k].s,
                              cells |-> clusters[k].cells, wind |-> WindOf(k)]]]))
=============================================================================
