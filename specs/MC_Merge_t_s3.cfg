SPECIFICATION Spec
CONSTANTS
  Dim = 3
  N = 4
  Radii = {0, 1, 2}
  Pos <- Pos3
  Widths <- WNone
  Diffuse = FALSE
INVARIANT TotalVolume
INVARIANT TotalMoment
INVARIANT Commutative
INVARIANT Associative
INVARIANT FinalUnique
INVARIANT Emit
PROPERTY OperandsIntact
