------------------------------ MODULE Collections ------------------------------
(***************************************************************************)
(* Emulsion / EmulsionTimeCourse / DropletTrack as a heap of objects.      *)
(*                                                                         *)
(* The state is what a user can observe through the public API:            *)
(*   drops  heap of droplet objects      (id = index; value = parameters)  *)
(*   ems    heap of Emulsion objects     ([mem: Seq(ObjId), dt: layout])   *)
(*   tcs    heap of EmulsionTimeCourse   ([times, ems: Seq(EmId)])         *)
(*   trks   heap of DropletTrack         ([times, objs: Seq(ObjId)])       *)
(*   tls    heap of DropletTrackList     (Seq(TrkId): a plain list -- its  *)
(*          slices hold THE SAME track objects, as documented for lists)   *)
(*   refs   droplet references held by the caller                          *)
(*   ev     Emulsion references held by the caller                         *)
(*   files  two HDF5 paths: [kind, sets] as left behind by the last        *)
(*          to_file call (a call that raises has already truncated the     *)
(*          file and may have written some members)                        *)
(*   arr    rows of the array returned by the last get_linked_data()       *)
(*          (row i shares storage with droplet arr[i])                     *)
(* Every public call is one action.  Its effect is the LIST MODEL of the   *)
(* documentation: insertion copies unless copy=False, copy()/slices/+ are  *)
(* fresh deep copies, times and members are edited together, a droplet of  *)
(* the wrong layout/dimension is rejected (ValueError, state unchanged)    *)
(* when consistency is requested.  Object identity is explicit so that     *)
(* aliasing between the caller's objects and stored ones is part of the    *)
(* state: `shared`/`eshared` are ghost sets of the objects the caller      *)
(* knowingly shares (copy=False, indexing, linked arrays).                 *)
(*                                                                         *)
(* Geometry is 1-D with exact rationals (x = <<num, den>>), so merged      *)
(* positions, surface distances and all summary queries are exact.         *)
(***************************************************************************)
EXTENDS Integers, Sequences, FiniteSets, TLC, Json

CONSTANTS
    InitVals,   \* Seq(value): the caller starts with one droplet object per entry
    EmLists,    \* set of index sequences into refs (arguments of Emulsion(..) / DropletTrack(..))
    EvLists,    \* set of index sequences into ev   (arguments of EmulsionTimeCourse(..))
    TimeLists,  \* set of explicit `times` arguments of the constructors
    Times,      \* set of explicit `time` arguments of append
    MinRs,      \* min_radius arguments (copy / remove_small)
    MutRs,      \* radii written through a reference or through the linked array
    MinDists,   \* min_distance arguments of remove_overlapping
    TlLists,    \* set of index sequences into trks (arguments of DropletTrackList(..))
    MinDurs,    \* min_duration arguments of remove_short_tracks
    Images,     \* Seq(image): one-dimensional binary images (sequences of 0/1; cells of width 2 starting at 0) that can be analysed
    ImgLists,   \* set of index sequences into Images (the frames of a storage)
    LocWidths,  \* interface_width arguments of locate_droplets (-1: none)
    TrackMethods, \* arguments of from_emulsion_time_course: records [meth |-> "overlap" | "distance", md |-> max_dist or -1]
    MaxDrops, MaxEms, MaxRefs, MaxEv, MaxTcs, MaxTrks, MaxLen, Depth,
    Ops,        \* names of the operations enabled in this instance
    Observe(_, _, _)   \* (op, new state, error): print the transition (model checking) or
                       \* match it against a recorded event (trace validation)

VARIABLES st, n
vars == <<st, n>>

Range(k) == 1..k
SeqSet(s) == {s[i] : i \in Range(Len(s))}
\* kinds = data layouts: S1 / S2 spherical in one / two dimensions, D1 diffuse in one dimension, P2a / P2b perturbed
\* two-dimensional droplets with two / four amplitudes (ONE class, one dimension, two layouts)
Dim(k) == IF k \in {"S2", "P2a", "P2b"} THEN 2 ELSE 1
Cls(k) == IF k = "D1" THEN "DiffuseDroplet" ELSE IF k \in {"P2a", "P2b"} THEN "PerturbedDroplet2D" ELSE "SphericalDroplet"

---------------------------------------------------------------------------
(* exact rationals <<num, den>>, den > 0, normalised *)
Abs(a) == IF a < 0 THEN 0 - a ELSE a
RECURSIVE Gcd(_, _)
Gcd(a, b) == IF b = 0 THEN a ELSE Gcd(b, a % b)
Norm(q) == LET g == Gcd(Abs(q[1]), q[2]) IN IF g = 0 THEN <<0, 1>> ELSE <<q[1] \div g, q[2] \div g>>
RAdd(p, q) == Norm(<<p[1] * q[2] + q[1] * p[2], p[2] * q[2]>>)
RSub(p, q) == Norm(<<p[1] * q[2] - q[1] * p[2], p[2] * q[2]>>)
RScale(c, p) == Norm(<<c * p[1], p[2]>>)
RDivI(p, c) == Norm(<<p[1], p[2] * c>>)          \* c > 0
RLt(p, q) == p[1] * q[2] < q[1] * p[2]
RLe(p, q) == p[1] * q[2] <= q[1] * p[2]
RAbs(p) == <<Abs(p[1]), p[2]>>
RInt(c) == <<c, 1>>
RMin(p, q) == IF RLt(q, p) THEN q ELSE p
RMax(p, q) == IF RLt(p, q) THEN q ELSE p

---------------------------------------------------------------------------
(* heap helpers (pure) *)
Vals(s, ids) == [i \in Range(Len(ids)) |-> s.drops[ids[i]]]
FirstKind(s, ids) == IF Len(ids) = 0 THEN "none" ELSE s.drops[ids[1]].k
\* fresh copies of the objects ids
CopyObjs(s, ids) ==
    [s   |-> [s EXCEPT !.drops = @ \o [i \in Range(Len(ids)) |-> s.drops[ids[i]]]],
     ids |-> [i \in Range(Len(ids)) |-> Len(s.drops) + i]]
AllocEm(s, mem, dt) ==
    [s |-> [s EXCEPT !.ems = Append(@, [mem |-> mem, dt |-> dt])], id |-> Len(s.ems) + 1]
\* Emulsion(iterable) with the default copy=True: fresh objects, dtype of the first one
NewEmCopy(s, ids) ==
    LET c == CopyObjs(s, ids) IN AllocEm(c.s, c.ids, FirstKind(s, ids))
\* deep copies of a sequence of Emulsion objects; result [s, ids]
RECURSIVE DeepCopyEms(_, _, _)
DeepCopyEms(s, emids, acc) ==
    IF Len(emids) = 0 THEN [s |-> s, ids |-> acc]
    ELSE LET a == NewEmCopy(s, s.ems[Head(emids)].mem)
         IN DeepCopyEms(a.s, Tail(emids), Append(acc, a.id))
Refs(s, L) == [i \in Range(Len(L)) |-> s.refs[L[i]]]
SliceSeq(q, lo, hi) == SubSeq(q, lo + 1, hi)         \* python q[lo:hi]

E(e) == st.ems[st.ev[e]]
SetMem(s, emid, mem) == [s EXCEPT !.ems[emid].mem = mem]

---------------------------------------------------------------------------
(* remove_overlapping in one dimension, exact; the same loop as Overlap.tla *)
Surf(a, b) == RSub(RAbs(RSub(a.x, b.x)), RInt(a.r + b.r))
RECURSIVE OvRun(_, _, _)
OvRun(s, cur, m) ==
    IF Len(cur) <= 1 THEN cur
    ELSE LET P == {p \in Range(Len(cur)) \X Range(Len(cur)) : p[1] # p[2]}
             D(p) == Surf(s.drops[cur[p[1]]], s.drops[cur[p[2]]])
             Before(p, q) == p[1] < q[1] \/ (p[1] = q[1] /\ p[2] < q[2])
             mp == CHOOSE p \in P : \A q \in P : q # p =>
                       (RLt(D(p), D(q)) \/ (~RLt(D(q), D(p)) /\ Before(p, q)))
             Remove(k) == [i \in Range(Len(cur) - 1) |-> IF i < k THEN cur[i] ELSE cur[i + 1]]
         IN IF RLt(D(mp), RInt(m))
            THEN IF s.drops[cur[mp[1]]].r > s.drops[cur[mp[2]]].r
                 THEN OvRun(s, Remove(mp[2]), m) ELSE OvRun(s, Remove(mp[1]), m)
            ELSE cur

(* droplet merge in one dimension: volumes 2r add, centre is volume weighted *)
Mergeable(a, b) ==
    /\ a.k = b.k /\ Dim(a.k) = 1 /\ a.r + b.r > 0
    /\ a.k = "D1" => (a.w >= 0 /\ b.w >= 0 /\ (a.w + b.w) % 2 = 0)
Merged(a, b) ==
    [k |-> a.k, r |-> a.r + b.r,
     x |-> RDivI(RAdd(RScale(a.r, a.x), RScale(b.r, b.x)), a.r + b.r),
     w |-> IF a.k = "D1" THEN (a.w + b.w) \div 2 ELSE a.w]

---------------------------------------------------------------------------
(* summary queries as folds over member values (dimension-1 members) *)
RECURSIVE FoldQ(_, _)
FoldQ(vs, acc) ==
    IF Len(vs) = 0 THEN acc
    ELSE LET v == Head(vs)
             lo == RSub(v.x, RInt(v.r))
             hi == RAdd(v.x, RInt(v.r))
         IN FoldQ(Tail(vs),
                  [cnt |-> acc.cnt + 1, sr |-> acc.sr + v.r, sr2 |-> acc.sr2 + v.r * v.r,
                   pos |-> acc.pos + (IF v.r > 0 THEN 1 ELSE 0),
                   lo |-> IF acc.cnt = 0 THEN lo ELSE RMin(acc.lo, lo),
                   hi |-> IF acc.cnt = 0 THEN hi ELSE RMax(acc.hi, hi),
                   \* interface width weighted by surface area (2 points in 1-D)
                   wn |-> acc.wn + (IF v.k = "D1" /\ v.w >= 0 THEN 2 * v.w ELSE 0),
                   wd |-> acc.wd + (IF v.k = "D1" /\ v.w >= 0 THEN 2 ELSE 0)])
Q0 == [cnt |-> 0, sr |-> 0, sr2 |-> 0, pos |-> 0, lo |-> <<0, 1>>, hi |-> <<0, 1>>, wn |-> 0, wd |-> 0]
EmQ(vs) == FoldQ(vs, Q0)
AllDim1(vs) == \A i \in Range(Len(vs)) : Dim(vs[i].k) = 1
\* index (1-based) of the stored time closest to t: first minimum, as np.argmin
Nearest(ts, t) == CHOOSE i \in Range(Len(ts)) : \A j \in Range(Len(ts)) :
                     Abs(ts[i] - t) < Abs(ts[j] - t) \/ (Abs(ts[i] - t) = Abs(ts[j] - t) /\ i <= j)
Duration(ts) == IF Len(ts) = 0 THEN 0 ELSE ts[Len(ts)] - ts[1]
\* `==` between collections is defined through the droplets' `==`, which compares two droplets of ONE class and layout
\* parameter by parameter (an unset width equals an unset width); comparisons across layouts are not modelled ("na")
OneKind(vs, ws) == \A i \in Range(Len(vs)), j \in Range(Len(ws)) : vs[i].k = ws[j].k
SeqEq(vs, ws) == IF Len(vs) # Len(ws) THEN "F" ELSE IF ~OneKind(vs, ws) THEN "na" ELSE IF vs = ws THEN "T" ELSE "F"
EmEq(s, e1, e2) == SeqEq(Vals(s, s.ems[e1].mem), Vals(s, s.ems[e2].mem))
RECURSIVE AllT(_)
AllT(q) == IF Len(q) = 0 THEN "T" ELSE IF Head(q) = "T" THEN AllT(Tail(q)) ELSE Head(q)   \* python stops at the first pair that is not equal
TcEq(s, c1, c2) ==
    LET a == s.tcs[c1]  b == s.tcs[c2] IN
    IF a.times # b.times THEN "F"            \* then both hold equally many emulsions (Aligned)
    ELSE AllT([i \in Range(Len(a.ems)) |-> IF a.ems[i] = b.ems[i] THEN "T" ELSE EmEq(s, a.ems[i], b.ems[i])])
TrkEq(s, k1, k2) ==
    IF s.trks[k1].times # s.trks[k2].times THEN "F" ELSE SeqEq(Vals(s, s.trks[k1].objs), Vals(s, s.trks[k2].objs))
\* time_overlaps: the closed time spans [start, end] of two non-empty tracks intersect
TimeOverlap(a, b) == a[1] <= b[Len(b)] /\ b[1] <= a[Len(a)]
Queries(s) ==
    [em  |-> [e \in Range(Len(s.ems)) |->
                 IF AllDim1(Vals(s, s.ems[e].mem)) THEN EmQ(Vals(s, s.ems[e].mem)) ELSE Q0],
     emeq |-> [e1 \in Range(Len(s.ev)) |-> [e2 \in Range(Len(s.ev)) |-> EmEq(s, s.ev[e1], s.ev[e2])]],
     tceq |-> [c1 \in Range(Len(s.tcs)) |-> [c2 \in Range(Len(s.tcs)) |-> TcEq(s, c1, c2)]],
     trkeq |-> [k1 \in Range(Len(s.trks)) |-> [k2 \in Range(Len(s.trks)) |-> TrkEq(s, k1, k2)]],
     tov |-> [k1 \in Range(Len(s.trks)) |-> [k2 \in Range(Len(s.trks)) |->
                 IF Len(s.trks[k1].times) = 0 \/ Len(s.trks[k2].times) = 0 THEN "na"
                 ELSE IF TimeOverlap(s.trks[k1].times, s.trks[k2].times) THEN "T" ELSE "F"]],
     dur |-> [k \in Range(Len(s.trks)) |-> Duration(s.trks[k].times)],
     near |-> [c \in Range(Len(s.tcs)) |->
                 IF Len(s.tcs[c].times) = 0 THEN <<>>
                 ELSE [t \in Times |-> Nearest(s.tcs[c].times, t)]]]

---------------------------------------------------------------------------
NoFile == [kind |-> "none", sets |-> <<>>]
Init ==
    /\ st = [drops |-> InitVals, refs |-> [i \in Range(Len(InitVals)) |-> i],
             ems |-> <<>>, ev |-> <<>>, tcs |-> <<>>, trks |-> <<>>, tls |-> <<>>, arr |-> <<>>,
             files |-> [p \in 1..2 |-> NoFile], shared |-> {}, eshared |-> {}]
    /\ n = 0

\* every action ends here
Commit(op, s2, err) ==
    /\ Observe(op, s2, err)      \* first: a trace spec can reject the candidate before s2 is computed
    /\ st' = s2
    /\ n' = n + 1
Go(name) == n < Depth /\ name \in Ops
RoomD(k) == Len(st.drops) + k <= MaxDrops
RoomE(k) == Len(st.ems) + k <= MaxEms

(* ------------------------------- Emulsion ------------------------------- *)
EmNew ==
    /\ Go("EmNew") /\ Len(st.ev) < MaxEv /\ RoomE(1)
    /\ \E L \in EmLists, copy \in BOOLEAN :
        /\ \A i \in Range(Len(L)) : L[i] <= Len(st.refs)
        /\ copy => RoomD(Len(L))
        /\ LET ids == Refs(st, L)
               a == IF copy THEN NewEmCopy(st, ids) ELSE AllocEm(st, ids, FirstKind(st, ids))
               s2 == [a.s EXCEPT !.ev = Append(@, a.id),
                                 !.shared = IF copy THEN @ ELSE @ \cup SeqSet(ids)]
           IN Commit([op |-> "EmNew", L |-> L, copy |-> copy], s2, "")

\* one append with the documented options; returns [s, err]
AppendTo(s, emid, d, copy, force) ==
    LET em == s.ems[emid]
        kd == s.drops[d].k
    IN IF em.dt # "none" /\ force /\ em.dt # kd THEN [s |-> s, err |-> "ValueError"]
       ELSE LET c == IF copy THEN CopyObjs(s, <<d>>) ELSE [s |-> s, ids |-> <<d>>]
            IN [s |-> [c.s EXCEPT !.ems[emid] = [mem |-> Append(em.mem, c.ids[1]),
                                                   dt |-> IF em.dt = "none" THEN kd ELSE em.dt],
                                  !.shared = IF copy THEN @ ELSE @ \cup {d}],
                err |-> ""]
EmAppend ==
    /\ Go("EmAppend") /\ RoomD(1)
    /\ \E e \in Range(Len(st.ev)), i \in Range(Len(st.refs)), copy \in BOOLEAN, force \in BOOLEAN :
        /\ Len(E(e).mem) < MaxLen
        /\ LET a == AppendTo(st, st.ev[e], st.refs[i], copy, force)
           IN Commit([op |-> "EmAppend", e |-> e, i |-> i, copy |-> copy, force |-> force], a.s, a.err)

\* extend = a loop of appends; with force_consistency the members before the first mismatch stay
RECURSIVE ExtendWith(_, _, _, _, _)
ExtendWith(s, emid, ids, copy, force) ==
    IF Len(ids) = 0 THEN [s |-> s, err |-> ""]
    ELSE LET a == AppendTo(s, emid, Head(ids), copy, force)
         IN IF a.err # "" THEN a ELSE ExtendWith(a.s, emid, Tail(ids), copy, force)
EmExtend ==
    /\ Go("EmExtend")
    /\ \E e \in Range(Len(st.ev)), e2 \in Range(Len(st.ev)), copy \in BOOLEAN, force \in BOOLEAN :
        /\ st.ev[e] # st.ev[e2]                       \* extending a list by itself does not terminate
        /\ Len(E(e).mem) + Len(E(e2).mem) <= MaxLen
        /\ RoomD(Len(E(e2).mem))
        /\ LET a == ExtendWith(st, st.ev[e], E(e2).mem, copy, force)
           IN Commit([op |-> "EmExtend", e |-> e, e2 |-> e2, copy |-> copy, force |-> force], a.s, a.err)

Keep(s, ids, mr) == SelectSeq(ids, LAMBDA d : s.drops[d].r > mr)
EmCopy ==
    /\ Go("EmCopy") /\ Len(st.ev) < MaxEv /\ RoomE(1)
    /\ \E e \in Range(Len(st.ev)), mr \in MinRs :
        /\ RoomD(Len(E(e).mem))
        /\ LET a == NewEmCopy(st, Keep(st, E(e).mem, mr))
           IN Commit([op |-> "EmCopy", e |-> e, mr |-> mr], [a.s EXCEPT !.ev = Append(@, a.id)], "")

EmSlice ==
    /\ Go("EmSlice") /\ Len(st.ev) < MaxEv /\ RoomE(1)
    /\ \E e \in Range(Len(st.ev)) : \E lo \in 0..Len(E(e).mem) : \E hi \in lo..Len(E(e).mem) :
        /\ RoomD(hi - lo)
        /\ LET a == NewEmCopy(st, SliceSeq(E(e).mem, lo, hi))
           IN Commit([op |-> "EmSlice", e |-> e, lo |-> lo, hi |-> hi],
                     [a.s EXCEPT !.ev = Append(@, a.id)], "")

EmIndex ==
    /\ Go("EmIndex") /\ Len(st.refs) < MaxRefs
    /\ \E e \in Range(Len(st.ev)) : \E i \in Range(Len(E(e).mem)) :
        Commit([op |-> "EmIndex", e |-> e, i |-> i],
               [st EXCEPT !.refs = Append(@, E(e).mem[i]), !.shared = @ \cup {E(e).mem[i]}], "")

EmAdd ==
    /\ Go("EmAdd") /\ Len(st.ev) < MaxEv /\ RoomE(1)
    /\ \E e1 \in Range(Len(st.ev)), e2 \in Range(Len(st.ev)) :
        /\ Len(E(e1).mem) + Len(E(e2).mem) <= MaxLen
        /\ RoomD(Len(E(e1).mem) + Len(E(e2).mem))
        /\ LET a == NewEmCopy(st, E(e1).mem \o E(e2).mem)
           IN Commit([op |-> "EmAdd", e1 |-> e1, e2 |-> e2], [a.s EXCEPT !.ev = Append(@, a.id)], "")

EmRemoveSmall ==
    /\ Go("EmRemoveSmall")
    /\ \E e \in Range(Len(st.ev)), mr \in MinRs :
        Commit([op |-> "EmRemoveSmall", e |-> e, mr |-> mr],
               SetMem(st, st.ev[e], Keep(st, E(e).mem, mr)), "")

EmRemoveOv ==
    /\ Go("EmRemoveOv")
    /\ \E e \in Range(Len(st.ev)), m \in MinDists :
        /\ AllDim1(Vals(st, E(e).mem))
        /\ Commit([op |-> "EmRemoveOv", e |-> e, m |-> m],
                  SetMem(st, st.ev[e], OvRun(st, E(e).mem, m)), "")

EmLink ==
    /\ Go("EmLink")
    /\ \E e \in Range(Len(st.ev)) :
        LET mem == E(e).mem
            kinds == {st.drops[mem[i]].k : i \in Range(Len(mem))}
            op == [op |-> "EmLink", e |-> e]
        IN IF Len(mem) = 0
           THEN IF E(e).dt = "none" THEN Commit(op, st, "RuntimeError")
                ELSE Commit(op, [st EXCEPT !.arr = <<>>], "")
           ELSE IF Cardinality({Cls(k) : k \in kinds}) > 1 THEN Commit(op, st, "TypeError")
           ELSE /\ Cardinality(kinds) = 1      \* one class but several dimensions: not modelled
                \* each droplet is linked to ONE row: if the same object is stored several times
                \* (only possible with copy=False) its last row wins, earlier rows are plain copies
                /\ LET dup == SelectSeq([i \in Range(Len(mem)) |-> i],
                                       LAMBDA i : \E j \in (i + 1)..Len(mem) : mem[j] = mem[i])
                       c == CopyObjs(st, [i \in Range(Len(dup)) |-> mem[dup[i]]])
                       rows == [i \in Range(Len(mem)) |->
                                  IF \E j \in (i + 1)..Len(mem) : mem[j] = mem[i]
                                  THEN c.ids[CHOOSE q \in Range(Len(dup)) : dup[q] = i] ELSE mem[i]]
                   IN /\ RoomD(Len(dup))
                      /\ Commit(op, [c.s EXCEPT !.arr = rows, !.shared = @ \cup SeqSet(rows)], "")

ArrWrite ==
    /\ Go("ArrWrite")
    /\ \E i \in Range(Len(st.arr)), r \in MutRs :
        Commit([op |-> "ArrWrite", i |-> i, r |-> r], [st EXCEPT !.drops[st.arr[i]].r = r], "")

Mutate ==
    /\ Go("Mutate")
    /\ \E i \in Range(Len(st.refs)), r \in MutRs :
        /\ st.drops[st.refs[i]].r # r
        /\ Commit([op |-> "Mutate", i |-> i, r |-> r], [st EXCEPT !.drops[st.refs[i]].r = r], "")

EmMerge ==
    /\ Go("EmMerge")
    /\ \E e \in Range(Len(st.ev)) : \E i \in Range(Len(E(e).mem)), j \in Range(Len(E(e).mem)), inplace \in BOOLEAN :
        /\ i # j /\ E(e).mem[i] # E(e).mem[j]
        /\ Mergeable(st.drops[E(e).mem[i]], st.drops[E(e).mem[j]])
        /\ inplace \/ (RoomD(1) /\ Len(st.refs) < MaxRefs)
        /\ LET v == Merged(st.drops[E(e).mem[i]], st.drops[E(e).mem[j]])
               s2 == IF inplace THEN [st EXCEPT !.drops[E(e).mem[i]] = v]
                     ELSE [st EXCEPT !.drops = Append(@, v), !.refs = Append(@, Len(st.drops) + 1)]
           IN Commit([op |-> "EmMerge", e |-> e, i |-> i, j |-> j, inplace |-> inplace], s2, "")

(* --------------------------- EmulsionTimeCourse -------------------------- *)
DefaultTimes(k) == [i \in Range(k) |-> i - 1]
NextTime(ts) == IF Len(ts) = 0 THEN 0 ELSE ts[Len(ts)] + 1
TotalMembers(s, emids) ==
    LET RECURSIVE T(_) T(q) == IF Len(q) = 0 THEN 0 ELSE Len(s.ems[Head(q)].mem) + T(Tail(q)) IN T(emids)

\* EmulsionTimeCourse(emulsions, times): every emulsion is deep-copied
TcBuild(op, emids, times, explicit) ==
    IF explicit /\ Len(times) # Len(emids) THEN Commit(op, st, "ValueError")
    ELSE LET c == DeepCopyEms(st, emids, <<>>)
             ts == IF explicit THEN times ELSE DefaultTimes(Len(emids))
         IN Commit(op, [c.s EXCEPT !.tcs = Append(@, [times |-> ts, ems |-> c.ids])], "")
TcNew ==
    /\ Go("TcNew") /\ Len(st.tcs) < MaxTcs
    /\ \E L \in EvLists :
        /\ \A i \in Range(Len(L)) : L[i] <= Len(st.ev)
        /\ LET emids == [i \in Range(Len(L)) |-> st.ev[L[i]]] IN
           /\ RoomE(Len(L)) /\ RoomD(TotalMembers(st, emids))
           /\ \/ TcBuild([op |-> "TcNew", L |-> L, times |-> <<>>, explicit |-> FALSE], emids, <<>>, FALSE)
              \/ \E tl \in TimeLists :
                   TcBuild([op |-> "TcNew", L |-> L, times |-> tl, explicit |-> TRUE], emids, tl, TRUE)

TcAppend ==
    /\ Go("TcAppend") /\ RoomE(1)
    /\ \E c \in Range(Len(st.tcs)), e \in Range(Len(st.ev)) :
        /\ Len(st.tcs[c].ems) < MaxLen /\ RoomD(Len(E(e).mem))
        /\ LET a == NewEmCopy(st, E(e).mem)
               Do(op, t) == Commit(op, [a.s EXCEPT !.tcs[c] = [times |-> Append(@.times, t),
                                                                 ems |-> Append(@.ems, a.id)]], "")
           IN \/ Do([op |-> "TcAppend", c |-> c, e |-> e, t |-> 0, explicit |-> FALSE], NextTime(st.tcs[c].times))
              \/ \E t \in Times : Do([op |-> "TcAppend", c |-> c, e |-> e, t |-> t, explicit |-> TRUE], t)

TcSlice ==
    /\ Go("TcSlice") /\ Len(st.tcs) < MaxTcs
    /\ \E c \in Range(Len(st.tcs)) : \E lo \in 0..Len(st.tcs[c].ems) : \E hi \in lo..Len(st.tcs[c].ems) :
        LET emids == SliceSeq(st.tcs[c].ems, lo, hi) IN
        /\ RoomE(hi - lo) /\ RoomD(TotalMembers(st, emids))
        /\ LET d == DeepCopyEms(st, emids, <<>>)
           IN Commit([op |-> "TcSlice", c |-> c, lo |-> lo, hi |-> hi],
                     [d.s EXCEPT !.tcs = Append(@, [times |-> SliceSeq(st.tcs[c].times, lo, hi), ems |-> d.ids])], "")

TcCopy ==
    /\ Go("TcCopy") /\ Len(st.tcs) < MaxTcs
    /\ \E c \in Range(Len(st.tcs)) :
        /\ RoomE(Len(st.tcs[c].ems)) /\ RoomD(TotalMembers(st, st.tcs[c].ems))
        /\ LET d == DeepCopyEms(st, st.tcs[c].ems, <<>>)
           IN Commit([op |-> "TcCopy", c |-> c],
                     [d.s EXCEPT !.tcs = Append(@, [times |-> st.tcs[c].times, ems |-> d.ids])], "")

TcIndex ==
    /\ Go("TcIndex") /\ Len(st.ev) < MaxEv
    /\ \E c \in Range(Len(st.tcs)) : \E i \in Range(Len(st.tcs[c].ems)) :
        Commit([op |-> "TcIndex", c |-> c, i |-> i],
               [st EXCEPT !.ev = Append(@, st.tcs[c].ems[i]), !.eshared = @ \cup {st.tcs[c].ems[i]}], "")

TcClear ==
    /\ Go("TcClear")
    /\ \E c \in Range(Len(st.tcs)) :
        /\ Len(st.tcs[c].ems) > 0
        /\ Commit([op |-> "TcClear", c |-> c], [st EXCEPT !.tcs[c] = [times |-> <<>>, ems |-> <<>>]], "")

(* ------------------------------ DropletTrack ----------------------------- *)
\* append: the droplet must have the dimension of the track's last droplet; a copy is stored
RECURSIVE DimsOk(_, _)
DimsOk(s, ids) == Len(ids) <= 1 \/ (Dim(s.drops[ids[1]].k) = Dim(s.drops[ids[2]].k) /\ DimsOk(s, Tail(ids)))
TrkBuild(op, ids, times, explicit) ==
    IF ~DimsOk(st, ids) THEN Commit(op, st, "ValueError")
    ELSE IF explicit /\ Len(times) # Len(ids) THEN Commit(op, st, "ValueError")
    ELSE LET c == CopyObjs(st, ids)
             ts == IF explicit THEN times ELSE DefaultTimes(Len(ids))
         IN Commit(op, [c.s EXCEPT !.trks = Append(@, [times |-> ts, objs |-> c.ids])], "")
TrkNew ==
    /\ Go("TrkNew") /\ Len(st.trks) < MaxTrks
    /\ \E L \in EmLists :
        /\ \A i \in Range(Len(L)) : L[i] <= Len(st.refs)
        /\ RoomD(Len(L))
        /\ \/ TrkBuild([op |-> "TrkNew", L |-> L, times |-> <<>>, explicit |-> FALSE], Refs(st, L), <<>>, FALSE)
           \/ \E tl \in TimeLists :
                TrkBuild([op |-> "TrkNew", L |-> L, times |-> tl, explicit |-> TRUE], Refs(st, L), tl, TRUE)

TrkAppend ==
    /\ Go("TrkAppend") /\ RoomD(1)
    /\ \E k \in Range(Len(st.trks)), i \in Range(Len(st.refs)) :
        /\ Len(st.trks[k].objs) < MaxLen
        /\ LET tr == st.trks[k]
               d == st.refs[i]
               bad == Len(tr.objs) > 0 /\ Dim(st.drops[tr.objs[Len(tr.objs)]].k) # Dim(st.drops[d].k)
               c == CopyObjs(st, <<d>>)
               Do(op, t) == IF bad THEN Commit(op, st, "ValueError")
                            ELSE Commit(op, [c.s EXCEPT !.trks[k] = [times |-> Append(tr.times, t),
                                                                       objs |-> Append(tr.objs, c.ids[1])]], "")
           IN \/ Do([op |-> "TrkAppend", k |-> k, i |-> i, t |-> 0, explicit |-> FALSE], NextTime(tr.times))
              \/ \E t \in Times : Do([op |-> "TrkAppend", k |-> k, i |-> i, t |-> t, explicit |-> TRUE], t)

TrkSlice ==
    /\ Go("TrkSlice") /\ Len(st.trks) < MaxTrks
    /\ \E k \in Range(Len(st.trks)) : \E lo \in 0..Len(st.trks[k].objs) : \E hi \in lo..Len(st.trks[k].objs) :
        /\ RoomD(hi - lo)
        /\ LET c == CopyObjs(st, SliceSeq(st.trks[k].objs, lo, hi))
           IN Commit([op |-> "TrkSlice", k |-> k, lo |-> lo, hi |-> hi],
                     [c.s EXCEPT !.trks = Append(@, [times |-> SliceSeq(st.trks[k].times, lo, hi), objs |-> c.ids])], "")

TrkCopy ==
    /\ Go("TrkCopy") /\ Len(st.trks) < MaxTrks
    /\ \E k \in Range(Len(st.trks)) :
        /\ RoomD(Len(st.trks[k].objs))
        /\ LET c == CopyObjs(st, st.trks[k].objs)
           IN Commit([op |-> "TrkCopy", k |-> k],
                     [c.s EXCEPT !.trks = Append(@, [times |-> st.trks[k].times, objs |-> c.ids])], "")

TrkIndex ==
    /\ Go("TrkIndex") /\ Len(st.refs) < MaxRefs
    /\ \E k \in Range(Len(st.trks)) : \E i \in Range(Len(st.trks[k].objs)) :
        Commit([op |-> "TrkIndex", k |-> k, i |-> i],
               [st EXCEPT !.refs = Append(@, st.trks[k].objs[i]), !.shared = @ \cup {st.trks[k].objs[i]}], "")

(* ------------------------------- files (HDF5) ------------------------------ *)
\* can these droplets be written as one dataset?  one class and one layout (an empty member is written as "None")
Storable(vs) == \A i, j \in Range(Len(vs)) : vs[i].k = vs[j].k
DataSet(vs, t, ts) == [vals |-> vs, time |-> t, times |-> ts]

\* Emulsion.to_file: open(path, "w") truncates; the single dataset is written unless the members cannot be stored
EmSave ==
    /\ Go("EmSave")
    /\ \E e \in Range(Len(st.ev)), p \in 1..2 :
        LET vs == Vals(st, E(e).mem) IN
        IF Storable(vs) THEN Commit([op |-> "EmSave", e |-> e, p |-> p],
                                    [st EXCEPT !.files[p] = [kind |-> "em", sets |-> <<DataSet(vs, 0, <<>>)>>]], "")
        ELSE Commit([op |-> "EmSave", e |-> e, p |-> p], [st EXCEPT !.files[p] = [kind |-> "em", sets |-> <<>>]], "TypeError")
\* Emulsion.from_file: exactly one dataset, else RuntimeError; the result is a new emulsion of new droplets
EmLoad ==
    /\ Go("EmLoad") /\ Len(st.ev) < MaxEv /\ RoomE(1)
    /\ \E p \in 1..2 :
        /\ st.files[p].kind = "em"
        /\ IF Len(st.files[p].sets) # 1 THEN Commit([op |-> "EmLoad", p |-> p], st, "RuntimeError")
           ELSE LET vs == st.files[p].sets[1].vals
                    base == Len(st.drops)
                    ids == [i \in Range(Len(vs)) |-> base + i]
                    a == AllocEm([st EXCEPT !.drops = @ \o vs], ids, IF Len(vs) = 0 THEN "none" ELSE vs[1].k)
                IN /\ RoomD(Len(vs))
                   /\ Commit([op |-> "EmLoad", p |-> p], [a.s EXCEPT !.ev = Append(@, a.id)], "")

\* EmulsionTimeCourse.to_file: one dataset per frame, in order; a frame that cannot be stored raises and leaves the
\* frames before it in the (truncated) file
RECURSIVE StorablePrefix(_, _)
StorablePrefix(s, emids) == IF Len(emids) = 0 \/ ~Storable(Vals(s, s.ems[Head(emids)].mem)) THEN 0
                            ELSE 1 + StorablePrefix(s, Tail(emids))
TcSave ==
    /\ Go("TcSave")
    /\ \E c \in Range(Len(st.tcs)), p \in 1..2 :
        LET tc == st.tcs[c]
            k == StorablePrefix(st, tc.ems)
            sets == [i \in Range(k) |-> DataSet(Vals(st, st.ems[tc.ems[i]].mem), tc.times[i], <<>>)]
        IN Commit([op |-> "TcSave", c |-> c, p |-> p], [st EXCEPT !.files[p] = [kind |-> "tc", sets |-> sets]],
                  IF k = Len(tc.ems) THEN "" ELSE "TypeError")
\* EmulsionTimeCourse.from_file: every dataset becomes a frame (fresh emulsions of fresh droplets), in key order
RECURSIVE LoadFrames(_, _, _)
LoadFrames(s, sets, acc) ==
    IF Len(sets) = 0 THEN [s |-> s, ids |-> acc]
    ELSE LET vs == Head(sets).vals
             base == Len(s.drops)
             a == AllocEm([s EXCEPT !.drops = @ \o vs], [i \in Range(Len(vs)) |-> base + i], IF Len(vs) = 0 THEN "none" ELSE vs[1].k)
         IN LoadFrames(a.s, Tail(sets), Append(acc, a.id))
TcLoad ==
    /\ Go("TcLoad") /\ Len(st.tcs) < MaxTcs
    /\ \E p \in 1..2 :
        /\ st.files[p].kind = "tc"
        /\ LET sets == st.files[p].sets
               nd == LET RECURSIVE T(_) T(q) == IF Len(q) = 0 THEN 0 ELSE Len(Head(q).vals) + T(Tail(q)) IN T(sets)
               l == LoadFrames(st, sets, <<>>)
           IN /\ RoomE(Len(sets)) /\ RoomD(nd)
              /\ Commit([op |-> "TcLoad", p |-> p],
                        [l.s EXCEPT !.tcs = Append(@, [times |-> [i \in Range(Len(sets)) |-> sets[i].time], ems |-> l.ids])], "")

\* DropletTrack.to_file / from_file: one dataset with a time column; mixed classes or layouts cannot be stored
TrkSave ==
    /\ Go("TrkSave")
    /\ \E k \in Range(Len(st.trks)), p \in 1..2 :
        LET vs == Vals(st, st.trks[k].objs) IN
        IF Storable(vs) THEN Commit([op |-> "TrkSave", k |-> k, p |-> p],
                                    [st EXCEPT !.files[p] = [kind |-> "trk", sets |-> <<DataSet(vs, 0, st.trks[k].times)>>]], "")
        ELSE Commit([op |-> "TrkSave", k |-> k, p |-> p], [st EXCEPT !.files[p] = [kind |-> "trk", sets |-> <<>>]], "TypeError")
TrkLoad ==
    /\ Go("TrkLoad") /\ Len(st.trks) < MaxTrks
    /\ \E p \in 1..2 :
        /\ st.files[p].kind \in {"trk", "tl"}      \* a track list file with exactly one track reads as a track
        /\ IF Len(st.files[p].sets) # 1 THEN Commit([op |-> "TrkLoad", p |-> p], st, "RuntimeError")
           ELSE LET d == st.files[p].sets[1]
                    base == Len(st.drops)
                IN /\ RoomD(Len(d.vals))
                   /\ Commit([op |-> "TrkLoad", p |-> p],
                             [st EXCEPT !.drops = @ \o d.vals,
                                        !.trks = Append(@, [times |-> d.times, objs |-> [i \in Range(Len(d.vals)) |-> base + i]])], "")

(* ---------------------------- DropletTrackList ---------------------------- *)
MaxTls == 3
TlNew ==
    /\ Go("TlNew") /\ Len(st.tls) < MaxTls
    /\ \E L \in TlLists :
        /\ \A i \in Range(Len(L)) : L[i] <= Len(st.trks)
        /\ Commit([op |-> "TlNew", L |-> L], [st EXCEPT !.tls = Append(@, L)], "")
\* a slice of a track list is a new list of the same tracks
TlSlice ==
    /\ Go("TlSlice") /\ Len(st.tls) < MaxTls
    /\ \E l \in Range(Len(st.tls)) : \E lo \in 0..Len(st.tls[l]) : \E hi \in lo..Len(st.tls[l]) :
        Commit([op |-> "TlSlice", l |-> l, lo |-> lo, hi |-> hi], [st EXCEPT !.tls = Append(@, SliceSeq(st.tls[l], lo, hi))], "")
\* tracks whose duration (last time - first time) does not exceed min_duration are dropped, in place
TlRemoveShort ==
    /\ Go("TlRemoveShort")
    /\ \E l \in Range(Len(st.tls)), md \in MinDurs :
        Commit([op |-> "TlRemoveShort", l |-> l, md |-> md],
               [st EXCEPT !.tls[l] = SelectSeq(@, LAMBDA k : Duration(st.trks[k].times) > md)], "")

(* --------------------- image analysis feeding the collections (1-D, exact) --------------------- *)
\* locate_droplets on a one-dimensional image (threshold 1/2, no refinement): one droplet per maximal run of ones, at the
\* centre of the run, with half its length as radius -- LocateCart.tla in one dimension without periodic axes, where the
\* equal-volume "spheres" are the runs themselves and never overlap.  Cells have width 2, so everything is an integer.
RECURSIVE RunsOf(_, _, _)
RunsOf(img, i, acc) ==
    IF i > Len(img) THEN acc
    ELSE IF img[i] = 0 THEN RunsOf(img, i + 1, acc)
    ELSE IF Len(acc) > 0 /\ acc[Len(acc)][2] = i - 1 THEN RunsOf(img, i + 1, [acc EXCEPT ![Len(acc)] = <<@[1], i>>])
    ELSE RunsOf(img, i + 1, Append(acc, <<i, i>>))
Located(img, w) ==
    LET rs == RunsOf(img, 1, <<>>)
    IN [k \in Range(Len(rs)) |-> [k |-> IF w < 0 THEN "S1" ELSE "D1", r |-> rs[k][2] - rs[k][1] + 1,
                                  x |-> <<rs[k][1] + rs[k][2] - 1, 1>>, w |-> w]]
\* a new emulsion of new droplets; an image without droplets gives an emulsion without layout
EmFromVals(s, vs) ==
    LET base == Len(s.drops)
    IN AllocEm([s EXCEPT !.drops = @ \o vs], [i \in Range(Len(vs)) |-> base + i], IF Len(vs) = 0 THEN "none" ELSE vs[1].k)
EmLocate ==
    /\ Go("EmLocate") /\ Len(st.ev) < MaxEv /\ RoomE(1)
    /\ \E g \in Range(Len(Images)), w \in LocWidths :
        LET vs == Located(Images[g], w)
            a == EmFromVals(st, vs)
        IN /\ RoomD(Len(vs))
           /\ Commit([op |-> "EmLocate", g |-> g, w |-> w], [a.s EXCEPT !.ev = Append(@, a.id)], "")
\* EmulsionTimeCourse.from_storage: the frames of a storage analysed one after the other (C14's offline analysis), times
\* 0, 1, 2, .. as written by the storage
RECURSIVE FramesOf(_, _, _, _)
FramesOf(s, L, w, acc) ==
    IF Len(L) = 0 THEN [s |-> s, ids |-> acc]
    ELSE LET a == EmFromVals(s, Located(Images[Head(L)], w)) IN FramesOf(a.s, Tail(L), w, Append(acc, a.id))
TcFromStorage ==
    /\ Go("TcFromStorage") /\ Len(st.tcs) < MaxTcs
    /\ \E L \in ImgLists, w \in LocWidths :
        LET nd == LET RECURSIVE T(_) T(q) == IF Len(q) = 0 THEN 0 ELSE Len(RunsOf(Images[Head(q)], 1, <<>>)) + T(Tail(q)) IN T(L)
            f == FramesOf(st, L, w, <<>>)
        IN /\ Len(L) > 0 /\ RoomE(Len(L)) /\ RoomD(nd)
           /\ Commit([op |-> "TcFromStorage", L |-> L, w |-> w],
                     [f.s EXCEPT !.tcs = Append(@, [times |-> DefaultTimes(Len(L)), ems |-> f.ids])], "")

(* ------------------- tracking on the heap: from_emulsion_time_course ------------------- *)
\* The tracker reads a time course and builds NEW tracks of NEW droplet objects (DropletTrack.append copies), so the
\* time course, its emulsions and their droplets stay what they were and nothing of the result aliases the input.
\* The matching itself is Tracking.tla's (C06/C07), here on the 1-D rational geometry of this heap:
\*   overlap : a droplet extends the one alive track whose LAST droplet (read now, i.e. possibly appended in this
\*             very frame) it overlaps; with none or several it starts a track
\*   distance: closest pair first (first minimum in row-major order), rows/columns used once, cut-off max_dist
\* A track is alive if its last time EQUALS the previous frame's time (the code compares time stamps, so with repeated
\* or non-monotone times -- which a time course accepts -- a track that ended earlier at that same time is alive too).
LastOf(q) == q[Len(q)]
Overlaps1(a, b) == RLt(RAbs(RSub(a.x, b.x)), RInt(a.r + b.r))
Dist1(a, b) == RAbs(RSub(a.x, b.x))
\* run = [s: heap state, tr: Seq([times, objs])]
RunAdd(run, k, d, t) ==
    LET c == CopyObjs(run.s, <<d>>)
    IN [s |-> c.s, tr |-> [run.tr EXCEPT ![k] = [times |-> Append(@.times, t), objs |-> Append(@.objs, c.ids[1])]]]
RunNew(run, d, t) ==
    LET c == CopyObjs(run.s, <<d>>)
    IN [s |-> c.s, tr |-> Append(run.tr, [times |-> <<t>>, objs |-> c.ids])]
RECURSIVE OvFrame(_, _, _, _)
OvFrame(run, alive, mem, t) ==
    IF Len(mem) = 0 THEN run
    ELSE LET d == Head(mem)
             ov == SelectSeq(alive, LAMBDA k : Overlaps1(run.s.drops[LastOf(run.tr[k].objs)], run.s.drops[d]))
         IN OvFrame(IF Len(ov) = 1 THEN RunAdd(run, ov[1], d, t) ELSE RunNew(run, d, t), alive, Tail(mem), t)
\* closest pair first; rows = alive tracks, columns = droplets of the frame
RECURSIVE DiPick(_, _, _, _, _, _, _)
DiPick(run, alive, mem, t, md, rows, cols) ==
    LET D(p) == Dist1(run.s.drops[LastOf(run.tr[alive[p[1]]].objs)], run.s.drops[mem[p[2]]])
        P == {p \in (Range(Len(alive)) \ rows) \X (Range(Len(mem)) \ cols) : md < 0 \/ RLe(D(p), RInt(md))}
        Before(p, q) == p[1] < q[1] \/ (p[1] = q[1] /\ p[2] < q[2])
    IN IF P = {} THEN [run |-> run, cols |-> cols]
       ELSE LET mp == CHOOSE p \in P : \A q \in P : q # p => (RLt(D(p), D(q)) \/ (~RLt(D(q), D(p)) /\ Before(p, q)))
            IN DiPick(RunAdd(run, alive[mp[1]], mem[mp[2]], t), alive, mem, t, md, rows \cup {mp[1]}, cols \cup {mp[2]})
RECURSIVE DiRest(_, _, _, _, _)
DiRest(run, mem, t, cols, j) ==
    IF j > Len(mem) THEN run
    ELSE DiRest(IF j \in cols THEN run ELSE RunNew(run, mem[j], t), mem, t, cols, j + 1)
DiFrame(run, alive, mem, t, md) ==
    LET a == IF Len(alive) > 0 /\ Len(mem) > 0 THEN DiPick(run, alive, mem, t, md, {}, {}) ELSE [run |-> run, cols |-> {}]
    IN DiRest(a.run, mem, t, a.cols, 1)
RECURSIVE TrackFrames(_, _, _, _)
TrackFrames(run, tc, f, m) ==
    IF f > Len(tc.ems) THEN run
    ELSE LET alive == IF f = 1 THEN <<>>
                      ELSE SelectSeq([k \in Range(Len(run.tr)) |-> k], LAMBDA k : LastOf(run.tr[k].times) = tc.times[f - 1])
             mem == run.s.ems[tc.ems[f]].mem
             r2 == IF m.meth = "overlap" THEN OvFrame(run, alive, mem, tc.times[f])
                   ELSE DiFrame(run, alive, mem, tc.times[f], m.md)
         IN TrackFrames(r2, tc, f + 1, m)
TlFromTc ==
    /\ Go("TlFromTc") /\ Len(st.tls) < MaxTls
    /\ \E c \in Range(Len(st.tcs)), m \in TrackMethods :
        LET tc == st.tcs[c] IN
        /\ \A i \in Range(Len(tc.ems)) : AllDim1(Vals(st, st.ems[tc.ems[i]].mem))
        /\ RoomD(TotalMembers(st, tc.ems))
        /\ LET run == TrackFrames([s |-> st, tr |-> <<>>], tc, 1, m)
               base == Len(st.trks)
           IN /\ base + Len(run.tr) <= MaxTrks
              /\ Commit([op |-> "TlFromTc", c |-> c, meth |-> m.meth, md |-> m.md],
                        [run.s EXCEPT !.trks = @ \o run.tr,
                                      !.tls = Append(@, [i \in Range(Len(run.tr)) |-> base + i])], "")

\* DropletTrackList.to_file: one dataset per track, in order; a track that cannot be stored raises and leaves the tracks
\* before it in the (truncated) file.  from_file: every dataset becomes a new track of new droplets, in key order.
RECURSIVE StorableTracks(_, _)
StorableTracks(s, ids) == IF Len(ids) = 0 \/ ~Storable(Vals(s, s.trks[Head(ids)].objs)) THEN 0
                          ELSE 1 + StorableTracks(s, Tail(ids))
TlSave ==
    /\ Go("TlSave")
    /\ \E l \in Range(Len(st.tls)), p \in 1..2 :
        LET ids == st.tls[l]
            k == StorableTracks(st, ids)
            sets == [i \in Range(k) |-> DataSet(Vals(st, st.trks[ids[i]].objs), 0, st.trks[ids[i]].times)]
        IN Commit([op |-> "TlSave", l |-> l, p |-> p], [st EXCEPT !.files[p] = [kind |-> "tl", sets |-> sets]],
                  IF k = Len(ids) THEN "" ELSE "TypeError")
RECURSIVE LoadTracks(_, _, _)
LoadTracks(s, sets, acc) ==
    IF Len(sets) = 0 THEN [s |-> s, trs |-> acc]
    ELSE LET d == Head(sets)
             base == Len(s.drops)
         IN LoadTracks([s EXCEPT !.drops = @ \o d.vals], Tail(sets),
                       Append(acc, [times |-> d.times, objs |-> [i \in Range(Len(d.vals)) |-> base + i]]))
TlLoad ==
    /\ Go("TlLoad") /\ Len(st.tls) < MaxTls
    /\ \E p \in 1..2 :
        /\ st.files[p].kind \in {"tl", "trk"}       \* a single track's file is a track list of one track
        /\ LET sets == st.files[p].sets
               nd == LET RECURSIVE T(_) T(q) == IF Len(q) = 0 THEN 0 ELSE Len(Head(q).vals) + T(Tail(q)) IN T(sets)
               l == LoadTracks(st, sets, <<>>)
               base == Len(st.trks)
           IN /\ base + Len(sets) <= MaxTrks /\ RoomD(nd)
              /\ Commit([op |-> "TlLoad", p |-> p],
                        [l.s EXCEPT !.trks = @ \o l.trs, !.tls = Append(@, [i \in Range(Len(sets)) |-> base + i])], "")

Next ==
    \/ TlFromTc \/ TlSave \/ TlLoad \/ EmLocate \/ TcFromStorage
    \/ EmSave \/ EmLoad \/ TcSave \/ TcLoad \/ TrkSave \/ TrkLoad
    \/ TlNew \/ TlSlice \/ TlRemoveShort
    \/ EmNew \/ EmAppend \/ EmExtend \/ EmCopy \/ EmSlice \/ EmIndex \/ EmAdd \/ EmRemoveSmall
    \/ EmRemoveOv \/ EmLink \/ ArrWrite \/ Mutate \/ EmMerge
    \/ TcNew \/ TcAppend \/ TcSlice \/ TcCopy \/ TcIndex \/ TcClear
    \/ TrkNew \/ TrkAppend \/ TrkSlice \/ TrkCopy \/ TrkIndex
Spec == Init /\ [][Next]_vars

---------------------------------------------------------------------------
(* Properties (C20) *)

\* times and members always have equal length
Aligned ==
    /\ \A c \in Range(Len(st.tcs)) : Len(st.tcs[c].times) = Len(st.tcs[c].ems)
    /\ \A k \in Range(Len(st.trks)) : Len(st.trks[k].times) = Len(st.trks[k].objs)

\* where a droplet object is referenced: caller, emulsion member, track member
Occ(d) ==
    Cardinality({i \in Range(Len(st.refs)) : st.refs[i] = d})
    + Cardinality({p \in Range(Len(st.ems)) \X Range(MaxLen) : p[2] <= Len(st.ems[p[1]].mem) /\ st.ems[p[1]].mem[p[2]] = d})
    + Cardinality({p \in Range(Len(st.trks)) \X Range(MaxLen) : p[2] <= Len(st.trks[p[1]].objs) /\ st.trks[p[1]].objs[p[2]] = d})
EOcc(e) ==
    Cardinality({i \in Range(Len(st.ev)) : st.ev[i] = e})
    + Cardinality({p \in Range(Len(st.tcs)) \X Range(MaxLen) : p[2] <= Len(st.tcs[p[1]].ems) /\ st.tcs[p[1]].ems[p[2]] = e})
\* droplets stored through the default path are owned by exactly one collection slot:
\* nobody else (caller, other collection, slice, copy) can reach them
Owned ==
    /\ \A d \in Range(Len(st.drops)) : d \notin st.shared => Occ(d) <= 1
    /\ \A e \in Range(Len(st.ems)) : e \notin st.eshared => EOcc(e) <= 1
\* the linked array only ever aliases objects the caller linked
ArrShared == SeqSet(st.arr) \subseteq st.shared

\* objects are never freed or renumbered; existing collections are only edited through their own id
\* a file written by a call that did not raise holds exactly one dataset per member
FilesWellFormed == \A p \in 1..2 : st.files[p].kind \in {"em", "trk"} => Len(st.files[p].sets) <= 1
\* tracking (C06 on the heap): for EVERY reachable time course and every method, the tracks the tracker would return
\* hold exactly the (droplet value, frame time) pairs of the time course, as fresh objects nobody else holds, every
\* track aligned, and the tracker leaves the heap it read untouched
RECURSIVE Flat(_)
Flat(ss) == IF Len(ss) = 0 THEN <<>> ELSE Head(ss) \o Flat(Tail(ss))
CountIn(q, x) == Cardinality({i \in Range(Len(q)) : q[i] = x})
SameBag(a, b) == Len(a) = Len(b) /\ \A x \in SeqSet(a) \cup SeqSet(b) : CountIn(a, x) = CountIn(b, x)
TcPairs(s, tc) == Flat([f \in Range(Len(tc.ems)) |->
                         [j \in Range(Len(s.ems[tc.ems[f]].mem)) |-> <<s.drops[s.ems[tc.ems[f]].mem[j]], tc.times[f]>>]])
TrPairs(run) == Flat([k \in Range(Len(run.tr)) |->
                        [j \in Range(Len(run.tr[k].objs)) |-> <<run.s.drops[run.tr[k].objs[j]], run.tr[k].times[j]>>]])
TrackingConserves ==
    \A c \in Range(Len(st.tcs)), m \in TrackMethods :
        (\A i \in Range(Len(st.tcs[c].ems)) : AllDim1(Vals(st, st.ems[st.tcs[c].ems[i]].mem))) =>
            LET run == TrackFrames([s |-> st, tr |-> <<>>], st.tcs[c], 1, m)
                objs == Flat([k \in Range(Len(run.tr)) |-> run.tr[k].objs])
            IN /\ SameBag(TrPairs(run), TcPairs(st, st.tcs[c]))
               /\ \A k \in Range(Len(run.tr)) : Len(run.tr[k].times) = Len(run.tr[k].objs) /\ Len(run.tr[k].objs) > 0
               /\ \A i \in Range(Len(objs)) : objs[i] > Len(st.drops) /\ \A j \in Range(Len(objs)) : i # j => objs[i] # objs[j]
               /\ SubSeq(run.s.drops, 1, Len(st.drops)) = st.drops
               /\ run.s.ems = st.ems /\ run.s.tcs = st.tcs /\ run.s.refs = st.refs /\ run.s.ev = st.ev
\* a track list only ever refers to existing tracks
TlValid == \A l \in Range(Len(st.tls)) : \A i \in Range(Len(st.tls[l])) : st.tls[l][i] \in Range(Len(st.trks))
HeapGrows == [][/\ Len(st'.drops) >= Len(st.drops) /\ Len(st'.ems) >= Len(st.ems)
                /\ Len(st'.tcs) >= Len(st.tcs) /\ Len(st'.trks) >= Len(st.trks)
                /\ \A i \in Range(Len(st.refs)) : st'.refs[i] = st.refs[i]
                /\ \A i \in Range(Len(st.ev)) : st'.ev[i] = st.ev[i]]_vars

\* summary queries do not depend on member order
Perms(k) == {f \in [Range(k) -> Range(k)] : \A i, j \in Range(k) : i # j => f[i] # f[j]}
OrderFree ==
    \A e \in Range(Len(st.ems)) :
        LET vs == Vals(st, st.ems[e].mem) IN
        (AllDim1(vs) /\ Len(vs) <= 3) =>
            \A p \in Perms(Len(vs)) : EmQ([i \in Range(Len(vs)) |-> vs[p[i]]]) = EmQ(vs)
\* remove_small / copy(min_radius) agree with the list comprehension
Bounded == Len(st.drops) <= MaxDrops /\ Len(st.ems) <= MaxEms
=============================================================================
