----------------------------- MODULE MC_Overlap -----------------------------
(* Exact lattice instance: droplets [p, r], integer centres on (0..L-1)^Dim, integer radii,
   integer min_distance M; box periodic with period L or open.  Surface distances
   sqrt(q) - (r1 + r2) are compared exactly by squaring (Less). *)
EXTENDS Overlap, TLC, Json

CONSTANTS L, Dim, Periodic, Radii, MaxN, M,
          OpenAxes     \* axes that are NOT periodic although Periodic = TRUE (mixed periodicity masks)
Neg1 == 0 - 1
Neg2 == 0 - 2

Pos == [1..Dim -> 0..(L - 1)]
DropSet == [p : Pos, r : Radii]
Abs(x) == IF x < 0 THEN 0 - x ELSE x
MDA(a, b, i) == LET d == Abs(a - b) IN IF Periodic /\ i \notin OpenAxes /\ L - d < d THEN L - d ELSE d
RECURSIVE SumSq(_, _, _)
SumSq(a, b, i) == IF i = 0 THEN 0 ELSE MDA(a[i], b[i], i) * MDA(a[i], b[i], i) + SumSq(a, b, i - 1)
Q(a, b) == SumSq(a.p, b.p, Dim)

\* sqrt(q1) - s1 < sqrt(q2) - s2, integers, q >= 0
Less(q1, s1, q2, s2) ==
    LET c == s1 - s2 IN      \* sqrt(q1) < sqrt(q2) + c
    IF c >= 0 THEN LET lhs == q1 - q2 - c * c IN lhs < 0 \/ lhs * lhs < 4 * c * c * q2
    ELSE LET rhs == q2 - q1 - c * c IN rhs > 0 /\ 4 * c * c * q1 < rhs * rhs

SLtL(a, b, c, d) == Less(Q(a, b), a.r + b.r, Q(c, d), c.r + d.r)
\* sqrt(q) - s < M  <=>  sqrt(q) < M + s
CloseL(a, b) == LET t == M + a.r + b.r IN t > 0 /\ Q(a, b) < t * t
BiggerL(a, b) == a.r > b.r

Init == \E n \in 0..MaxN : \E em \in [1..n -> DropSet] : InitWith(em)
Spec == Init /\ [][Next]_vars /\ WF_vars(Next)

QMat == [a \in Range(Len(input)) |-> [b \in Range(Len(input)) |-> Q(input[a], input[b])]]
Emit == pc = "done" => PrintT(ToJson([em |-> input, out |-> cur, q |-> QMat]))
=============================================================================
