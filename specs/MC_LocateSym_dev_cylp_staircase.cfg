SPECIFICATION Spec
CONSTANTS
  N <- NC
  P <- PC
  Z0 <- Z0C
  Family = "cyl"
  NrC = 14
  NzC = 4
  PZC = TRUE
  DR = 4
  DZ = 4
  Z0P = 16
  Mode = "staircase"
  R2S <- R2Sdef_dev_cylp_staircase
  ZStep = 1
  CentralRule = "halfopen"
  SpanHandling = "central"
  ZWeight = "count"
  Reading = "cells"
  SpanRule = "whole"
INVARIANT SingleCorrect
INVARIANT PeriodicCorrect
INVARIANT SpanSound
INVARIANT NoAxisNoDroplet
INVARIANT RadialCorrect
INVARIANT RadialHalfCell
INVARIANT CylOne
INVARIANT Emit
PROPERTY MaskIntact
PROPERTY Termination
