------------------------------- MODULE Lattice -------------------------------
(***************************************************************************)
(* Cells of a rectangular lattice with per-axis periodicity, face          *)
(* adjacency with and without wrap, connected components (declarative,    *)
(* by fixpoint), lifting of a torus component to Z^d, winding.            *)
(* Cells are tuples of 0-based indices; N is the tuple of axis sizes and  *)
(* P the tuple of periodicity flags.                                      *)
(***************************************************************************)
EXTENDS Naturals, Integers, Sequences, FiniteSets

CONSTANTS N, P

Dim == Len(N)
Axes == 1..Dim
RECURSIVE MaxOf(_, _)
MaxOf(s, i) == IF i = 0 THEN 0 ELSE IF s[i] > MaxOf(s, i - 1) THEN s[i] ELSE MaxOf(s, i - 1)
MaxN == MaxOf(N, Dim)

Cells == {c \in [Axes -> 0..(MaxN - 1)] : \A a \in Axes : c[a] < N[a]}

\* row-major (C order) rank of a cell; ndimage.label numbers components by their first cell
RECURSIVE KeyUpTo(_, _)
KeyUpTo(c, i) == IF i = 0 THEN 0 ELSE KeyUpTo(c, i - 1) * N[i] + c[i]
Key(c) == KeyUpTo(c, Dim)

Abs(x) == IF x < 0 THEN 0 - x ELSE x

\* c and d differ by one step along exactly one axis, no wrap
AdjO(c, d) == \E a \in Axes : /\ Abs(c[a] - d[a]) = 1
                              /\ \A b \in Axes \ {a} : c[b] = d[b]
\* ... or are neighbours across the periodic boundary of axis a
AdjW(c, d) == \E a \in Axes : /\ P[a] /\ N[a] > 1
                              /\ {c[a], d[a]} = {0, N[a] - 1}
                              /\ \A b \in Axes \ {a} : c[b] = d[b]
AdjP(c, d) == AdjO(c, d) \/ AdjW(c, d)

RECURSIVE GrowO(_, _)
GrowO(S, mask) == LET T == S \cup {d \in mask : \E c \in S : AdjO(c, d)}
                  IN IF T = S THEN S ELSE GrowO(T, mask)
RECURSIVE GrowP(_, _)
GrowP(S, mask) == LET T == S \cup {d \in mask : \E c \in S : AdjP(c, d)}
                  IN IF T = S THEN S ELSE GrowP(T, mask)

\* raster (open) components and torus components, as sets of sets of cells
RECURSIVE CompsO(_)
CompsO(mask) == IF mask = {} THEN {}
                ELSE LET c == CHOOSE x \in mask : TRUE
                         C == GrowO({c}, mask)
                     IN {C} \cup CompsO(mask \ C)
RECURSIVE CompsP(_)
CompsP(mask) == IF mask = {} THEN {}
                ELSE LET c == CHOOSE x \in mask : TRUE
                         C == GrowP({c}, mask)
                     IN {C} \cup CompsP(mask \ C)

MinKey(C) == CHOOSE k \in {Key(c) : c \in C} : \A c \in C : k <= Key(c)
\* raster label of component C of the open components Cs (1-based, by first cell)
LabelOf(C, Cs) == 1 + Cardinality({E \in Cs : MinKey(E) < MinKey(C)})

-----------------------------------------------------------------------------
(* Lifting a torus component to Z^d: elements <<cell, offset>> where offset counts the
   periods the cell is displaced.  Offsets are bounded by B so that winding components
   (whose lift is infinite) terminate; a non-winding component never needs more than
   |C| periods. *)
Zero == [a \in Axes |-> 0]
Unit(a, s) == [b \in Axes |-> IF b = a THEN s ELSE 0]
Plus(o, q) == [a \in Axes |-> o[a] + q[a]]

\* neighbours of lifted element e inside component C
LNbrs(e, C, B) ==
    LET c == e[1]  o == e[2] IN
    UNION {
      UNION {
        LET x == c[a] + s IN
        IF x >= 0 /\ x < N[a]
        THEN LET d == [c EXCEPT ![a] = x] IN IF d \in C THEN {<<d, o>>} ELSE {}
        ELSE IF P[a]
             THEN LET d == [c EXCEPT ![a] = IF x < 0 THEN N[a] - 1 ELSE 0]
                      q == Plus(o, Unit(a, s))
                  IN IF d \in C /\ Abs(q[a]) <= B THEN {<<d, q>>} ELSE {}
             ELSE {}
        : s \in {0 - 1, 1} }
      : a \in Axes }

\* breadth-first: only the frontier is expanded; growth stops as soon as a cell is reached
\* with two different offsets (the component winds, its lift is infinite)
CellsOf(Lf) == {e[1] : e \in Lf}
RECURSIVE LiftGrow(_, _, _, _)
LiftGrow(Lf, Fr, C, B) ==
    LET New == (UNION {LNbrs(e, C, B) : e \in Fr}) \ Lf
    IN IF New = {} THEN Lf
       ELSE IF \E e \in New : e[1] \in CellsOf(Lf) \/ \E g \in New : g[1] = e[1] /\ g[2] # e[2]
            THEN Lf \cup New           \* winding detected
            ELSE LiftGrow(Lf \cup New, New, C, B)
Lift(C) == LET c0 == CHOOSE c \in C : \A d \in C : Key(c) <= Key(d)
               s0 == {<<c0, Zero>>}
           IN LiftGrow(s0, s0, C, Cardinality(C))
Winding(Lf) == \E e, g \in Lf : e[1] = g[1] /\ e[2] # g[2]

RECURSIVE SumSet(_, _)
SumSet(S, a) == IF S = {} THEN 0
                ELSE LET e == CHOOSE x \in S : TRUE
                     IN e[1][a] + N[a] * e[2][a] + SumSet(S \ {e}, a)
\* sum of lifted coordinates along axis a (cell indices, unit = cells)
SumLift(Lf, a) == SumSet(Lf, a)
=============================================================================
