SPECIFICATION Spec
CONSTANTS
  SLt <- SLtT
  Close <- CloseT
  Bigger <- BiggerT
INVARIANT Verdict
