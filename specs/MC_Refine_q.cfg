SPECIFICATION Spec
CONSTANTS
  Families <- AllFamilies
  CandClasses <- AllCands
  ModeCounts = {0, 2}
  WidthOpts = {"none", "given", "zero"}
  LevelOpts = {"fixed", "autoadjust"}
INVARIANT ClassKept
INVARIANT ConstraintsFrozen
INVARIANT BoundsLayout
INVARIANT RadiusWidthBounded
INVARIANT NeverWorse
INVARIANT WrapRespectsSymmetry
INVARIANT Emit
PROPERTY Termination
