SPECIFICATION Spec
CONSTANTS
  Families <- AllFamilies
  CandClasses <- AllCands
  ModeCounts = {0, 2}
  WidthOpts = {"none", "given", "zero"}
  LevelOpts = {"fixed", "auto", "autoadjust"}
  W2s = {0, 2}
INVARIANT ClassKept
INVARIANT NothingFreeWithoutSupport
INVARIANT LevelsLayout
INVARIANT RegionRule
INVARIANT WidthSet
INVARIANT ConstraintsFrozen
INVARIANT BoundsLayout
INVARIANT RadiusWidthBounded
INVARIANT NeverWorse
INVARIANT WrapRespectsSymmetry
INVARIANT Emit
PROPERTY Termination
