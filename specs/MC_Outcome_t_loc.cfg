SPECIFICATION Spec
CONSTANTS
  Op = "locate"
  Families <- FamLocT
  ModeCounts = {0, 1, 3}
  Refines = {FALSE, TRUE}
  Widths = {"none", "given", "zero"}
  Rules = {"0.5", "otsu", "mean", "extrema"}
  MinRadii = {"zero", "one", "ninf"}
  RefineArgs = {"none", "auto", "adjust", "autoadjust"}
  Specials = {"const", "ramp", "noise"}
  Classes <- None
  Methods = {"overlap"}
  FrameKinds = {"empty"}
  MaxFrames = 0
INVARIANT NoUndocumentedRaise
INVARIANT FiniteResult
INVARIANT Emit
