SPECIFICATION TSpec
CONSTANTS
  Families = {}
  CandClasses = {}
  ModeCounts = {}
  WidthOpts = {}
  LevelOpts = {}
  W2s = {}
INVARIANT Verdict
