SPECIFICATION Spec
CONSTANTS
  SLt <- SLtL
  Close <- CloseL
  Bigger <- BiggerL
  L = 3
  Dim = 2
  Periodic = TRUE
  OpenAxes = {}
  Radii = {1, 2}
  MaxN = 3
  M <- Neg1
INVARIANT Subsequence
INVARIANT InRange
INVARIANT Separated
INVARIANT Dominated
INVARIANT StrictMaxSurvives
INVARIANT NoNeedlessRemoval
INVARIANT Emit
PROPERTY Shrinks
PROPERTY Termination
