SPECIFICATION Spec
CONSTANTS
  Kind = "Track"
  DTypes <- TypesTrack
  MaxDrops = 3
  MaxMembers = 0
  TimePatterns <- Patterns
  Paths <- OnePath
  MaxWrites = 2
  SecondObjs <- FewObjects
  CheckTrackClass = TRUE
INVARIANT RoundTrip
INVARIANT NoSilentChange
INVARIANT OneSetPerMember
INVARIANT Emit
PROPERTY Termination
