-------------------------- MODULE MC_RenderLocate --------------------------
EXTENDS RenderLocate, Json
CONSTANTS DimC, N1, N2, N3, P1, P2, P3, DX1, DX2, DX3, O1, O2, O3
NC == SubSeq(<<N1, N2, N3>>, 1, DimC)
PC == SubSeq(<<P1, P2, P3>>, 1, DimC)
DXC == SubSeq(<<DX1, DX2, DX3>>, 1, DimC)
\* origins are given as O - 16 so that cfg files need no negative numbers
X0C == SubSeq(<<O1 - 16, O2 - 16, O3 - 16>>, 1, DimC)

Emit == pc = "done" =>
    PrintT(ToJson([drops |-> drops, mask |-> mask,
                   cl |-> [k \in Range(Len(clusters)) |->
                             [v |-> clusters[k].v, s |-> clusters[k].s, wind |-> FALSE]]]))
=============================================================================
