SPECIFICATION Spec
CONSTANTS
  Kind = "Emulsion"
  DTypes <- TypesEm
  MaxDrops = 2
  MaxMembers = 0
  TimePatterns <- Patterns1
  Paths <- OnePath
  MaxWrites = 2
  SecondObjs <- FewObjects
  CheckTrackClass = TRUE
INVARIANT RoundTrip
INVARIANT NoSilentChange
INVARIANT OneSetPerMember
INVARIANT Emit
PROPERTY Termination
