SPECIFICATION Spec
CONSTANTS
  Shape <- Sh42
  Alphabet <- Vals3
  Scales <- ScalesC
INVARIANT NonNegative
INVARIANT Parseval
INVARIANT ZeroMode
INVARIANT ScaleInvariant
INVARIANT RollInvariant
INVARIANT ReflectInvariant
INVARIANT Hermitian
INVARIANT Emit
