SPECIFICATION Spec
CONSTANTS
  N <- NC
  P <- PC
  DX <- DXC
  X0 <- X0C
  DimC = 1
  N1 = 5
  N2 = 1
  N3 = 1
  P1 = FALSE
  P2 = FALSE
  P3 = FALSE
  DX1 = 2
  DX2 = 4
  DX3 = 4
  O1 = 13
  O2 = 16
  O3 = 16
  R2S = {0, 4, 25, 36}
  Margin = 8
  PosStep = 1
  NDrops = 2
INVARIANT RollEquivariant
INVARIANT PeriodInvariant
INVARIANT Monotone
INVARIANT OrderFree
INVARIANT NoWrapOpenAxes
INVARIANT Emit
