SPECIFICATION Spec
CONSTANTS
  SLt <- SLtL
  Close <- CloseL
  Bigger <- BiggerL
  L = 3
  Dim = 3
  Periodic = FALSE
  Radii = {1}
  MaxN = 3
  OpenAxes = {}
  M = 0
INVARIANT Subsequence
INVARIANT InRange
INVARIANT Separated
INVARIANT Dominated
INVARIANT StrictMaxSurvives
INVARIANT NoNeedlessRemoval
INVARIANT Emit
PROPERTY Shrinks
PROPERTY Termination
