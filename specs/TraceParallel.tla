---------------------------- MODULE TraceParallel ----------------------------
(* Validates schedules recorded from real process pools against Parallel.tla.
   Workers log "S i" when they start task i and "E i" when it is finished (one O_APPEND
   line each, so the file order is a linearisation).  The consumer's Yield steps are not
   observable from outside executor.map: they are composed silently, and the output the
   caller received is compared at the end.  Strict = FALSE: the log cannot establish in
   which order two idle workers dequeued. *)
EXTENDS Parallel, Json, IOUtils, TLC

Traces == JsonDeserialize(IOEnv.TRACE_FILE)
VARIABLES tid, l
tvars == <<status, fin, nxt, out, tid, l>>

Events == Traces[tid].events
TInit == tid \in 1..Len(Traces) /\ l = 1 /\ Init
Logged ==
    /\ l <= Len(Events) /\ l' = l + 1 /\ tid' = tid
    /\ LET e == Events[l] IN
       \/ e[1] = "S" /\ Take(e[2])
       \/ e[1] = "E" /\ Finish(e[2])
Silent == Yield /\ UNCHANGED <<tid, l>>
TNext == Logged \/ Silent
TSpec == TInit /\ [][TNext]_tvars

Finished == l = Len(Events) + 1 /\ Done
Verdict == Finished =>
    PrintT(ToJson([tid |-> tid, mode |-> "run",
                   schedule |-> TRUE,                       \* every logged step was a step of the spec
                   output |-> (out = Traces[tid].out),      \* the caller got what Yield produces
                   order |-> (fin = Traces[tid].fin)]))
=============================================================================
