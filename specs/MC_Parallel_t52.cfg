SPECIFICATION Spec
CONSTANTS
  N = 5
  W = 2
  IsNone <- NoneSet2
  Strict = TRUE
INVARIANT TypeOK
INVARIANT OrderPreserved
INVARIANT PrefixAlways
INVARIANT Deterministic
INVARIANT OnceEach
INVARIANT Emit
PROPERTY OutGrows
PROPERTY Termination
