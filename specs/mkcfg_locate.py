#!/usr/bin/env python3
"""Generate the MC_LocateCart_*.cfg files (static, committed)."""
CFGS = {
    # name: (shape, periodic, variant)
    "orig_43": ((4, 3), (1, 0), "original"),
    "q_5": ((5,), (1,), "unionfind"),
    "q_8o": ((8,), (0,), "unionfind"),
    "q_33": ((3, 3), (1, 1), "unionfind"),
    "q_43": ((4, 3), (1, 0), "unionfind"),
    "q_34": ((3, 4), (1, 1), "unionfind"),
    "t_12": ((12,), (1,), "unionfind"),
    "t_44pp": ((4, 4), (1, 1), "unionfind"),
    "t_44pf": ((4, 4), (1, 0), "unionfind"),
    "t_44fp": ((4, 4), (0, 1), "unionfind"),
    "t_44ff": ((4, 4), (0, 0), "unionfind"),
    "t_35": ((3, 5), (1, 1), "unionfind"),
    "t_223": ((2, 2, 3), (1, 1, 1), "unionfind"),
    "t_233": ((2, 3, 3), (0, 1, 1), "unionfind"),
    "t_323": ((3, 2, 3), (1, 0, 1), "unionfind"),
}
for name, (shape, per, variant) in CFGS.items():
    sh = list(shape) + [1] * (3 - len(shape))
    pp = list(per) + [0] * (3 - len(per))
    open(f"MC_LocateCart_{name}.cfg", "w").write(
        "SPECIFICATION Spec\nCONSTANTS\n  N <- NC\n  P <- PC\n"
        f"  DimC = {len(shape)}\n  N1 = {sh[0]}\n  N2 = {sh[1]}\n  N3 = {sh[2]}\n"
        f"  P1 = {'TRUE' if pp[0] else 'FALSE'}\n  P2 = {'TRUE' if pp[1] else 'FALSE'}\n  P3 = {'TRUE' if pp[2] else 'FALSE'}\n"
        f'  Variant = "{variant}"\n'
        "INVARIANT Correct\nINVARIANT Ordered\nINVARIANT Emit\nPROPERTY MaskIntact\nPROPERTY Termination\n"
    )
