---------------------------- MODULE MC_ClassSelect ----------------------------
EXTENDS ClassSelect, TLC, Json
AllFamilies == {"cart1", "cart2", "cart3", "polar", "spherical", "cylindrical"}
AllRules == {"0.5", "auto", "extrema", "mean", "otsu"}
TwoRules == {"0.5", "otsu"}
Emit == pc \in {"done", "raised"} =>
    PrintT(ToJson([req |-> req, pc |-> pc, cls |-> cls, namps |-> namps, width |-> width, err |-> err]))
=============================================================================
