SPECIFICATION Spec
CONSTANTS
  Families <- AllFamilies
  ModeCounts = {0, 1, 3}
  WidthOpts = {"none", "given", "zero"}
  ThresholdRules <- TwoRules
INVARIANT ClassAsRequested
INVARIANT ModesAsRequested
INVARIANT WidthCarried
INVARIANT WidthUnsetOtherwise
INVARIANT NoRaiseOtherwise
INVARIANT MustRaise
INVARIANT Emit
PROPERTY Termination
