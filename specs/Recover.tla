-------------------------------- MODULE Recover --------------------------------
(***************************************************************************)
(* The scenario space of C05: which rendered droplets must be recovered    *)
(* by locate_droplets(refine=True), with the premises of the property      *)
(* written out.  The fit itself is numerical and outside TLC; what the     *)
(* spec contributes is                                                     *)
(*   - the complete, explicit space of scenarios and its premises          *)
(*     (resolvable, inside or wrapped, well separated, levels supplied or  *)
(*     fitted), enumerated by TLC so that the replayed sample can be       *)
(*     chosen to cover every pair of factor values;                        *)
(*   - the expected abstract result: LocateRefined(Render(e)) = e          *)
(*     (same number of droplets, each original matched by exactly one      *)
(*     result within the property's tolerance).                            *)
(* Lengths are in cells of the finest axis.                                *)
(***************************************************************************)
EXTENDS Integers, Sequences, FiniteSets

CONSTANTS Families,      \* "cart1" | "cart2" | "cart3" | "polar" | "spherical" | "cylindrical"
          Periodicities, \* "none" | "first" | "all"      (Cartesian; cylindrical: "first" = periodic z)
          Ratios,        \* spacing ratio between axes: "1" | "5/4" | "3/2"
          Rules,         \* threshold rules
          Maps,          \* intensity maps (vmin, vmax) by name
          LevelOpts,     \* "supplied" | "supplied+fitted" | "auto+fitted"
          CentreClasses, \* "cell-centre" | "cell-corner" | "generic" | "seam-left" | "seam-right" | "outside"
          RadiusClasses, \* "3" | "3.25" | "5.5"   (cells)
          WidthClasses,  \* "1" | "1.5" | "2"
          Counts         \* number of droplets

VARIABLES sc
vars == <<sc>>

Dim(f) == IF f = "cart1" THEN 1 ELSE IF f \in {"cart2", "polar"} THEN 2 ELSE 3
Cartesian(f) == f \in {"cart1", "cart2", "cart3"}
Scenarios == [fam : Families, per : Periodicities, ratio : Ratios, rule : Rules, map : Maps, levels : LevelOpts,
              centre : CentreClasses, radius : RadiusClasses, width : WidthClasses, n : Counts]

\* premises of the property
Admissible(s) ==
    \* droplets on symmetric grids are centred / on the axis, away from the ends; no anisotropy to speak of
    /\ ~Cartesian(s.fam) => (s.centre = "generic" /\ s.ratio = "1" /\ s.n = 1)
    /\ s.fam \in {"polar", "spherical"} => s.per = "none"
    /\ s.fam = "cylindrical" => s.per \in {"none", "first"}
    /\ s.fam = "cart1" => (s.ratio = "1" /\ s.per \in {"none", "all"})
    \* straddling the seam or lying outside the box needs a periodic axis
    /\ s.centre \in {"seam-left", "seam-right", "outside"} => (Cartesian(s.fam) /\ s.per # "none")
    \* several droplets only where the box is large enough for the separation premise
    /\ s.n > 1 => (s.fam \in {"cart1", "cart2"} /\ s.radius # "5.5")
    \* 3-D is kept small
    /\ Dim(s.fam) = 3 => s.radius = "3"
    \* automatic levels need both levels to be present in the fitted region, i.e. a moderately sharp interface
    /\ s.levels = "auto+fitted" => s.width # "2"

Init == sc \in {s \in Scenarios : Admissible(s)}
Spec == Init /\ [][FALSE]_vars

\* the abstract expectation: one result per original, nothing else
Expected(s) == [count |-> s.n, tolerance |-> "1e-4"]
NonVacuous == Admissible(sc)
=============================================================================
