SPECIFICATION Spec
CONSTANTS
  Mode = "words"
  StretchExps <- ExpsW
  ScaleFactors <- Factors
  MaxWord = 2
  Shapes <- NoShapes
  MaxMode = 0
  SpacingExps <- SpQ
INVARIANT DegreeOne
INVARIANT WaveOK
INVARIANT Emit
