SPECIFICATION Spec
CONSTANTS
  Op = "render"
  Families <- FamRender
  ModeCounts = {0}
  Refines = {FALSE}
  Widths = {"none"}
  Rules = {"0.5"}
  MinRadii = {"zero"}
  RefineArgs = {"none"}
  Specials = {"const"}
  Classes <- AllClasses
  Methods = {"overlap"}
  FrameKinds = {"empty"}
  MaxFrames = 0
INVARIANT NoUndocumentedRaise
INVARIANT FiniteResult
INVARIANT Emit
