SPECIFICATION Spec
CONSTANTS
  Kind = "TrackList"
  DTypes <- TypesTL
  MaxDrops = 2
  MaxMembers = 2
  TimePatterns <- Patterns1
  Paths <- OnePath
  MaxWrites = 2
  SecondObjs <- FewObjects
  CheckTrackClass = TRUE
INVARIANT RoundTrip
INVARIANT NoSilentChange
INVARIANT OneSetPerMember
INVARIANT Emit
PROPERTY Termination
