SPECIFICATION RSpec
CONSTANTS
  N <- NC
  P <- PC
  DX <- DXC
  X0 <- X0C
  Variant = "unionfind"
  DimC = 1
  N1 = 6
  N2 = 1
  N3 = 1
  P1 = TRUE
  P2 = FALSE
  P3 = FALSE
  DX1 = 4
  DX2 = 4
  DX3 = 4
  O1 = 17
  O2 = 16
  O3 = 16
  R2S = {36, 50}
  NDrops = 1
  Margin = 60
  PosStep = 3
INVARIANT OnePerOriginal
INVARIANT ExactVolume
INVARIANT HalfCell
INVARIANT NoWinding
INVARIANT Correct
INVARIANT Emit
PROPERTY MaskIntact
PROPERTY Termination
