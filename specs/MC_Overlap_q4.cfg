SPECIFICATION Spec
CONSTANTS
  SLt <- SLtL
  Close <- CloseL
  Bigger <- BiggerL
  L = 4
  Dim = 2
  Periodic = TRUE
  OpenAxes = {2}
  Radii = {1, 2}
  MaxN = 3
  M = 0
INVARIANT Subsequence
INVARIANT InRange
INVARIANT Separated
INVARIANT Dominated
INVARIANT StrictMaxSurvives
INVARIANT NoNeedlessRemoval
INVARIANT Emit
PROPERTY Shrinks
PROPERTY Termination
