---------------------------- MODULE MC_LengthScale ----------------------------
EXTENDS LengthScale, TLC, Json
Neg(n) == 0 - n
ExpsW == {Neg(6), Neg(1), 2, 5}
ExpsWT == {Neg(6), Neg(3), Neg(1), 1, 2, 5}
Factors == {"-2.5", "2^-33", "1024"}
ShapesQ == {<<12>>, <<16>>, <<32>>, <<16, 24>>, <<8, 8, 12>>}
ShapesT == {<<16>>, <<32>>, <<64>>, <<16, 24>>, <<32, 32>>, <<20, 16>>, <<8, 8, 12>>, <<16, 16, 16>>}
SpQ == {Neg(4), 0, 2, 6}
SpT == (Neg(6))..6
NoShapes == {}
Emit == PrintT(ToJson([word |-> word, stretch |-> stretch, wave |-> wave, k2num |-> IF Mode = "waves" THEN K2Num(wave) ELSE 0]))
=============================================================================
