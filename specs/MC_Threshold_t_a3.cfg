SPECIFICATION Spec
CONSTANTS
  N = 8
  Alphabet <- A3
  NBins = 256
  NumThr2 <- ThrA9
  AffA = {1, 2, 4}
  AffB <- AffBs
  RMin2 = {0, 1, 2, 3}
INVARIANT AffineInvariant
INVARIANT StrictThreshold
INVARIANT OtsuSplits
INVARIANT FilterStrict
INVARIANT PeriodicRuns
INVARIANT Emit
