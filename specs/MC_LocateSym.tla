---------------------------- MODULE MC_LocateSym ----------------------------
(* Every binary image of a small radial or cylindrical lattice (C02, symmetric-grid clauses),
   and rendered on-axis / centred droplets (C01, symmetric-grid clauses). *)
EXTENDS LocateSym, Json

CONSTANTS NrC, NzC, PZC,
          Mode,         \* "free": all binary images;  "render": images of one centred / on-axis droplet
          R2S, ZStep    \* render mode: squared radii (h^2) and lattice step of the axial centre
NC == <<NrC, NzC>>
PC == <<FALSE, PZC>>

\* --- generated R2S definitions ---
CONSTANTS Z0P
Z0C == Z0P - 16
R2Sdef_q_rad_free == {0}
R2Sdef_q_rad_ren == 36..1600
R2Sdef_q_cyl_free == {0}
R2Sdef_q_cylp_free == {0}
R2Sdef_q_cyl_ren == {36, 41, 50, 64, 81}
R2Sdef_q_cylp_ren == {36, 41, 50, 64, 81}
R2Sdef_q_cylp_ren9 == {36, 41, 50, 64, 81}
R2Sdef_t_rad_free == {0}
R2Sdef_t_cyl_free == {0}
R2Sdef_t_cylp_free == {0}
R2Sdef_t_cyl_free2 == {0}
R2Sdef_t_cylp_free2 == {0}
R2Sdef_t_cylp_free3 == {0}
R2Sdef_t_cylp_free4 == {0}
R2Sdef_dev_cylp_closed == {0}
R2Sdef_dev_cylp_span == {0}
R2Sdef_dev_cylp_fallback == {0}
R2Sdef_dev_cyl_count == {0}
R2Sdef_dev_cylp_staircase == {0}
R2Sdef_t_cyl_ren == {144, 150, 170, 200, 256, 300}
R2Sdef_t_cylp_ren == {144, 150, 170, 200, 256, 300}
\* --- end generated ---
VARIABLES drop          \* render mode: [zc, r2]; free mode: [zc |-> 0, r2 |-> 0]

\* 4 * squared distance of the centre of cell c from the point (0, zc) on the axis
Q4(c, zc) == (2 * c[1] + 1) * (2 * c[1] + 1) * DR * DR
             + (2 * (Z0 + DZ * c[2]) + DZ - 2 * zc) * (2 * (Z0 + DZ * c[2]) + DZ - 2 * zc)
InsideS(d) == {c \in Cells : Q4(c, d.zc) < 4 * d.r2}
ISqrtUp(x) == CHOOSE k \in 0..(x + 1) : k * k >= x /\ (k = 0 \/ (k - 1) * (k - 1) < x)

\* premises (render mode): radius >= 1.5 cells, droplet inside the box by one cell (r and z)
ValidDrop(d) ==
    /\ 4 * d.r2 >= 9 * DR * DR
    /\ ISqrtUp(d.r2) + DR <= Nr * DR
    /\ Family = "cyl" => /\ 4 * d.r2 >= 9 * DZ * DZ
                         /\ d.zc - ISqrtUp(d.r2) - DZ >= Z0
                         /\ d.zc + ISqrtUp(d.r2) + DZ <= Z0 + Nz * DZ
ZSet == IF Family = "cyl" THEN {z \in Z0..(Z0 + Nz * DZ) : (z - Z0) % ZStep = 0} ELSE {Z0 + DZ \div 2}
DropSetS == {d \in [zc : ZSet, r2 : R2S] : ValidDrop(d)}

\* one fixed image: a staircase that starts on the axis and climbs one axial cell per radial cell, around and around the
\* periodic axis -- face connected, NOT winding (it never meets itself), with an unwrapped axial extent of NrC cells
Staircase == {<<i, i % NzC>> : i \in 0..(NrC - 2)} \cup {<<i, (i + 1) % NzC>> : i \in 0..(NrC - 2)}
Init == IF Mode = "free"
        THEN \E m \in SUBSET Cells : InitWith(m) /\ drop = [zc |-> 0, r2 |-> 0]
        ELSE IF Mode = "staircase" THEN InitWith(Staircase) /\ drop = [zc |-> 0, r2 |-> 0]
        ELSE \E d \in DropSetS : InitWith(InsideS(d)) /\ drop = d
SRadial == Radial /\ UNCHANGED drop
SStart == Start /\ UNCHANGED drop
SSingle == Single /\ UNCHANGED drop
SCentral == Central /\ UNCHANGED drop
SNext == SRadial \/ SStart \/ SSingle \/ SCentral
Spec == Init /\ [][SNext]_<<vars, drop>> /\ WF_vars(Next)

(* C01, symmetric-grid clauses (render mode) *)
RadialHalfCell == (Done /\ Mode = "render" /\ Family = "radial") =>
    /\ radius >= 1
    /\ (2 * radius * DR - DR) * (2 * radius * DR - DR) <= 4 * drop.r2   \* radius DR - DR/2 <= R
    /\ 4 * drop.r2 <= (2 * radius * DR + DR) * (2 * radius * DR + DR)   \* R <= radius DR + DR/2
CylOne == (Done /\ Mode = "render" /\ Family = "cyl") =>
    /\ Len(result) = 1
    /\ result[1].cells = (IF PZ THEN {<<c[1], c[2] + Nz>> : c \in InsideS(drop)} ELSE InsideS(drop))
    /\ result[1].w = SumW(InsideS(drop))
    /\ LET cd == result[1]
           shift == IF PZ THEN Nz * DZ ELSE 0
           dev == ZNum(cd, shift) - 2 * cd.pd * drop.zc      \* 2 pd (z_found - zc)
       IN (IF dev < 0 THEN 0 - dev ELSE dev) <= DZ * cd.pd   \* |z_found - zc| <= DZ / 2

Emit == Done =>
    PrintT(ToJson([mask |-> mask, drop |-> drop, radius |-> radius, spanning |-> spanning,
                   res |-> [k \in Range(Len(result)) |->
                              [vc |-> result[k].vc, w |-> result[k].w, sz |-> result[k].sz,
                               pn |-> result[k].pn, pd |-> result[k].pd]],
                   shifted |-> (Family = "cyl" /\ PZ /\ ~(spanning /\ SpanHandling = "fallback"))]))
=============================================================================
