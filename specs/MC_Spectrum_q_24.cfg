SPECIFICATION Spec
CONSTANTS
  Shape <- Sh24
  Alphabet <- Vals2
  Scales <- ScalesC
INVARIANT NonNegative
INVARIANT Parseval
INVARIANT ZeroMode
INVARIANT ScaleInvariant
INVARIANT RollInvariant
INVARIANT ReflectInvariant
INVARIANT Hermitian
INVARIANT Emit
