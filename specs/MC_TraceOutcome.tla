---------------------------- MODULE MC_TraceOutcome ----------------------------
EXTENDS TraceOutcome
F(n, d, c) == [name |-> n, dim |-> d, cells |-> c]
FamRender == {F("cart1", 1, 0)}
AllClasses == {[cls |-> "SphericalDroplet", dim |-> 1]}
=============================================================================
