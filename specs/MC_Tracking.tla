---------------------------- MODULE MC_Tracking ----------------------------
(* Exact integer-lattice instance of Tracking.tla: droplets [p, r] with integer
   centre p \in (0..L-1)^Dim and integer radius; periodic box of period L or open
   space.  All comparisons the implementation makes (overlap: dist < r1 + r2,
   cut-off: dist > max_dist, argmin order) are decided on squared integers.      *)
EXTENDS Tracking, TLC, Json

CONSTANTS L, Dim, Periodic, OpenAxes,   \* OpenAxes: axes that are NOT periodic although the box is (walls)
          Radii, MaxPer, NFrames, MethodC,
          MaxD2      \* squared cut-off; negative = every distance is cut; Unlimited = none
Unlimited == 1000000
NegOne == 0 - 1
InfC == 2000000

Pos == [1..Dim -> 0..(L - 1)]
DropSet == [p : Pos, r : Radii]
FrameSet == UNION {[1..n -> DropSet] : n \in 0..MaxPer}

Abs(x) == IF x < 0 THEN 0 - x ELSE x
\* minimum image along periodic axes, plain difference along walls
MD(i, a, b) == LET d == Abs(a - b) IN IF Periodic /\ i \notin OpenAxes /\ L - d < d THEN L - d ELSE d
RECURSIVE SumSq(_, _, _)
SumSq(a, b, i) == IF i = 0 THEN 0 ELSE MD(i, a[i], b[i]) * MD(i, a[i], b[i]) + SumSq(a, b, i - 1)
Dist2(a, b) == SumSq(a.p, b.p, Dim)
OvL(a, b) == Dist2(a, b) < (a.r + b.r) * (a.r + b.r)
DKeyL(a, b) == IF MaxD2 # Unlimited /\ Dist2(a, b) > MaxD2 THEN InfC ELSE Dist2(a, b)


Init == \E fr \in [1..NFrames -> FrameSet] : InitWith(MethodC, fr)
Spec == Init /\ [][Next]_vars /\ WF_vars(Next)

\* one line per explored history: the input and the final tracks (spec -> code replay)
Emit == pc = "done" => PrintT(ToJson([fr |-> frames, tr |-> tracks]))
=============================================================================
