SPECIFICATION Spec
CONSTANTS
  SLt <- SLtL
  Close <- CloseL
  Bigger <- BiggerL
  L = 2
  Dim = 3
  Periodic = TRUE
  OpenAxes = {}
  Radii = {1, 2}
  MaxN = 3
  M <- Neg2
INVARIANT Subsequence
INVARIANT InRange
INVARIANT Separated
INVARIANT Dominated
INVARIANT StrictMaxSurvives
INVARIANT NoNeedlessRemoval
INVARIANT Emit
PROPERTY Shrinks
PROPERTY Termination
