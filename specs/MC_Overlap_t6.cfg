SPECIFICATION Spec
CONSTANTS
  SLt <- SLtL
  Close <- CloseL
  Bigger <- BiggerL
  L = 3
  Dim = 2
  Periodic = TRUE
  Radii = {1}
  MaxN = 4
  OpenAxes = {}
  M = 0
INVARIANT Subsequence
INVARIANT InRange
INVARIANT Separated
INVARIANT Dominated
INVARIANT StrictMaxSurvives
INVARIANT NoNeedlessRemoval
INVARIANT Emit
PROPERTY Shrinks
PROPERTY Termination
