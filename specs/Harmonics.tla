------------------------------- MODULE Harmonics -------------------------------
(***************************************************************************)
(* The exact, discrete part of perturbed droplets (C13).                   *)
(*                                                                         *)
(* (i)   mode bookkeeping of the real spherical harmonics:                 *)
(*           k = l (l + 1) + m,   -l <= m <= l,   count(l) = (l + 1)^2     *)
(*       amplitude i (1-based, the zeroth mode is skipped) of a 3-D        *)
(*       droplet is mode k = i; of an axisymmetric droplet degree l = i,   *)
(*       m = 0; of a 2-D droplet harmonic n = (i + 1) div 2, sine for odd  *)
(*       i, cosine for even i.                                             *)
(* (ii)  the mean curvature to first order in the amplitudes is a LINEAR   *)
(*       operator on amplitude vectors, diagonal in the modes:             *)
(*           2-D:  kappa R0 = 1 + sum (n^2 - 1) (a_n sin + b_n cos)        *)
(*           3-D:  H R0     = 1 + sum_k a_k (l_k^2 + l_k - 2) / 2  Y_k     *)
(*       additive over modes, homogeneous of degree -1 in R0.              *)
(* (iii) volume: V_2D = pi R0^2 (1 + sum a^2 / 2) exactly;                 *)
(*       V_3D = R0^3 (4 pi / 3 + sum a_k^2 + O(a^3)): the first-order      *)
(*       change vanishes for every mode k >= 1.                            *)
(* TLC checks the bookkeeping identities and enumerates the configurations *)
(* (class, set of active modes with signs, radius exponent) whose exact    *)
(* first-order coefficient vectors the harness compares with the code.     *)
(***************************************************************************)
EXTENDS Integers, Sequences, FiniteSets

CONSTANTS Classes,     \* subset of {"P2", "P3", "PA"}
          MaxModes,    \* amplitudes 1..MaxModes may be active
          MaxActive,   \* at most this many non-zero amplitudes
          RadExps,     \* radius = 2^e
          KMax         \* bookkeeping identities are checked for k <= KMax

VARIABLES cls, active, rexp      \* active: function from a set of amplitude indices to {-1, 1}
vars == <<cls, active, rexp>>

(* ---- (i) bookkeeping *)
ISqrt(k) == CHOOSE s \in 0..k : s * s <= k /\ (s + 1) * (s + 1) > k
IndexK(l, m) == l * (l + 1) + m
Deg(k) == ISqrt(k)
Ord(k) == k - Deg(k) * (Deg(k) + 1)
Count(l) == 1 + 2 * l + l * l
Optimal(n) == \E s \in 0..n : s * s = n

Bijection == \A k \in 0..KMax : /\ 0 - Deg(k) <= Ord(k) /\ Ord(k) <= Deg(k)
                                /\ IndexK(Deg(k), Ord(k)) = k
InverseOnPairs == \A l \in 0..ISqrt(KMax) : \A m \in (0 - l)..l :
                      IndexK(l, m) <= KMax => (Deg(IndexK(l, m)) = l /\ Ord(IndexK(l, m)) = m)
CountIsSquare == \A l \in 0..ISqrt(KMax) : Count(l) = (l + 1) * (l + 1) /\ Count(l) = IndexK(l, l) + 1 /\ Optimal(Count(l))
OptimalOnlySquares == \A n \in 1..KMax : Optimal(n) <=> (\E l \in 0..n : Count(l) = n)

(* ---- mode of amplitude i for each class: [l, m] (3-D), [l, 0] (axisymmetric), [n, 1 | 2] (2-D: 1 = sin, 2 = cos) *)
ModeOf(c, i) == IF c = "P3" THEN <<Deg(i), Ord(i)>> ELSE IF c = "PA" THEN <<i, 0>> ELSE <<(i + 1) \div 2, IF i % 2 = 1 THEN 1 ELSE 2>>
\* ---- (ii) first-order curvature coefficient of amplitude i, as <<num, den>>
CurvCoeff(c, i) == IF c = "P2" THEN <<ModeOf(c, i)[1] * ModeOf(c, i)[1] - 1, 1>>
                   ELSE LET l == ModeOf(c, i)[1] IN <<l * l + l - 2, 2>>
\* a pure translation (l = 1, or n = 1) does not change the curvature to first order
TranslationModesFlat == \A c \in {"P2", "P3", "PA"} : \A i \in 1..MaxModes :
                            ModeOf(c, i)[1] = 1 => CurvCoeff(c, i)[1] = 0
\* higher modes always increase the curvature where the surface bulges out
HigherModesPositive == \A c \in {"P2", "P3", "PA"} : \A i \in 1..MaxModes :
                            ModeOf(c, i)[1] >= 2 => CurvCoeff(c, i)[1] > 0
\* no amplitude slot is the zeroth mode (which would change the volume to first order)
NoZerothMode == \A c \in {"P2", "P3", "PA"} : \A i \in 1..MaxModes : ModeOf(c, i)[1] >= 1

Supports == {S \in SUBSET (1..MaxModes) : Cardinality(S) <= MaxActive}
Init == /\ cls \in Classes /\ rexp \in RadExps
        /\ \E S \in Supports : active \in [S -> {0 - 1, 1}]
Spec == Init /\ [][FALSE]_vars
=============================================================================
