--------------------------- MODULE MC_Collections ---------------------------
(* bounded instances of Collections.tla; constants that are not plain cfg values *)
EXTENDS Collections

S1(r, x) == [k |-> "S1", r |-> r, x |-> <<x, 1>>, w |-> 0 - 1]
D1(r, x, w) == [k |-> "D1", r |-> r, x |-> <<x, 1>>, w |-> w]
S2(r, x) == [k |-> "S2", r |-> r, x |-> <<x, 1>>, w |-> 0 - 1]
Neg1 == 0 - 1
P2a(r, x) == [k |-> "P2a", r |-> r, x |-> <<x, 1>>, w |-> 0 - 1]
P2b(r, x) == [k |-> "P2b", r |-> r, x |-> <<x, 1>>, w |-> 0 - 1]
\* layouts of one class: perturbed droplets with two and with four amplitudes, and a plain 2-D droplet
ValsPl == <<P2a(1, 0), P2b(2, 3), P2a(1, 5), S2(1, 1)>>
ListsPl == {<<>>, <<1>>, <<1, 3>>, <<2>>, <<4>>}
OpsPl == {"EmNew", "EmAppend", "EmExtend", "EmIndex", "EmAdd", "EmSave", "EmLoad", "EmLink"}
\* one line per transition for the replay harness
ObservePrint(op, s2, err) == PrintT(ToJson([n |-> n, f |-> st, o |-> op, t |-> s2, e |-> err, q |-> Queries(s2)]))

ObserveNone(op, s2, err) == TRUE
\* emulsion world: two spherical droplets that overlap, a vanished one, one of another layout
ValsEm == <<S1(2, 0), S1(1, 2), S1(0, 5), D1(1, 6, 0)>>
ListsEm == {<<>>, <<1, 2>>, <<3, 1, 2>>, <<4>>}
\* diffuse world: widths (0 = sharp, None = -1), merging of diffuse droplets
ValsDf == <<D1(1, 0, 0), D1(2, 4, 2), D1(0, 9, Neg1), S2(1, 3)>>
ListsDf == {<<1, 2>>, <<2, 3, 1>>, <<4, 1>>}
\* time courses
ValsTc == <<S1(2, 0), S1(0, 5), D1(1, 6, 2)>>
ListsTc == {<<>>, <<1, 2>>, <<3>>}
EvListsTc == {<<>>, <<1>>, <<1, 2>>, <<2, 1>>}
TimeListsTc == {<<>>, <<3>>, <<0 - 2, 0>>}
TimesTc == {0 - 1, 0, 4}
\* tracks
ValsTr == <<S1(2, 0), S1(1, 3), S2(1, 1), D1(1, 6, 2)>>
ListsTr == {<<>>, <<1>>, <<1, 2>>, <<1, 3>>, <<4, 2, 1>>}
TimeListsTr == {<<>>, <<5>>, <<0 - 2, 0>>, <<0, 1, 3>>}
MinRsAll == {Neg1, 0, 1}
MinDistsDf == {Neg1, 1}
ListsEm2 == {<<1, 2>>, <<3, 1, 2>>}
NoLists == {<<>>}
OpsEm == {"EmNew", "EmAppend", "EmExtend", "EmCopy", "EmSlice", "EmIndex", "EmAdd", "EmRemoveSmall",
          "EmRemoveOv", "EmLink", "ArrWrite", "Mutate", "EmMerge"}
OpsTc == {"EmNew", "EmIndex", "EmRemoveSmall", "Mutate", "TcNew", "TcAppend", "TcSlice", "TcCopy", "TcIndex", "TcClear"}
OpsTr == {"Mutate", "TrkNew", "TrkAppend", "TrkSlice", "TrkCopy", "TrkIndex"}
OpsIo == {"EmNew", "EmAppend", "EmRemoveSmall", "Mutate", "EmSave", "EmLoad", "TcNew", "TcAppend", "TcSave", "TcLoad", "TrkNew", "TrkSave", "TrkLoad"}
OpsTl == {"TrkNew", "TrkAppend", "TrkSlice", "TlNew", "TlSlice", "TlRemoveShort"}
OpsTk == {"EmNew", "TcNew", "TcAppend", "Mutate", "TlFromTc", "TrkIndex", "TlRemoveShort"}
OpsTf == {"TrkNew", "TrkAppend", "TlNew", "TlSave", "TlLoad", "TrkLoad", "TrkSave", "Mutate", "TrkIndex"}
\* tracking: droplets that overlap in a chain (1-2, 2-3 overlap, 1-3 touch), one far away, a diffuse one on top of 1
M(meth, md) == [meth |-> meth, md |-> md]
MethodsAll == {M("overlap", Neg1), M("distance", Neg1), M("distance", 2)}
MethodsOv == {M("overlap", Neg1)}
NoMethods == {}
ValsTk == <<S1(2, 0), S1(1, 2), S1(1, 4), S1(1, 9), D1(1, 1, 0)>>
ListsTk == {<<>>, <<1>>, <<1, 3>>, <<2, 4>>, <<3, 2, 5>>}
EvListsTk == {<<1, 2>>, <<2, 1>>, <<1, 2, 3>>, <<1, 1>>}
TimeListsTk == {<<>>, <<0, 0>>, <<2, 0 - 2>>, <<0, 1, 0>>}
ListsTkQ == {<<1, 3>>, <<2, 4>>, <<3, 2, 5>>}
EvListsTkQ == {<<1, 2>>, <<2, 1, 2>>}
TimeListsTkQ == {<<>>, <<0, 0>>, <<0, 1, 0>>}
\* no Mutate: the replay finds aliasing by writing through every handle in every state anyway
OpsTkQ == {"EmNew", "TcNew", "TlFromTc", "TrkIndex"}
ListsTfQ == {<<>>, <<1, 2>>, <<4, 2, 1>>}
TimeListsTfQ == {<<>>, <<0, 1, 3>>}
TlListsTfQ == {<<1>>, <<1, 2>>, <<2, 1, 2>>}
OpsTfQ == {"TrkNew", "TlNew", "TlSave", "TlLoad", "TrkLoad", "TrkSave"}
\* the whole pipeline: images -> emulsions / time courses -> tracks -> files
ImagesA == << <<0, 1, 1, 0, 0, 1, 0, 0>>, <<0, 0, 1, 1, 0, 1, 1, 0>>, <<0, 0, 0, 0, 0, 0, 0, 0>>, <<1, 1, 1, 0, 0, 0, 0, 1>> >>
ImgListsA == {<<1, 2>>, <<1, 3, 2>>, <<4, 1>>, <<3>>}
NoImages == <<>>
ValsSys == <<S1(1, 0)>>
WidthsA == {Neg1, 2}
NoWidths == {Neg1}
OpsSysQ == {"TcFromStorage", "TlFromTc", "TlSave", "TlLoad", "TcSave", "TcLoad", "EmLocate"}
ImgListsQ == {<<1, 2>>, <<4, 3, 1>>}
OpsSys == {"EmLocate", "TcFromStorage", "TlFromTc", "TlSave", "TlLoad", "TcSave", "TcLoad", "TcIndex", "TrkIndex"}
EvListsTcQ == {<<1>>, <<1, 2>>, <<2, 1>>}
TimeListsTcQ == {<<>>, <<0 - 2, 0>>, <<3>>}
TimesTcQ == {0 - 1, 4}
TlListsA == {<<>>, <<1>>, <<1, 2>>, <<2, 1, 2>>}
MinDursA == {Neg1, 0, 2}
=============================================================================
