--------------------------- MODULE MC_SphereAlgebra ---------------------------
EXTENDS SphereAlgebra, TLC, Json
Neg(n) == 0 - n
DecadesQ == {Neg(12), Neg(3), 0, 2, 9}
DecadesT == Neg(15)..15
AllVariants == {"function", "array", "compiled", "nd_compiled", "droplet"}
Emit == PrintT(ToJson([conv |-> conv, dim |-> dim, variant |-> variant, decade |-> decade, mono |-> Doc(conv, dim)]))
=============================================================================
