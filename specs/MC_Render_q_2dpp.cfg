SPECIFICATION Spec
CONSTANTS
  N <- NC
  P <- PC
  DX <- DXC
  X0 <- X0C
  DimC = 2
  N1 = 3
  N2 = 4
  N3 = 1
  P1 = TRUE
  P2 = TRUE
  P3 = FALSE
  DX1 = 2
  DX2 = 4
  DX3 = 4
  O1 = 17
  O2 = 16
  O3 = 16
  R2S = {9, 20}
  Margin = 8
  PosStep = 2
  NDrops = 1
INVARIANT RollEquivariant
INVARIANT PeriodInvariant
INVARIANT Monotone
INVARIANT OrderFree
INVARIANT NoWrapOpenAxes
INVARIANT Emit
