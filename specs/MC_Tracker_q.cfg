SPECIFICATION Spec
CONSTANTS
  FieldIds <- Fields4
  TimeSeqs <- TimesB
  SettingsSet <- FewSettings
  Sources <- AllSources
  Methods <- AllMethods
  MaxLen = 2
  ReaderOrder = "key"
INVARIANT OnlineEqualsOffline
INVARIANT FilePersists
INVARIANT FramePerInterrupt
INVARIANT TimesIdentical
INVARIANT LengthScalePerFrame
INVARIANT LengthScaleFile
INVARIANT Emit
PROPERTY AppendOnly
PROPERTY Termination
