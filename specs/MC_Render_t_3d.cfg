SPECIFICATION Spec
CONSTANTS
  N <- NC
  P <- PC
  DX <- DXC
  X0 <- X0C
  DimC = 3
  N1 = 3
  N2 = 4
  N3 = 3
  P1 = FALSE
  P2 = TRUE
  P3 = TRUE
  DX1 = 4
  DX2 = 2
  DX3 = 4
  O1 = 16
  O2 = 16
  O3 = 14
  R2S = {9, 27, 50}
  Margin = 6
  PosStep = 3
  NDrops = 1
INVARIANT RollEquivariant
INVARIANT PeriodInvariant
INVARIANT Monotone
INVARIANT OrderFree
INVARIANT NoWrapOpenAxes
INVARIANT Emit
