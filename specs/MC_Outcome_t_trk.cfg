SPECIFICATION Spec
CONSTANTS
  Op = "track"
  Families <- FamRender
  ModeCounts = {0}
  Refines = {FALSE}
  Widths = {"none"}
  Rules = {"0.5"}
  MinRadii = {"zero"}
  RefineArgs = {"none"}
  Specials = {"const"}
  Classes <- None
  Methods = {"overlap", "distance"}
  FrameKinds = {"empty", "one", "two", "shifted", "moved"}
  MaxFrames = 4
INVARIANT NoUndocumentedRaise
INVARIANT FiniteResult
INVARIANT Emit
