SPECIFICATION Spec
CONSTANTS
  N = 3
  W = 1
  IsNone <- Empty
  Strict = TRUE
INVARIANT TypeOK
INVARIANT OrderPreserved
INVARIANT PrefixAlways
INVARIANT Deterministic
INVARIANT OnceEach
INVARIANT Emit
PROPERTY OutGrows
PROPERTY Termination
