SPECIFICATION Spec
CONSTANTS
  Kind = "TrackList"
  DTypes <- TypesTL
  MaxDrops = 2
  MaxMembers = 3
  TimePatterns <- Patterns
  Paths <- OnePath
  MaxWrites = 2
  SecondObjs <- FewObjects
  CheckTrackClass = TRUE
INVARIANT RoundTrip
INVARIANT NoSilentChange
INVARIANT OneSetPerMember
INVARIANT Emit
PROPERTY Termination
