SPECIFICATION Spec
CONSTANTS
  Kind = "TimeCourse"
  DTypes <- TypesSmall
  MaxDrops = 2
  MaxMembers = 2
  TimePatterns <- Patterns
  Paths <- OnePath
  MaxWrites = 2
  SecondObjs <- FewObjects
  CheckTrackClass = TRUE
INVARIANT RoundTrip
INVARIANT NoSilentChange
INVARIANT OneSetPerMember
INVARIANT Emit
PROPERTY Termination
