------------------------------- MODULE Parallel -------------------------------
(***************************************************************************)
(* concurrent.futures.ProcessPoolExecutor.map as used by                   *)
(*   image_analysis.refine_droplets     (tasks = candidate droplets)       *)
(*   EmulsionTimeCourse.from_storage    (tasks = stored frames, zipped     *)
(*                                       with storage.times afterwards)    *)
(*                                                                         *)
(* N tasks are submitted in order, W worker processes take the lowest      *)
(* queued task whenever they are idle, ANY running task may finish next    *)
(* (all interleavings), and the consumer yields result `nxt` only once it  *)
(* is finished.  Results that are None are filtered after yielding         *)
(* (refine_droplets).  Serial execution is the instance W = 1.             *)
(***************************************************************************)
EXTENDS Naturals, Sequences, FiniteSets

CONSTANTS N,        \* number of tasks
          W,        \* number of worker processes
          IsNone,   \* set of tasks whose result is None (dropped by the consumer)
          Strict    \* TRUE: idle workers take the LOWEST queued task (executor queue is FIFO)
                    \* FALSE: any queued task (what a log written by the workers can establish)

VARIABLES status,   \* [1..N -> {"queued", "running", "done"}]
          fin,      \* tasks in the order in which they finished  (the schedule)
          nxt,      \* next task whose result the consumer waits for
          out       \* results handed to the caller, as task numbers
vars == <<status, fin, nxt, out>>

Tasks == 1..N
Running == {i \in Tasks : status[i] = "running"}
Queued == {i \in Tasks : status[i] = "queued"}

Init ==
    /\ status = [i \in Tasks |-> "queued"]
    /\ fin = <<>> /\ nxt = 1 /\ out = <<>>

Take(i) ==
    /\ status[i] = "queued"
    /\ Cardinality(Running) < W
    /\ Strict => \A j \in Queued : i <= j
    /\ status' = [status EXCEPT ![i] = "running"]
    /\ UNCHANGED <<fin, nxt, out>>

Finish(i) ==
    /\ status[i] = "running"
    /\ status' = [status EXCEPT ![i] = "done"]
    /\ fin' = Append(fin, i)
    /\ UNCHANGED <<nxt, out>>

Yield ==
    /\ nxt <= N /\ status[nxt] = "done"
    /\ out' = IF nxt \in IsNone THEN out ELSE Append(out, nxt)
    /\ nxt' = nxt + 1
    /\ UNCHANGED <<status, fin>>

Next == (\E i \in Tasks : Take(i) \/ Finish(i)) \/ Yield
Spec == Init /\ [][Next]_vars /\ WF_vars(Next)

-----------------------------------------------------------------------------
(* what the serial loop returns: the non-None results in submission order *)
RECURSIVE Expect(_)
Expect(k) == IF k = 0 THEN <<>> ELSE IF k \in IsNone THEN Expect(k - 1) ELSE Append(Expect(k - 1), k)

IsPrefixOf(s, t) == Len(s) <= Len(t) /\ \A i \in 1..Len(s) : s[i] = t[i]

TypeOK == /\ status \in [Tasks -> {"queued", "running", "done"}]
          /\ nxt \in 1..(N + 1) /\ Cardinality(Running) <= W
\* the caller never sees results out of order, whatever the schedule
OrderPreserved == out = Expect(nxt - 1)
PrefixAlways == IsPrefixOf(out, Expect(N))
\* and in the end it sees exactly what the serial loop produces: a function of the tasks only
Done == nxt = N + 1
Deterministic == Done => out = Expect(N)
\* each task is executed exactly once
OnceEach == \A i \in Tasks : Cardinality({k \in 1..Len(fin) : fin[k] = i}) = (IF status[i] = "done" THEN 1 ELSE 0)
OutGrows == [][IsPrefixOf(out, out')]_vars
Termination == <>Done
=============================================================================
