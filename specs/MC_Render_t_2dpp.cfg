SPECIFICATION Spec
CONSTANTS
  N <- NC
  P <- PC
  DX <- DXC
  X0 <- X0C
  DimC = 2
  N1 = 5
  N2 = 6
  N3 = 1
  P1 = TRUE
  P2 = TRUE
  P3 = FALSE
  DX1 = 4
  DX2 = 4
  DX3 = 4
  O1 = 16
  O2 = 17
  O3 = 16
  R2S = {1, 36, 41, 64, 400}
  Margin = 16
  PosStep = 2
  NDrops = 1
INVARIANT RollEquivariant
INVARIANT PeriodInvariant
INVARIANT Monotone
INVARIANT OrderFree
INVARIANT NoWrapOpenAxes
INVARIANT Emit
