----------------------------- MODULE MC_Harmonics -----------------------------
EXTENDS Harmonics, TLC, Json
AllClasses == {"P2", "P3", "PA"}
ExpsQ == {0 - 2, 0, 3}
ExpsT == (0 - 3)..3
SetToSeq(S) == LET RECURSIVE O(_) O(T) == IF T = {} THEN <<>> ELSE LET m == CHOOSE x \in T : \A y \in T : x <= y IN <<m>> \o O(T \ {m}) IN O(S)
Emit == LET idx == SetToSeq(DOMAIN active) IN
    PrintT(ToJson([cls |-> cls, rexp |-> rexp,
                   modes |-> [j \in 1..Len(idx) |-> [i |-> idx[j], sign |-> active[idx[j]], mode |-> ModeOf(cls, idx[j]),
                                                     coeff |-> CurvCoeff(cls, idx[j])]]]))
=============================================================================
