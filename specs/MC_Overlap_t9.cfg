SPECIFICATION Spec
CONSTANTS
  SLt <- SLtL
  Close <- CloseL
  Bigger <- BiggerL
  L = 5
  Dim = 1
  Periodic = TRUE
  Radii = {1, 2, 3}
  MaxN = 4
  M <- Neg2
INVARIANT Subsequence
INVARIANT InRange
INVARIANT Separated
INVARIANT Dominated
INVARIANT StrictMaxSurvives
INVARIANT NoNeedlessRemoval
INVARIANT Emit
PROPERTY Shrinks
PROPERTY Termination
