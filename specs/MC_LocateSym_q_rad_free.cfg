SPECIFICATION Spec
CONSTANTS
  N <- NC
  P <- PC
  Z0 <- Z0C
  Family = "radial"
  NrC = 8
  NzC = 1
  PZC = FALSE
  DR = 4
  DZ = 4
  Z0P = 16
  Mode = "free"
  R2S <- R2Sdef_q_rad_free
  ZStep = 1
  CentralRule = "halfopen"
  SpanHandling = "central"
  ZWeight = "count"
  Reading = "cells"
  SpanRule = "whole"
INVARIANT SingleCorrect
INVARIANT PeriodicCorrect
INVARIANT SpanSound
INVARIANT NoAxisNoDroplet
INVARIANT RadialCorrect
INVARIANT RadialHalfCell
INVARIANT CylOne
INVARIANT Emit
PROPERTY MaskIntact
PROPERTY Termination
