---------------------------- MODULE RenderLocate ----------------------------
(***************************************************************************)
(* C01 on Cartesian grids: spherical droplets on a sub-cell lattice are    *)
(* rendered (Render) and located without refinement (LocateCart actions).  *)
(*                                                                         *)
(* Lengths are integers in units of h = 1/4 of the smallest cell: axis a   *)
(* has spacing DX[a] (even), origin X0[a], so the centre of cell i sits at *)
(* X0[a] + DX[a]*i + DX[a]/2.  A droplet is [pos, r2] with integer centre  *)
(* (possibly outside the box on periodic axes) and integer SQUARED radius, *)
(* so radii are mostly irrational, as in practice.  Every predicate the    *)
(* implementation evaluates (cell centre inside sphere: dist < radius) is  *)
(* then decided exactly in integers here and exactly in doubles there.     *)
(***************************************************************************)
EXTENDS LocateCart

CONSTANTS DX, X0,       \* tuples: spacing and origin per axis, in h units
          R2S,          \* set of squared radii to explore
          NDrops,       \* number of droplets (1 or 2)
          Margin,       \* how far outside the box centres may lie on periodic axes (h units)
          PosStep       \* centres are explored on the sub-lattice X0 + PosStep * Z

VARIABLES drops         \* Seq([pos, r2]); never changes

Period(a) == N[a] * DX[a]
Centre(c, a) == X0[a] + DX[a] * c[a] + DX[a] \div 2

\* min-image difference along axis a
MDa(x, y, a) == LET d == Abs(x - y) IN
                IF P[a] THEN LET m == d % Period(a) IN IF Period(a) - m < m THEN Period(a) - m ELSE m
                ELSE d
RECURSIVE Q2(_, _, _)
Q2(c, pos, i) == IF i = 0 THEN 0 ELSE MDa(Centre(c, i), pos[i], i) * MDa(Centre(c, i), pos[i], i) + Q2(c, pos, i - 1)
Inside(d) == {c \in Cells : Q2(c, d.pos, Dim) < d.r2}
Render(ds) == UNION {Inside(ds[i]) : i \in DOMAIN ds}

\* integer square root bounds
ISqrtUp(x) == CHOOSE k \in 0..(x + 1) : k * k >= x /\ (k = 0 \/ (k - 1) * (k - 1) < x)
MaxDX == CHOOSE m \in {DX[a] : a \in Axes} : \A a \in Axes : DX[a] <= m

(* Premises of the property, made explicit *)
Resolvable(d) ==      \* diameter at least 3 cells on every axis and the droplet fits into one period
    \A a \in Axes : /\ 4 * d.r2 >= 9 * DX[a] * DX[a]
                    /\ P[a] => 2 * ISqrtUp(d.r2) + 2 * DX[a] <= Period(a)
InBox(d) ==           \* inside by r + 1 cell on non-periodic axes; within Margin of the box on periodic ones
    \A a \in Axes :
        IF P[a] THEN d.pos[a] >= X0[a] - Margin /\ d.pos[a] <= X0[a] + Period(a) + Margin
        ELSE /\ d.pos[a] - ISqrtUp(d.r2) - DX[a] >= X0[a]
             /\ d.pos[a] + ISqrtUp(d.r2) + DX[a] <= X0[a] + Period(a)
RECURSIVE QPos(_, _, _)
QPos(p, q, i) == IF i = 0 THEN 0 ELSE MDa(p[i], q[i], i) * MDa(p[i], q[i], i) + QPos(p, q, i - 1)
Separated(d, e) ==    \* centre distance >= r_d + r_e + 2 cells (so the located spheres cannot overlap)
    LET s == ISqrtUp(d.r2) + ISqrtUp(e.r2) + 2 * MaxDX IN QPos(d.pos, e.pos, Dim) >= s * s

MaxR == CHOOSE m \in R2S : \A x \in R2S : x <= m
PosRange(a) == IF P[a] THEN (X0[a] - Margin)..(X0[a] + Period(a) + Margin)
               ELSE X0[a]..(X0[a] + Period(a))
PosSet == {p \in [Axes -> (0 - 300)..300] :
              \A a \in Axes : p[a] \in PosRange(a) /\ (p[a] - X0[a]) % PosStep = 0}
DropSet == {d \in [pos : PosSet, r2 : R2S] : Resolvable(d) /\ InBox(d)}

Valid(ds) == \A i, k \in DOMAIN ds : i < k => Separated(ds[i], ds[k])

RInit == \E ds \in [1..NDrops -> DropSet] :
            /\ Valid(ds) /\ drops = ds /\ InitWith(Render(ds))
RLabel == Label /\ UNCHANGED drops
RMergeStep == MergeStep /\ UNCHANGED drops
RSelect == Select /\ UNCHANGED drops
RNext == RLabel \/ RMergeStep \/ RSelect
RSpec == RInit /\ [][RNext]_<<vars, drops>> /\ WF_vars(Next)

-----------------------------------------------------------------------------
(* Properties (C01), evaluated when the pipeline has finished *)
Done == pc = "done"
ClusterOf(i) == CHOOSE k \in Range(Len(clusters)) : clusters[k].cells = Inside(drops[i])

OnePerOriginal == Done =>
    /\ Len(clusters) = Len(drops)
    /\ \A i \in DOMAIN drops : \E k \in Range(Len(clusters)) : clusters[k].cells = Inside(drops[i])

ExactVolume == Done => \A i \in DOMAIN drops :
    (\E k \in Range(Len(clusters)) : clusters[k].cells = Inside(drops[i]))
        => clusters[ClusterOf(i)].v = Cardinality(Inside(drops[i]))

\* | COM_a - pos_a | <= DX_a / 2 under the periodic metric, with COM_a = X0 + DX (S/V + 1/2);
\* multiplied by 2V:  | 2 V X0 + DX (2 S + V) - 2 V pos |  mod (2 V Period)  <= DX V
HalfCell == Done => \A i \in DOMAIN drops :
    (\E k \in Range(Len(clusters)) : clusters[k].cells = Inside(drops[i])) =>
    LET cl == clusters[ClusterOf(i)] IN
    \A a \in Axes :
        LET raw == 2 * cl.v * X0[a] + DX[a] * (2 * cl.s[a] + cl.v) - 2 * cl.v * drops[i].pos[a]
            per == 2 * cl.v * Period(a)
            m == IF P[a] THEN (raw % per) ELSE Abs(raw)
            dist == IF P[a] /\ per - m < m THEN per - m ELSE m
        IN dist <= DX[a] * cl.v

NoWinding == Done => \A k \in Range(Len(clusters)) : ~Winding(Lift(clusters[k].cells))
=============================================================================
