SPECIFICATION Spec
CONSTANTS
  N = 3
  W = 3
  IsNone <- NoneSet2
  Strict = TRUE
INVARIANT TypeOK
INVARIANT OrderPreserved
INVARIANT PrefixAlways
INVARIANT Deterministic
INVARIANT OnceEach
INVARIANT Emit
PROPERTY OutGrows
PROPERTY Termination
