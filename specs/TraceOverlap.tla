---------------------------- MODULE TraceOverlap ----------------------------
(* Validation of recorded executions of Emulsion.remove_overlapping on arbitrary float
   emulsions against Overlap.tla.  A trace holds the order/predicate projection computed
   by the harness in exact rational arithmetic:
     rk[i][j]  dense rank of the surface distance between droplets i and j
     cl[i][j]  surface distance < min_distance
     rr[i]     dense rank of the radius
     out       indices of the droplets the implementation kept, in list order
   Modes as in TraceTracking: "run" (conformance with the actions) and "judge" (the
   property predicates evaluated on the implementation's own final state). *)
EXTENDS Overlap, TLC, Json, IOUtils

Traces == JsonDeserialize(IOEnv.TRACE_FILE)

SLtT(a, b, c, d) == a.rk[b.id] < c.rk[d.id]
CloseT(a, b) == a.cl[b.id]
BiggerT(a, b) == a.rr > b.rr

VARIABLES tid, mode

EmOf(t) == [i \in 1..Traces[t].n |->
              [id |-> i, rk |-> Traces[t].rk[i], cl |-> Traces[t].cl[i], rr |-> Traces[t].rr[i]]]

Init == \E t \in 1..Len(Traces) : \E m \in {"run", "judge"} :
          /\ tid = t /\ mode = m
          /\ IF m = "run" THEN InitWith(EmOf(t))
             ELSE input = EmOf(t) /\ cur = Traces[t].out /\ pc = "done"

U == UNCHANGED <<tid, mode>>
TNext == (Step /\ U) \/ (Stop /\ U)
Spec == Init /\ [][TNext]_<<vars, tid, mode>>

Verdict == pc = "done" =>
    PrintT(ToJson([tid |-> tid, mode |-> mode,
                   conform |-> (cur = Traces[tid].out),
                   inrange |-> InRange,
                   subsequence |-> (InRange /\ Subsequence),
                   separated |-> (InRange /\ Separated),
                   dominated |-> (InRange /\ Dominated),
                   strictmax |-> (InRange /\ StrictMaxSurvives),
                   noneedless |-> (InRange /\ NoNeedlessRemoval)]))
=============================================================================
