SPECIFICATION Spec
CONSTANTS
  FieldIds <- Fields4
  TimeSeqs <- TimesA
  SettingsSet <- FewSettings
  Sources <- NoSource
  Methods <- OneMethod
  MaxLen = 3
  ReaderOrder = "time"
INVARIANT OnlineEqualsOffline
INVARIANT FilePersists
INVARIANT FramePerInterrupt
INVARIANT TimesIdentical
INVARIANT LengthScalePerFrame
INVARIANT LengthScaleFile
INVARIANT Emit
PROPERTY AppendOnly
PROPERTY Termination
