SPECIFICATION Spec
CONSTANTS
  Families <- AllFam
  Periodicities <- AllPer
  Ratios <- AllRatios
  Rules <- AllRules
  Maps <- AllMaps
  LevelOpts <- AllLevels
  CentreClasses <- AllCentres
  RadiusClasses <- AllRadii
  WidthClasses <- AllWidths
  Counts = {1, 2}
INVARIANT NonVacuous
INVARIANT Emit
