-------------------------------- MODULE MC_IO --------------------------------
EXTENDS IO, TLC, Json, Integers
T(c, l) == [cls |-> c, lay |-> l]
\* layouts: d<dim>[w][<modes>]
TypesEm == {T("SphericalDroplet", "d1"), T("SphericalDroplet", "d2"), T("DiffuseDroplet", "d2w"),
            T("PerturbedDroplet2D", "d2w2"), T("PerturbedDroplet2D", "d2w1"),
            T("PerturbedDroplet3D", "d3w3"), T("PerturbedDroplet3DAxisSym", "d3w3")}
Types3D == {T("SphericalDroplet", "d3"), T("DiffuseDroplet", "d3w"), T("PerturbedDroplet3D", "d3w3"),
            T("PerturbedDroplet3DAxisSym", "d3w3"), T("PerturbedDroplet3DAxisSym", "d3w1")}
TypesSmall == {T("SphericalDroplet", "d1"), T("DiffuseDroplet", "d1w"), T("PerturbedDroplet3DAxisSym", "d3w2")}
TypesTL == {T("DiffuseDroplet", "d3w"), T("PerturbedDroplet3D", "d3w3"), T("PerturbedDroplet3DAxisSym", "d3w3")}
TypesTrack == {T("DiffuseDroplet", "d3w"), T("PerturbedDroplet3D", "d3w3"), T("PerturbedDroplet3DAxisSym", "d3w3"),
               T("PerturbedDroplet3DAxisSym", "d3w1")}
\* time patterns (index -> time), tenths; the harness maps them to ints / floats / negative / non-uniform values
TP1 == <<0, 1, 2, 3>>
TP2 == <<0 - 25, 0, 7, 40>>
\* not ascending: a time course / track keeps the order in which it was built, whatever the time stamps say
TP3 == <<3, 1, 2, 0>>
\* the same stamp twice in a row (a simulation continued with the same tracker records its start time again)
TP4 == <<5, 5, 7, 7>>
Patterns == {TP1, TP2, TP3, TP4}
Patterns1 == {TP2}
TwoPaths == {"a", "b"}
OnePath == {"a"}
\* a few objects for second writes: shorter, empty and different contents than typical first writes
FewObjects == {o \in Objects :
                 IF Kind \in {"Emulsion", "Track"} THEN Len(o.drops) <= 1
                 ELSE Len(o.mem) <= 1 \/ (\A k \in 1..Len(o.mem) : Len(o.mem[k]) = 0)}
Emit == (pc = "idle" /\ (Len(hist) = MaxWrites \/ (Len(hist) > 0 /\ hist[Len(hist)].raised)))
            => PrintT(ToJson([hist |-> hist, files |-> files, last |-> last]))
=============================================================================
