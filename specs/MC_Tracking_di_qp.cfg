SPECIFICATION Spec
CONSTANTS
  Inf <- InfC
  Ov <- OvL
  DKey <- DKeyL
  L = 5
  Dim = 1
  Periodic = TRUE
  OpenAxes = {}
  Radii = {1}
  MaxPer = 2
  NFrames = 2
  MethodC = "distance"
  MaxD2 <- Unlimited
INVARIANT Partition
INVARIANT NoForeign
INVARIANT GapFree
INVARIANT OverlapLinks
INVARIANT DistanceLinks
INVARIANT Emit
PROPERTY FramesIntact
PROPERTY TracksGrow
PROPERTY Termination
