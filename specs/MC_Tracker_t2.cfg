SPECIFICATION Spec
CONSTANTS
  FieldIds <- Fields4
  TimeSeqs <- TimesA
  SettingsSet <- FewSettings
  Sources <- AllSources
  Methods <- AllMethods
  MaxLen = 3
  ReaderOrder = "key"
INVARIANT OnlineEqualsOffline
INVARIANT FilePersists
INVARIANT FramePerInterrupt
INVARIANT TimesIdentical
INVARIANT LengthScalePerFrame
INVARIANT LengthScaleFile
INVARIANT Emit
PROPERTY AppendOnly
PROPERTY Termination
