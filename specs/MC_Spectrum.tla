------------------------------ MODULE MC_Spectrum ------------------------------
EXTENDS Spectrum, TLC, Json
Neg1 == 0 - 1
Sh4 == <<4>>
Sh22 == <<2, 2>>
Sh42 == <<4, 2>>
Sh24 == <<2, 4>>
Sh222 == <<2, 2, 2>>
Sh44 == <<4, 4>>
Sh241 == <<2, 4, 1>>
Sh224 == <<2, 2, 4>>
Vals4 == {Neg1, 0, 1, 2}
Vals2 == {0, 1}
Vals3 == {Neg1, 0, 2}
ValsB == {Neg1, 2}
ScalesC == {Neg1, 3}
Key(c) == LET RECURSIVE K(_) K(i) == IF i = 0 THEN 0 ELSE K(i - 1) * Shape[i] + c[i] IN K(Dim)
RECURSIVE Order(_)
Order(S) == IF S = {} THEN <<>> ELSE LET c == CHOOSE x \in S : \A y \in S : Key(x) <= Key(y) IN <<c>> \o Order(S \ {c})
CellSeq == Order(Cells)
Emit == (pc = 1 /\ NonZero) =>
    LET P == Power(f) IN
    PrintT(ToJson([f |-> [i \in 1..Len(CellSeq) |-> f[CellSeq[i]]],
                   p |-> [i \in 1..Len(CellSeq) |-> P[CellSeq[i]]],
                   n |-> [i \in 1..Len(CellSeq) |-> [a \in Axes |-> Signed(CellSeq[i], a)]],
                   norm2 |-> Norm2(f)]))
=============================================================================
