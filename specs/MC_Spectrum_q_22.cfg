SPECIFICATION Spec
CONSTANTS
  Shape <- Sh22
  Alphabet <- Vals4
  Scales <- ScalesC
INVARIANT NonNegative
INVARIANT Parseval
INVARIANT ZeroMode
INVARIANT ScaleInvariant
INVARIANT RollInvariant
INVARIANT ReflectInvariant
INVARIANT Hermitian
INVARIANT Emit
