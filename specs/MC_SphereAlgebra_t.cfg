SPECIFICATION Spec
CONSTANTS
  Decades <- DecadesT
  Variants <- AllVariants
INVARIANT RoundTripVolume
INVARIANT RoundTripSurface
INVARIANT SurfaceIsDerivative
INVARIANT Degrees
INVARIANT VolumeIsPower
INVARIANT Emit
