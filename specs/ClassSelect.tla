------------------------------ MODULE ClassSelect ------------------------------
(***************************************************************************)
(* Which droplet class, how many amplitudes and which width every result   *)
(* of locate_droplets carries, as a function of the request.               *)
(*                                                                         *)
(* The implementation's decision chain is modelled operationally, one      *)
(* action per block of locate_droplets / refine_droplet:                   *)
(*   CheckArgs  modes > 0 and dim not in {2, 3}  -> ValueError             *)
(*   Candidate  the mask stage yields SphericalDroplets of the grid's dim  *)
(*   Width      interface_width given  -> class := Diffuse, carry width    *)
(*   Modes      modes > 0 -> Perturbed2D | Perturbed3D | Perturbed3DAxisSym*)
(*              by dimension and grid family, `modes` zero amplitudes      *)
(*   Convert    from_droplet only if the class changed                     *)
(*   Refine     non-diffuse classes are promoted to Diffuse, an unset      *)
(*              width becomes the grid's typical discretisation, the fit   *)
(*              then changes values but neither class nor layout           *)
(* The property's sentence is written independently (Expected...), and TLC  *)
(* checks that the two agree on EVERY request.                             *)
(***************************************************************************)
EXTENDS Naturals, FiniteSets

CONSTANTS Families,      \* subset of {"cart1", "cart2", "cart3", "polar", "spherical", "cylindrical"}
          ModeCounts,    \* set of requested mode counts
          WidthOpts,     \* set of "none" | "given" | "zero" (a supplied width of exactly 0: a sharp but diffuse-class droplet)
          ThresholdRules \* only enumerated (the class must not depend on it)

VARIABLES req,   \* [fam, modes, width, refine, thr, periodic]
          pc, cls, namps, width, conv, err
vars == <<req, pc, cls, namps, width, conv, err>>

Dim(f) == IF f = "cart1" THEN 1 ELSE IF f \in {"cart2", "polar"} THEN 2 ELSE 3
IsDiffuseLike(c) == c # "SphericalDroplet"

Init ==
    /\ req \in [fam : Families, modes : ModeCounts, width : WidthOpts, refine : BOOLEAN,
                thr : ThresholdRules, periodic : BOOLEAN]
    /\ pc = "check" /\ cls = "none" /\ namps = 0 /\ width = "none" /\ conv = FALSE /\ err = "none"

CheckArgs ==
    /\ pc = "check"
    /\ IF req.modes > 0 /\ Dim(req.fam) \notin {2, 3}
       THEN pc' = "raised" /\ err' = "ValueError"
       ELSE pc' = "candidate" /\ err' = err
    /\ UNCHANGED <<req, cls, namps, width, conv>>

Candidate ==
    /\ pc = "candidate"
    /\ cls' = "SphericalDroplet" /\ pc' = "width"
    /\ UNCHANGED <<req, namps, width, conv, err>>

Width ==
    /\ pc = "width"
    /\ IF req.width # "none" THEN cls' = "DiffuseDroplet" /\ width' = req.width /\ conv' = TRUE      \* also a width of exactly 0
       ELSE UNCHANGED <<cls, width, conv>>
    /\ pc' = "modes"
    /\ UNCHANGED <<req, namps, err>>

Modes ==
    /\ pc = "modes"
    /\ IF req.modes > 0
       THEN /\ cls' = IF Dim(req.fam) = 2 THEN "PerturbedDroplet2D"
                      ELSE IF req.fam = "cylindrical" THEN "PerturbedDroplet3DAxisSym" ELSE "PerturbedDroplet3D"
            /\ namps' = req.modes /\ conv' = TRUE
       ELSE UNCHANGED <<cls, namps, conv>>
    /\ pc' = IF req.refine THEN "refine" ELSE "done"
    /\ UNCHANGED <<req, width, err>>

Refine ==
    /\ pc = "refine"
    /\ cls' = IF IsDiffuseLike(cls) THEN cls ELSE "DiffuseDroplet"
    /\ width' = "fitted"          \* starts from the given width or the typical discretisation
    /\ pc' = "done"
    /\ UNCHANGED <<req, namps, conv, err>>

Next == CheckArgs \/ Candidate \/ Width \/ Modes \/ Refine
Spec == Init /\ [][Next]_vars /\ WF_vars(Next)

-----------------------------------------------------------------------------
(* C19, stated from the request alone *)
ExpectedClass ==
    IF req.modes > 0 THEN
        IF Dim(req.fam) = 2 THEN "PerturbedDroplet2D"
        ELSE IF req.fam = "cylindrical" THEN "PerturbedDroplet3DAxisSym" ELSE "PerturbedDroplet3D"
    ELSE IF req.width # "none" \/ req.refine THEN "DiffuseDroplet"
    ELSE "SphericalDroplet"
ExpectedRaise == req.modes > 0 /\ Dim(req.fam) \notin {2, 3}

ClassAsRequested == pc = "done" => cls = ExpectedClass
ModesAsRequested == pc = "done" => namps = req.modes
WidthCarried == (pc = "done" /\ ~req.refine /\ req.width # "none") => width = req.width
WidthUnsetOtherwise == (pc = "done" /\ ~req.refine /\ req.width = "none") => width = "none"
RaisesOnlyDocumented == (pc = "raised") <=> (ExpectedRaise /\ pc \notin {"check"})
                        \/ (pc \in {"check"})
NoRaiseOtherwise == pc = "raised" => ExpectedRaise
MustRaise == (ExpectedRaise /\ pc \notin {"check"}) => pc = "raised"
Termination == <>(pc \in {"done", "raised"})
=============================================================================
