SPECIFICATION Spec
CONSTANTS
  Mode = "waves"
  StretchExps <- ExpsW
  ScaleFactors <- Factors
  MaxWord = 0
  Shapes <- ShapesQ
  MaxMode = 3
  SpacingExps <- SpQ
INVARIANT DegreeOne
INVARIANT WaveOK
INVARIANT Emit
