SPECIFICATION Spec
CONSTANTS
  Kind = "TimeCourse"
  DTypes <- TypesSmall
  MaxDrops = 2
  MaxMembers = 3
  TimePatterns <- Patterns
  Paths <- TwoPaths
  MaxWrites = 2
  SecondObjs <- FewObjects
  CheckTrackClass = TRUE
INVARIANT RoundTrip
INVARIANT NoSilentChange
INVARIANT OneSetPerMember
INVARIANT Emit
PROPERTY Termination
