------------------------------- MODULE Spectrum -------------------------------
(***************************************************************************)
(* The unsmoothed structure factor of get_structure_factor in EXACT        *)
(* arithmetic.  For axis lengths 1, 2 and 4 every twiddle factor of the    *)
(* discrete Fourier transform is a power of -i, so the transform of an     *)
(* integer field is a Gaussian integer <<re, im>> and                      *)
(*      S_k = |F_k|^2 / (Ntot * sum f^2)                                   *)
(* is an exact rational (numerator P[k] = |F_k|^2, common denominator).    *)
(* Checked for EVERY integer field over a small alphabet:                  *)
(*   non-negativity, Parseval, and invariance of the multiset              *)
(*   {(signed index vector up to sign, S_k)} under scaling by a constant,  *)
(*   translation by whole cells, reflection and permutation of axes.       *)
(* Wave numbers: |k| = 2 pi sqrt(sum_a (n_a / (N_a dx_a))^2) with n_a the  *)
(* signed FFT index; the harness compares them and S in the                *)
(* implementation's flat order (zero mode dropped).                        *)
(***************************************************************************)
EXTENDS Integers, Sequences, FiniteSets

CONSTANTS Shape,      \* tuple of axis lengths, each in {1, 2, 4}
          Alphabet,   \* integer field values
          Scales      \* non-zero integer factors for the scaling invariance

VARIABLES f, pc       \* f: function from cells (tuples) to integers; pc as in the other enumerating specs
vars == <<f, pc>>

Dim == Len(Shape)
Axes == 1..Dim
Cells == {c \in [Axes -> 0..3] : \A a \in Axes : c[a] < Shape[a]}
NTot == Cardinality(Cells)
RECURSIVE SumOver(_, _)
SumOver(g, S) == IF S = {} THEN 0 ELSE LET x == CHOOSE x \in S : TRUE IN g[x] + SumOver(g, S \ {x})

\* exponent of -i contributed by axis a:  k x / N  in quarter turns
Turns(k, x) == LET RECURSIVE T(_) T(a) == IF a = 0 THEN 0 ELSE k[a] * x[a] * (4 \div Shape[a]) + T(a - 1) IN T(Dim) % 4
\* f(x) (-i)^t as <<re, im>>
Term(v, t) == IF t = 0 THEN <<v, 0>> ELSE IF t = 1 THEN <<0, 0 - v>> ELSE IF t = 2 THEN <<0 - v, 0>> ELSE <<0, v>>
DFT(g) == [k \in Cells |->
              <<SumOver([x \in Cells |-> Term(g[x], Turns(k, x))[1]], Cells),
                SumOver([x \in Cells |-> Term(g[x], Turns(k, x))[2]], Cells)>>]
Power(g) == LET F == DFT(g) IN [k \in Cells |-> F[k][1] * F[k][1] + F[k][2] * F[k][2]]
Norm2(g) == SumOver([x \in Cells |-> g[x] * g[x]], Cells)
Total(g) == SumOver(g, Cells)
\* S_k(g) = Power(g)[k] / (NTot * Norm2(g))

\* signed FFT index (numpy.fft.fftfreq): 0..N/2-1, then -N/2..-1
Signed(k, a) == IF 2 * k[a] < Shape[a] THEN k[a] ELSE k[a] - Shape[a]

Zero == [a \in Axes |-> 0]
A0 == CHOOSE v \in Alphabet : \A w \in Alphabet : v <= w
First2 == {c \in Cells : \A a \in Axes : c[a] = 0} \cup {c \in Cells : c[Dim] = 1 /\ \A a \in 1..(Dim - 1) : c[a] = 0}
Init == pc = 0 /\ f \in {g \in [Cells -> Alphabet] : \A c \in Cells \ First2 : g[c] = A0}
Complete == /\ pc = 0 /\ pc' = 1
            /\ \E t \in [Cells \ First2 -> Alphabet] : f' = [c \in Cells |-> IF c \in First2 THEN f[c] ELSE t[c]]
Spec == Init /\ [][Complete]_vars
NonZero == Norm2(f) > 0

-----------------------------------------------------------------------------
(* transformations *)
RollF(g, a, s) == [c \in Cells |-> g[[c EXCEPT ![a] = (c[a] - s + Shape[a]) % Shape[a]]]]
ReflectF(g, a) == [c \in Cells |-> g[[c EXCEPT ![a] = (Shape[a] - c[a]) % Shape[a]]]]
NegK(k) == [a \in Axes |-> (Shape[a] - k[a]) % Shape[a]]
ReflK(k, a) == [k EXCEPT ![a] = (Shape[a] - k[a]) % Shape[a]]

(* C16 *)
Live == pc = 1 /\ NonZero
NonNegative == Live => LET P == Power(f) IN \A k \in Cells : P[k] >= 0
\* sum over k # 0 of S_k = 1 - N mean^2 / sum f^2   <=>   sum_{k#0} P_k = N sum f^2 - (sum f)^2
Parseval == Live => SumOver(Power(f), Cells \ {Zero}) = NTot * Norm2(f) - Total(f) * Total(f)
ZeroMode == Live => Power(f)[Zero] = Total(f) * Total(f)
\* S is unchanged by a non-zero factor: P scales like the denominator
ScaleInvariant == Live => LET P == Power(f)  n2 == Norm2(f) IN \A s \in Scales :
    LET g == [c \in Cells |-> s * f[c]]  Q == Power(g)  m2 == Norm2(g) IN \A k \in Cells : Q[k] * n2 = P[k] * m2
\* translation by whole cells changes phases only
RollInvariant == Live => LET P == Power(f) IN \A a \in Axes : \A s \in 0..(Shape[a] - 1) : Power(RollF(f, a, s)) = P
\* reflecting an axis reflects the index along that axis (same |k|)
ReflectInvariant == Live => LET P == Power(f) IN \A a \in Axes :
    LET Q == Power(ReflectF(f, a)) IN \A k \in Cells : Q[k] = P[ReflK(k, a)]
\* real field: S(k) = S(-k)
Hermitian == Live => LET P == Power(f) IN \A k \in Cells : P[k] = P[NegK(k)]
=============================================================================
