SPECIFICATION Spec
CONSTANTS
  N = 6
  Alphabet <- A5
  NBins = 256
  NumThr2 <- ThrA5
  AffA = {1, 2, 4}
  AffB <- AffBs
  RMin2 = {0, 1, 2, 3}
INVARIANT AffineInvariant
INVARIANT StrictThreshold
INVARIANT OtsuSplits
INVARIANT FilterStrict
INVARIANT PeriodicRuns
INVARIANT Emit
