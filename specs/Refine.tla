--------------------------------- MODULE Refine ---------------------------------
(***************************************************************************)
(* The protocol of refine_droplet AROUND the optimiser (C04).  The solver  *)
(* is a black box; what is specified is everything the function does       *)
(* before and after it, one action per block of the implementation:        *)
(*   Promote       a candidate without diffuse interface becomes a         *)
(*                 DiffuseDroplet; every other class is kept               *)
(*   DefaultWidth  an unset width becomes the grid's typical discretisation*)
(*   Region        the fit region is the candidate's binary image dilated  *)
(*                 1 + floor(2 w) times                                    *)
(*   FreeMask      parameters at the grid's coordinate constraints are     *)
(*                 frozen: {} Cartesian, {1,2} polar and cylindrical,      *)
(*                 {1,2,3} spherical (1-based positions of the position    *)
(*                 vector)                                                 *)
(*   Bounds        radius >= 0, width >= 0, amplitudes in [-1, 1]; with    *)
(*                 adjust_values two more parameters (vmin, vrng)          *)
(*   Solve         ANY step with x' inside the bounds and Cost' <= Cost    *)
(*   WriteBack, Wrap (position normalised on periodic axes), Return        *)
(* Parameter vector (1-based): position 1..d, radius d+1, width d+2,       *)
(* amplitudes d+3 .. d+2+modes.                                            *)
(***************************************************************************)
EXTENDS Integers, Sequences, FiniteSets

CONSTANTS Families,   \* records [name, dim, constraints (set of positions), periodic (set of Cartesian axes)]
          CandClasses, \* candidate classes: "SphericalDroplet", "DiffuseDroplet", "PerturbedDroplet2D", ...
          ModeCounts,
          WidthOpts,   \* "none" | "given" | "zero" (a sharp candidate: width exactly 0 is a width, not "unset")
          LevelOpts    \* "fixed" | "auto" | "adjust" | "autoadjust"

VARIABLES req, pc, cls, width, free, lower, upper, nextra, cost, wrapped
vars == <<req, pc, cls, width, free, lower, upper, nextra, cost, wrapped>>

Perturbed(c) == c \in {"PerturbedDroplet2D", "PerturbedDroplet3D", "PerturbedDroplet3DAxisSym"}
ClassDim(c) == IF c = "PerturbedDroplet2D" THEN {2} ELSE IF Perturbed(c) THEN {3} ELSE {1, 2, 3}
Compatible(f, c, m) ==
    /\ f.dim \in ClassDim(c)
    /\ (Perturbed(c) <=> m > 0) \/ (Perturbed(c) /\ m > 0)
    /\ ~Perturbed(c) => m = 0
    /\ (c = "PerturbedDroplet3DAxisSym") => f.name \in {"cylindrical", "cylindrical-periodic"}
Requests == {[fam |-> f, cand |-> c, modes |-> m, width |-> w, levels |-> l] :
                f \in Families, c \in CandClasses, m \in ModeCounts, w \in WidthOpts, l \in LevelOpts}
Valid(r) == Compatible(r.fam, r.cand, r.modes) /\ (r.cand = "SphericalDroplet" => r.width = "none")

NParams(r) == r.fam.dim + 2 + r.modes
Init == /\ req \in {r \in Requests : Valid(r)}
        /\ pc = "promote" /\ cls = req.cand /\ width = req.width /\ free = {} /\ lower = <<>> /\ upper = <<>>
        /\ nextra = 0 /\ cost = "initial" /\ wrapped = {}

Promote == /\ pc = "promote"
           /\ cls' = IF cls = "SphericalDroplet" THEN "DiffuseDroplet" ELSE cls
           /\ pc' = "width" /\ UNCHANGED <<req, width, free, lower, upper, nextra, cost, wrapped>>
DefaultWidth == /\ pc = "width"
                /\ width' = IF width = "none" THEN "typical" ELSE width
                /\ pc' = "region" /\ UNCHANGED <<req, cls, free, lower, upper, nextra, cost, wrapped>>
Region == /\ pc = "region" /\ pc' = "free" /\ UNCHANGED <<req, cls, width, free, lower, upper, nextra, cost, wrapped>>
FreeMask == /\ pc = "free"
            /\ free' = (1..NParams(req)) \ req.fam.constraints
            /\ pc' = "bounds" /\ UNCHANGED <<req, cls, width, lower, upper, nextra, cost, wrapped>>
\* bounds per parameter: "ninf" / "zero" / "m1"  and  "inf" / "one"
Lo(i) == IF i = req.fam.dim + 1 \/ i = req.fam.dim + 2 THEN "zero" ELSE IF i > req.fam.dim + 2 THEN "m1" ELSE "ninf"
Hi(i) == IF i > req.fam.dim + 2 THEN "one" ELSE "inf"
RECURSIVE Ordered(_)
Ordered(S) == IF S = {} THEN <<>> ELSE LET m == CHOOSE x \in S : \A y \in S : x <= y IN <<m>> \o Ordered(S \ {m})
Bounds == /\ pc = "bounds"
          /\ LET idx == Ordered(free) IN
             /\ lower' = [k \in 1..Len(idx) |-> Lo(idx[k])]
             /\ upper' = [k \in 1..Len(idx) |-> Hi(idx[k])]
          /\ nextra' = IF req.levels \in {"adjust", "autoadjust"} THEN 2 ELSE 0
          /\ pc' = "solve" /\ UNCHANGED <<req, cls, width, free, cost, wrapped>>
\* the black box: whatever it does, the result is inside the bounds and not worse than the start
Solve == /\ pc = "solve" /\ cost' = "not-larger" /\ pc' = "wrap"
         /\ UNCHANGED <<req, cls, width, free, lower, upper, nextra, wrapped>>
Wrap == /\ pc = "wrap"
        /\ wrapped' = req.fam.periodic         \* only coordinates along periodic axes may change
        /\ pc' = "done" /\ UNCHANGED <<req, cls, width, free, lower, upper, nextra, cost>>
Next == Promote \/ DefaultWidth \/ Region \/ FreeMask \/ Bounds \/ Solve \/ Wrap
Spec == Init /\ [][Next]_vars /\ WF_vars(Next)

-----------------------------------------------------------------------------
(* C04 *)
Done == pc = "done"
ClassKept == Done => (cls = (IF req.cand = "SphericalDroplet" THEN "DiffuseDroplet" ELSE req.cand))
ConstraintsFrozen == Done => free \cap req.fam.constraints = {} /\ free \cup req.fam.constraints = 1..NParams(req)
BoundsLayout == Done => /\ Len(lower) = Cardinality(free) /\ Len(upper) = Cardinality(free)
                        /\ \A k \in 1..Len(lower) : LET i == Ordered(free)[k] IN lower[k] = Lo(i) /\ upper[k] = Hi(i)
RadiusWidthBounded == Done => /\ (req.fam.dim + 1) \in free /\ (req.fam.dim + 2) \in free
NeverWorse == Done => cost = "not-larger"
\* wrapping never touches a frozen coordinate
WrapRespectsSymmetry == Done => \A a \in wrapped : a \notin req.fam.constraints \/ req.fam.name \in {"cylindrical-periodic"}
Termination == <>Done
=============================================================================
