--------------------------------- MODULE Refine ---------------------------------
(***************************************************************************)
(* The protocol of refine_droplet AROUND the optimiser (C04).  The solver  *)
(* is a black box; what is specified is everything the function does       *)
(* before and after it, one action per block of the implementation:        *)
(*   Promote       a candidate without diffuse interface becomes a         *)
(*                 DiffuseDroplet; every other class is kept               *)
(*   DefaultWidth  an unset width becomes the grid's typical discretisation*)
(*   Region        the fit region is the candidate's binary image dilated  *)
(*                 1 + floor(2 w) times                                    *)
(*   FreeMask      parameters at the grid's coordinate constraints are     *)
(*                 frozen: {} Cartesian, {1,2} polar and cylindrical,      *)
(*                 {1,2,3} spherical (1-based positions of the position    *)
(*                 vector)                                                 *)
(*   Region        ... ; a region without any support point ends the call *)
(*                 at once (NoSupport): the candidate is only wrapped      *)
(*   Bounds        radius >= 0, width >= 0, amplitudes in [-1, 1]          *)
(*   Levels        unset levels become the extreme values of the region;   *)
(*                 with adjust_values AND a non-zero intensity range two   *)
(*                 more parameters (vmin in [vmin-vrng, vmax], vrng in     *)
(*                 [0, 3 vrng]) are appended; a homogeneous region (range  *)
(*                 zero) keeps the intensities fixed                       *)
(*   Solve         ANY step with x' inside the bounds and Cost' <= Cost    *)
(*   WriteBack, Wrap (position normalised on periodic axes), Return        *)
(* Parameter vector (1-based): position 1..d, radius d+1, width d+2,       *)
(* amplitudes d+3 .. d+2+modes.                                            *)
(***************************************************************************)
EXTENDS Integers, Sequences, FiniteSets

CONSTANTS Families,   \* records [name, dim, constraints (set of positions), periodic (set of Cartesian axes)]
          CandClasses, \* candidate classes: "SphericalDroplet", "DiffuseDroplet", "PerturbedDroplet2D", ...
          ModeCounts,
          WidthOpts,   \* "none" | "given" | "zero" (a sharp candidate: width exactly 0 is a width, not "unset")
          LevelOpts    \* "fixed" | "auto" | "adjust" | "autoadjust"

CONSTANTS W2s        \* values of floor(2 w) of the width the fit is started with (sets the size of the region)

\* env: facts about the image/candidate pair the protocol branches on.  support: the dilated binary image of the
\* candidate contains a support point; flat: the intensity range vmax - vmin used for the fit is zero; w2 = floor(2 w / h), the width counted in cells of size h (the typical discretisation)
VARIABLES req, env, pc, cls, width, iters, free, lower, upper, nextra, xlo, xhi, cost, wrapped
vars == <<req, env, pc, cls, width, iters, free, lower, upper, nextra, xlo, xhi, cost, wrapped>>

Perturbed(c) == c \in {"PerturbedDroplet2D", "PerturbedDroplet3D", "PerturbedDroplet3DAxisSym"}
ClassDim(c) == IF c = "PerturbedDroplet2D" THEN {2} ELSE IF Perturbed(c) THEN {3} ELSE {1, 2, 3}
Compatible(f, c, m) ==
    /\ f.dim \in ClassDim(c)
    /\ (Perturbed(c) <=> m > 0) \/ (Perturbed(c) /\ m > 0)
    /\ ~Perturbed(c) => m = 0
    /\ (c = "PerturbedDroplet3DAxisSym") => f.name \in {"cylindrical", "cylindrical-periodic"}
Requests == {[fam |-> f, cand |-> c, modes |-> m, width |-> w, levels |-> l] :
                f \in Families, c \in CandClasses, m \in ModeCounts, w \in WidthOpts, l \in LevelOpts}
Valid(r) == Compatible(r.fam, r.cand, r.modes) /\ (r.cand = "SphericalDroplet" => r.width = "none")

NParams(r) == r.fam.dim + 2 + r.modes
Adjust(r) == r.levels \in {"adjust", "autoadjust"}
\* admissible environments: a sharp candidate (width zero) starts with w2 = 0; a homogeneous region with supplied
\* levels would need vmin = vmax to be supplied, which is modelled as well (the fit is then a no-op)
Envs(r) == {e \in [support : BOOLEAN, flat : BOOLEAN, w2 : W2s] :
              /\ (r.width = "zero" => e.w2 = 0)
              /\ (r.width = "none" => e.w2 = 2)      \* default width = one cell, on every grid
              /\ (~e.support => ~e.flat)}          \* without a region there are no levels to speak of
Init == /\ req \in {r \in Requests : Valid(r)}
        /\ env \in Envs(req)
        /\ pc = "promote" /\ cls = req.cand /\ width = req.width /\ iters = 0 /\ free = {} /\ lower = <<>> /\ upper = <<>>
        /\ nextra = 0 /\ xlo = <<>> /\ xhi = <<>> /\ cost = "initial" /\ wrapped = {}

Promote == /\ pc = "promote"
           /\ cls' = IF cls = "SphericalDroplet" THEN "DiffuseDroplet" ELSE cls
           /\ pc' = "width" /\ UNCHANGED <<req, env, width, iters, free, lower, upper, nextra, xlo, xhi, cost, wrapped>>
DefaultWidth == /\ pc = "width"
                /\ width' = IF width = "none" THEN "typical" ELSE width
                /\ pc' = "region" /\ UNCHANGED <<req, env, cls, iters, free, lower, upper, nextra, xlo, xhi, cost, wrapped>>
\* the fit region: binary image of the candidate dilated 1 + floor(2 w) times
Region == /\ pc = "region" /\ env.support
          /\ iters' = 1 + env.w2
          /\ pc' = "free" /\ UNCHANGED <<req, env, cls, width, free, lower, upper, nextra, xlo, xhi, cost, wrapped>>
\* no support point in the region: nothing is fitted, the (promoted) candidate goes straight to Wrap
NoSupport == /\ pc = "region" /\ ~env.support
             /\ iters' = 1 + env.w2
             /\ cost' = "not-larger"           \* unchanged, hence not larger
             /\ pc' = "wrap" /\ UNCHANGED <<req, env, cls, width, free, lower, upper, nextra, xlo, xhi, wrapped>>
FreeMask == /\ pc = "free"
            /\ free' = (1..NParams(req)) \ req.fam.constraints
            /\ pc' = "bounds" /\ UNCHANGED <<req, env, cls, width, iters, lower, upper, nextra, xlo, xhi, cost, wrapped>>
\* bounds per parameter: "ninf" / "zero" / "m1"  and  "inf" / "one"
Lo(i) == IF i = req.fam.dim + 1 \/ i = req.fam.dim + 2 THEN "zero" ELSE IF i > req.fam.dim + 2 THEN "m1" ELSE "ninf"
Hi(i) == IF i > req.fam.dim + 2 THEN "one" ELSE "inf"
RECURSIVE Ordered(_)
Ordered(S) == IF S = {} THEN <<>> ELSE LET m == CHOOSE x \in S : \A y \in S : x <= y IN <<m>> \o Ordered(S \ {m})
Bounds == /\ pc = "bounds"
          /\ LET idx == Ordered(free) IN
             /\ lower' = [k \in 1..Len(idx) |-> Lo(idx[k])]
             /\ upper' = [k \in 1..Len(idx) |-> Hi(idx[k])]
          /\ pc' = "levels" /\ UNCHANGED <<req, env, cls, width, iters, free, nextra, xlo, xhi, cost, wrapped>>
\* intensity levels: fitted only when requested AND the range is not zero
Levels == /\ pc = "levels"
          /\ IF Adjust(req) /\ ~env.flat
             THEN nextra' = 2 /\ xlo' = <<"vmin-vrng", "zero">> /\ xhi' = <<"vmax", "3vrng">>
             ELSE nextra' = 0 /\ xlo' = <<>> /\ xhi' = <<>>
          /\ pc' = "solve" /\ UNCHANGED <<req, env, cls, width, iters, free, lower, upper, cost, wrapped>>
\* the black box: whatever it does, the result is inside the bounds and not worse than the start
Solve == /\ pc = "solve" /\ cost' = "not-larger" /\ pc' = "wrap"
         /\ UNCHANGED <<req, env, cls, width, iters, free, lower, upper, nextra, xlo, xhi, wrapped>>
Wrap == /\ pc = "wrap"
        /\ wrapped' = req.fam.periodic         \* only coordinates along periodic axes may change
        /\ pc' = "done" /\ UNCHANGED <<req, env, cls, width, iters, free, lower, upper, nextra, xlo, xhi, cost>>
Next == Promote \/ DefaultWidth \/ Region \/ NoSupport \/ FreeMask \/ Bounds \/ Levels \/ Solve \/ Wrap
Spec == Init /\ [][Next]_vars /\ WF_vars(Next)

-----------------------------------------------------------------------------
(* C04 *)
Done == pc = "done"
ClassKept == Done => (cls = (IF req.cand = "SphericalDroplet" THEN "DiffuseDroplet" ELSE req.cand))
\* whenever something is fitted, exactly the unconstrained parameters are free
ConstraintsFrozen == (Done /\ env.support) =>
                        free \cap req.fam.constraints = {} /\ free \cup req.fam.constraints = 1..NParams(req)
NothingFreeWithoutSupport == (Done /\ ~env.support) => free = {} /\ nextra = 0
BoundsLayout == (Done /\ env.support) =>
                        /\ Len(lower) = Cardinality(free) /\ Len(upper) = Cardinality(free)
                        /\ \A k \in 1..Len(lower) : LET i == Ordered(free)[k] IN lower[k] = Lo(i) /\ upper[k] = Hi(i)
RadiusWidthBounded == (Done /\ env.support) => /\ (req.fam.dim + 1) \in free /\ (req.fam.dim + 2) \in free
\* intensities are fitted exactly when asked for and possible; the range is never allowed to become negative
LevelsLayout == Done => /\ nextra = Len(xlo) /\ nextra = Len(xhi)
                        /\ (nextra = 2) <=> (env.support /\ Adjust(req) /\ ~env.flat)
                        /\ nextra \in {0, 2} /\ (nextra = 2 => xlo[2] = "zero")
RegionRule == Done => iters = 1 + env.w2 /\ iters >= 1
WidthSet == Done => width # "none"        \* the result always has an interface width
NeverWorse == Done => cost = "not-larger"
\* wrapping never touches a frozen coordinate
WrapRespectsSymmetry == Done => \A a \in wrapped : a \notin req.fam.constraints \/ req.fam.name \in {"cylindrical-periodic"}
Termination == <>Done
=============================================================================
