SPECIFICATION Spec
CONSTANTS
  Classes <- AllClasses
  MaxModes = 15
  MaxActive = 3
  RadExps <- ExpsT
  KMax = 120
INVARIANT Bijection
INVARIANT InverseOnPairs
INVARIANT CountIsSquare
INVARIANT OptimalOnlySquares
INVARIANT TranslationModesFlat
INVARIANT HigherModesPositive
INVARIANT NoZerothMode
INVARIANT Emit
