------------------------------ MODULE MC_Recover ------------------------------
EXTENDS Recover, TLC, Json
AllFam == {"cart1", "cart2", "cart3", "polar", "spherical", "cylindrical"}
AllPer == {"none", "first", "all"}
AllRatios == {"1", "5/4", "3/2"}
AllRules == {"0.5", "auto", "extrema", "mean", "otsu"}
AllMaps == {"unit", "pm0.1", "m0.3_0.9", "5_6", "m3_m1"}
AllLevels == {"supplied", "supplied+fitted", "auto+fitted"}
AllCentres == {"cell-centre", "cell-corner", "generic", "seam-left", "seam-right", "outside"}
AllRadii == {"3", "3.25", "5.5"}
AllWidths == {"1", "1.5", "2"}
Emit == PrintT(ToJson(sc))
=============================================================================
