SPECIFICATION Spec
CONSTANTS
  Families <- AllFamilies
  CandClasses <- AllCands
  ModeCounts = {0, 1, 2, 3}
  WidthOpts = {"none", "given", "zero"}
  LevelOpts = {"fixed", "auto", "adjust", "autoadjust"}
INVARIANT ClassKept
INVARIANT ConstraintsFrozen
INVARIANT BoundsLayout
INVARIANT RadiusWidthBounded
INVARIANT NeverWorse
INVARIANT WrapRespectsSymmetry
INVARIANT Emit
PROPERTY Termination
