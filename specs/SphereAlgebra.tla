----------------------------- MODULE SphereAlgebra -----------------------------
(***************************************************************************)
(* The sphere conversions of droplets.tools.spherical as MONOMIALS         *)
(*        f(x) = 2^a 3^b pi^c x^p        (a, b, c, p rational)             *)
(* The family is closed under composition and differentiation, so the      *)
(* consistency claims of C12 are equalities of exponent vectors and hold   *)
(* for ALL positive reals once TLC has checked them:                       *)
(*    RadiusFromVolume_d o VolumeFromRadius_d = id        d = 1, 2, 3      *)
(*    RadiusFromSurface_d o SurfaceFromRadius_d = id      d = 2, 3         *)
(*    d/dr VolumeFromRadius_d = SurfaceFromRadius_d       d = 1, 2, 3      *)
(*    curvature = 1/r,  bounding box = position -/+ r                      *)
(* A rational is <<num, den>>, den > 0, normalised; a monomial is          *)
(* [a, b, c, p].  The documented closed forms are transcribed in Doc; the  *)
(* finite space conversion x dimension x variant x decade that the harness *)
(* replays is enumerated as the state space.                               *)
(***************************************************************************)
EXTENDS Integers, Sequences, FiniteSets

CONSTANTS Decades,     \* set of integers e: sample points near 10^e
          Variants     \* names of the implementation variants of each conversion

VARIABLES conv, dim, variant, decade
vars == <<conv, dim, variant, decade>>

Abs(x) == IF x < 0 THEN 0 - x ELSE x
RECURSIVE Gcd(_, _)
Gcd(x, y) == IF y = 0 THEN x ELSE Gcd(y, x % y)
Norm(q) == LET g == Gcd(Abs(q[1]), q[2]) IN IF g = 0 THEN <<0, 1>> ELSE <<q[1] \div g, q[2] \div g>>
R(n, d) == Norm(<<n, d>>)
RAdd(p, q) == Norm(<<p[1] * q[2] + q[1] * p[2], p[2] * q[2]>>)
RMul(p, q) == Norm(<<p[1] * q[1], p[2] * q[2]>>)
Zero == <<0, 1>>
One == <<1, 1>>

Mono(a, b, c, p) == [a |-> a, b |-> b, c |-> c, p |-> p]
Id == Mono(Zero, Zero, Zero, One)
\* (f o g)(x) = k_f (k_g x^pg)^pf
Compose(f, g) == Mono(RAdd(f.a, RMul(g.a, f.p)), RAdd(f.b, RMul(g.b, f.p)), RAdd(f.c, RMul(g.c, f.p)), RMul(g.p, f.p))
\* d/dx k x^p = p k x^(p-1) for p in {1, 2, 3} (the only exponents differentiated here); p = 1 -> constant
Deriv(f) ==
    LET n == f.p[1] IN
    Mono(IF n = 2 THEN RAdd(f.a, One) ELSE f.a, IF n = 3 THEN RAdd(f.b, One) ELSE f.b, f.c, RAdd(f.p, <<0 - 1, 1>>))

(* the documented formulas *)
Doc(cv, d) ==
    IF cv = "volume_from_radius" THEN
        IF d = 1 THEN Mono(One, Zero, Zero, One)                        \* 2 r
        ELSE IF d = 2 THEN Mono(Zero, Zero, One, R(2, 1))               \* pi r^2
        ELSE Mono(R(2, 1), R(0 - 1, 1), One, R(3, 1))                   \* 4 pi / 3 r^3
    ELSE IF cv = "radius_from_volume" THEN
        IF d = 1 THEN Mono(R(0 - 1, 1), Zero, Zero, One)                \* V / 2
        ELSE IF d = 2 THEN Mono(Zero, Zero, R(0 - 1, 2), R(1, 2))       \* sqrt(V / pi)
        ELSE Mono(R(0 - 2, 3), R(1, 3), R(0 - 1, 3), R(1, 3))           \* (3 V / (4 pi))^(1/3)
    ELSE IF cv = "surface_from_radius" THEN
        IF d = 1 THEN Mono(One, Zero, Zero, Zero)                       \* 2 (two points)
        ELSE IF d = 2 THEN Mono(One, Zero, One, One)                    \* 2 pi r
        ELSE Mono(R(2, 1), Zero, One, R(2, 1))                          \* 4 pi r^2
    ELSE IF cv = "radius_from_surface" THEN
        IF d = 2 THEN Mono(R(0 - 1, 1), Zero, R(0 - 1, 1), One)         \* S / (2 pi)
        ELSE Mono(R(0 - 1, 1), Zero, R(0 - 1, 2), R(1, 2))              \* sqrt(S / (4 pi))
    ELSE Mono(Zero, Zero, Zero, R(0 - 1, 1))                            \* curvature = 1 / r

Convs == {"volume_from_radius", "radius_from_volume", "surface_from_radius", "radius_from_surface", "curvature"}
Defined(cv, d) == ~(cv = "radius_from_surface" /\ d = 1)

Init == /\ conv \in Convs /\ dim \in 1..3 /\ Defined(conv, dim)
        /\ variant \in Variants /\ decade \in Decades
Spec == Init /\ [][FALSE]_vars

-----------------------------------------------------------------------------
(* C12, for all positive reals *)
RoundTripVolume == \A d \in 1..3 : Compose(Doc("radius_from_volume", d), Doc("volume_from_radius", d)) = Id
                                   /\ Compose(Doc("volume_from_radius", d), Doc("radius_from_volume", d)) = Id
RoundTripSurface == \A d \in 2..3 : Compose(Doc("radius_from_surface", d), Doc("surface_from_radius", d)) = Id
                                    /\ Compose(Doc("surface_from_radius", d), Doc("radius_from_surface", d)) = Id
SurfaceIsDerivative == \A d \in 1..3 : Deriv(Doc("volume_from_radius", d)) = Doc("surface_from_radius", d)
\* lengths scale: volume ~ r^d, surface ~ r^(d-1), curvature ~ r^-1
Degrees == \A d \in 1..3 : /\ Doc("volume_from_radius", d).p = R(d, 1)
                           /\ Doc("surface_from_radius", d).p = R(d - 1, 1)
                           /\ Doc("curvature", d).p = R(0 - 1, 1)
\* merging: R(V(r1) + V(r2))^d = r1^d + r2^d because V_d is c_d r^d and R_d its inverse (used by C11)
VolumeIsPower == \A d \in 1..3 : Compose(Doc("radius_from_volume", d), Doc("volume_from_radius", d)).p = One
=============================================================================
