SPECIFICATION Spec
CONSTANTS
  Kind = "Track"
  DTypes <- Types3D
  MaxDrops = 3
  MaxMembers = 0
  TimePatterns <- Patterns
  Paths <- TwoPaths
  MaxWrites = 2
  SecondObjs <- FewObjects
  CheckTrackClass = TRUE
INVARIANT RoundTrip
INVARIANT NoSilentChange
INVARIANT OneSetPerMember
INVARIANT Emit
PROPERTY Termination
