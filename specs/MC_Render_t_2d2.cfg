SPECIFICATION Spec
CONSTANTS
  N <- NC
  P <- PC
  DX <- DXC
  X0 <- X0C
  DimC = 2
  N1 = 4
  N2 = 4
  N3 = 1
  P1 = TRUE
  P2 = FALSE
  P3 = FALSE
  DX1 = 4
  DX2 = 4
  DX3 = 4
  O1 = 16
  O2 = 16
  O3 = 16
  R2S = {16, 36}
  Margin = 4
  PosStep = 4
  NDrops = 2
INVARIANT RollEquivariant
INVARIANT PeriodInvariant
INVARIANT Monotone
INVARIANT OrderFree
INVARIANT NoWrapOpenAxes
INVARIANT Emit
