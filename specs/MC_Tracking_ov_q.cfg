SPECIFICATION Spec
CONSTANTS
  Inf <- InfC
  Ov <- OvL
  DKey <- DKeyL
  L = 4
  Dim = 1
  Periodic = TRUE
  OpenAxes = {}
  Radii = {1}
  MaxPer = 2
  NFrames = 3
  MethodC = "overlap"
  MaxD2 <- Unlimited
INVARIANT Partition
INVARIANT NoForeign
INVARIANT GapFree
INVARIANT OverlapLinks
INVARIANT DistanceLinks
INVARIANT Emit
PROPERTY FramesIntact
PROPERTY TracksGrow
PROPERTY Termination
