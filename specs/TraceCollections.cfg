SPECIFICATION TSpec
CONSTANTS
  InitVals = {}
  EmLists <- TrEmLists
  EvLists <- TrEvLists
  TimeLists <- TrTimeLists
  Times <- TimePool
  MinRs <- MinRsT
  MutRs = {0, 3}
  MinDists <- MinDistsT
  TlLists <- TrTlLists
  MinDurs <- MinDursT
  MaxDrops = 2000
  MaxEms = 400
  MaxRefs = 12
  MaxEv = 8
  MaxTcs = 4
  MaxTrks = 12
  TrackMethods <- TrMethods
  Images <- TrImages
  ImgLists <- TrImgLists
  LocWidths <- TrWidths
  MaxLen = 6
  Depth = 1000
  Ops <- AllOps
  Observe <- ObserveTrace
INVARIANT Progress
INVARIANT Aligned
INVARIANT Owned
INVARIANT ArrShared
INVARIANT TlValid
INVARIANT FilesWellFormed
INVARIANT TrackingConserves
