SPECIFICATION Spec
CONSTANTS
  Kind = "Track"
  DTypes <- TypesTrack
  MaxDrops = 2
  MaxMembers = 0
  TimePatterns <- Patterns1
  Paths <- OnePath
  MaxWrites = 1
  SecondObjs <- FewObjects
  CheckTrackClass = FALSE
INVARIANT RoundTrip
INVARIANT NoSilentChange
INVARIANT OneSetPerMember
INVARIANT Emit
PROPERTY Termination
