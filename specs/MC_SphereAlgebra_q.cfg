SPECIFICATION Spec
CONSTANTS
  Decades <- DecadesQ
  Variants <- AllVariants
INVARIANT RoundTripVolume
INVARIANT RoundTripSurface
INVARIANT SurfaceIsDerivative
INVARIANT Degrees
INVARIANT VolumeIsPower
INVARIANT Emit
