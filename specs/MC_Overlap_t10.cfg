SPECIFICATION Spec
CONSTANTS
  SLt <- SLtL
  Close <- CloseL
  Bigger <- BiggerL
  L = 3
  Dim = 3
  Periodic = TRUE
  OpenAxes = {1, 3}
  Radii = {1, 2}
  MaxN = 3
  M = 0
INVARIANT Subsequence
INVARIANT InRange
INVARIANT Separated
INVARIANT Dominated
INVARIANT StrictMaxSurvives
INVARIANT NoNeedlessRemoval
INVARIANT Emit
PROPERTY Shrinks
PROPERTY Termination
