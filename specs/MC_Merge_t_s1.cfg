SPECIFICATION Spec
CONSTANTS
  Dim = 1
  N = 4
  Radii = {0, 1, 2}
  Pos <- Pos1
  Widths <- WNone
  Diffuse = FALSE
INVARIANT TotalVolume
INVARIANT TotalMoment
INVARIANT Commutative
INVARIANT Associative
INVARIANT FinalUnique
INVARIANT Emit
PROPERTY OperandsIntact
