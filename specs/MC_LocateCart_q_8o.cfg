SPECIFICATION Spec
CONSTANTS
  N <- NC
  P <- PC
  DimC = 1
  N1 = 8
  N2 = 1
  N3 = 1
  P1 = FALSE
  P2 = FALSE
  P3 = FALSE
  Variant = "unionfind"
INVARIANT Correct
INVARIANT Ordered
INVARIANT Emit
PROPERTY MaskIntact
PROPERTY Termination
