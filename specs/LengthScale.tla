------------------------------ MODULE LengthScale ------------------------------
(***************************************************************************)
(* Length scales are physical lengths (C17).                               *)
(*                                                                         *)
(* Part 1 -- transformation words.  A field on a grid is acted upon by     *)
(*   Stretch(j)  grid spacing and origin times 2^j  (data unchanged)       *)
(*   Scale(c)    data times c                                              *)
(*   Roll(a, s)  data rolled by s cells along periodic axis a              *)
(* and every length-scale method is an observable of scaling degree        *)
(* (length 1, amplitude 0), translation invariant.  The state keeps the    *)
(* accumulated transformation; the observable's expected value is          *)
(* 2^stretch times the base value, whatever the order of the generators.   *)
(* Powers of two are exact in doubles, so the moment-based and the         *)
(* droplet-counting method must reproduce this bit for bit.                *)
(*                                                                         *)
(* Part 2 -- plane waves.  A wave with integer mode vector n on a periodic *)
(* box of shape N and spacing 2^j fits the box; it is resolved if every    *)
(* axis with n_a # 0 has at least four cells per period.  Its wave number  *)
(* is |k| = 2 pi |n / L|; TLC enumerates all admissible scenarios, the     *)
(* harness requires the peak-based method to return a finite value within  *)
(* half a Fourier bin of |k|, for every spacing.                           *)
(***************************************************************************)
EXTENDS Integers, Sequences, FiniteSets

CONSTANTS Mode,          \* "words" | "waves"
          StretchExps,   \* exponents j of Stretch generators
          ScaleFactors,  \* factors c (as strings naming exactly representable values)
          MaxWord,       \* maximal number of generators
          Shapes,        \* waves: set of shapes (tuples)
          MaxMode,       \* waves: |n_a| <= MaxMode
          SpacingExps    \* waves: spacing 2^j

VARIABLES word,      \* sequence of generators applied so far
          stretch,   \* accumulated exponent of the length unit
          scaled,    \* whether the amplitude was changed (observable must not care)
          rolled,    \* whether the field was translated
          wave       \* plane-wave scenario or "none"
vars == <<word, stretch, scaled, rolled, wave>>

Gens == {[g |-> "stretch", j |-> j] : j \in StretchExps} \cup {[g |-> "scale", c |-> c] : c \in ScaleFactors}
        \cup {[g |-> "roll"]}

Abs(x) == IF x < 0 THEN 0 - x ELSE x
Resolved(shape, n) == /\ \E a \in 1..Len(shape) : n[a] # 0
                      /\ \A a \in 1..Len(shape) : n[a] # 0 => shape[a] >= 4 * Abs(n[a])
Waves == UNION {{[shape |-> sh, n |-> n, j |-> j] : n \in {m \in [1..Len(sh) -> (0 - MaxMode)..MaxMode] : Resolved(sh, m)},
                                                     j \in SpacingExps} : sh \in Shapes}

Init == /\ word = <<>> /\ stretch = 0 /\ scaled = FALSE /\ rolled = FALSE
        /\ wave \in (IF Mode = "waves" THEN Waves ELSE {[shape |-> <<>>, n |-> <<>>, j |-> 0]})

Apply(g) ==
    /\ Mode = "words" /\ Len(word) < MaxWord
    /\ word' = Append(word, g)
    /\ stretch' = IF g.g = "stretch" THEN stretch + g.j ELSE stretch
    /\ scaled' = (scaled \/ g.g = "scale")
    /\ rolled' = (rolled \/ g.g = "roll")
    /\ UNCHANGED wave
Next == \E g \in Gens : Apply(g)
Spec == Init /\ [][Next]_vars

\* the expected observable depends on the word only through the total stretch: generators commute
RECURSIVE TotalStretch(_)
TotalStretch(w) == IF Len(w) = 0 THEN 0 ELSE (IF Head(w).g = "stretch" THEN Head(w).j ELSE 0) + TotalStretch(Tail(w))
DegreeOne == stretch = TotalStretch(word)
\* every admissible wave has at least four cells per period along each axis it varies on, and a positive wave number:
\* K2Num / (2^j)^2 = sum_a (n_a * prod_{b # a} N_b)^2 / (prod_b N_b)^2 is the squared wave number over (2 pi)^2
RECURSIVE Prod(_)
Prod(s) == IF Len(s) = 0 THEN 1 ELSE Head(s) * Prod(Tail(s))
K2Num(w) == LET P == Prod(w.shape)
                RECURSIVE S(_) S(a) == IF a = 0 THEN 0 ELSE (w.n[a] * (P \div w.shape[a])) * (w.n[a] * (P \div w.shape[a])) + S(a - 1)
            IN S(Len(w.shape))
WaveOK == Mode = "waves" => (K2Num(wave) > 0 /\ Resolved(wave.shape, wave.n))
=============================================================================
