#!/usr/bin/env python3
"""Generate MC_RenderLocate_*.cfg (static, committed)."""
CFGS = {
    # name: shape, periodic, dx, origin, r2 set, ndrops, margin, posstep
    "q_1d": ((7,), (1,), (4,), (0,), "{36, 41, 50, 64, 100}", 1, 8, 1),
    "q_1dfar": ((6,), (1,), (4,), (1,), "{36, 50}", 1, 60, 3),
    "q_2dfar": ((6, 5), (1, 0), (4, 4), (0, 0), "{36}", 1, 52, 2),
    "q_1do": ((9,), (0,), (4,), (-3,), "{36, 41, 50, 64}", 1, 0, 1),
    "q_2d": ((5, 6), (1, 1), (4, 4), (0, 1), "{36, 41, 53, 64}", 1, 4, 1),
    "q_2da": ((10, 7), (1, 0), (4, 8), (-3, 0), "{144, 150, 169}", 1, 4, 2),
    "t_1d3": ((16,), (1,), (4,), (1,), "{36, 50}", 3, 0, 2),
    "t_2d": ((7, 8), (1, 1), (4, 4), (0, 0), "{36, 37, 40, 41, 45, 50, 53, 58, 64, 72, 81, 100}", 1, 8, 1),
    "t_2dpf": ((7, 8), (0, 1), (4, 4), (1, -3), "{36, 41, 50, 64, 81}", 1, 8, 1),
    "t_2dff": ((8, 8), (0, 0), (4, 4), (0, 0), "{36, 41, 50, 64, 81}", 1, 0, 1),
    "t_2da": ((10, 7), (1, 1), (4, 8), (0, 1), "{144, 150, 169, 200}", 1, 8, 2),
    "t_2d2": ((8, 9), (1, 1), (4, 4), (0, 0), "{36, 41}", 2, 0, 4),
    "t_3d": ((6, 6, 7), (1, 1, 1), (4, 4, 4), (0, 0, 1), "{36, 41, 50, 59}", 1, 4, 4),
    "t_3dm": ((6, 7, 6), (1, 0, 1), (4, 4, 4), (0, -3, 0), "{36, 41, 50}", 1, 4, 4),
}
B = lambda x: "TRUE" if x else "FALSE"
for name, (shape, per, dx, org, r2s, nd, margin, step) in CFGS.items():
    d = len(shape)
    sh = list(shape) + [1] * (3 - d)
    pp = list(per) + [0] * (3 - d)
    dd = list(dx) + [4] * (3 - d)
    oo = [o + 16 for o in org] + [16] * (3 - d)
    open(f"MC_RenderLocate_{name}.cfg", "w").write(
        "SPECIFICATION RSpec\nCONSTANTS\n  N <- NC\n  P <- PC\n  DX <- DXC\n  X0 <- X0C\n  Variant = \"unionfind\"\n"
        f"  DimC = {d}\n  N1 = {sh[0]}\n  N2 = {sh[1]}\n  N3 = {sh[2]}\n"
        f"  P1 = {B(pp[0])}\n  P2 = {B(pp[1])}\n  P3 = {B(pp[2])}\n"
        f"  DX1 = {dd[0]}\n  DX2 = {dd[1]}\n  DX3 = {dd[2]}\n  O1 = {oo[0]}\n  O2 = {oo[1]}\n  O3 = {oo[2]}\n"
        f"  R2S = {r2s}\n  NDrops = {nd}\n  Margin = {margin}\n  PosStep = {step}\n"
        "INVARIANT OnePerOriginal\nINVARIANT ExactVolume\nINVARIANT HalfCell\nINVARIANT NoWinding\nINVARIANT Correct\nINVARIANT Emit\n"
        "PROPERTY MaskIntact\nPROPERTY Termination\n"
    )
