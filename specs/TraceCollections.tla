--------------------------- MODULE TraceCollections ---------------------------
(* code -> spec: validates logs of long random operation sequences executed on real objects.  Every logged event is
   [o: the call with its arguments, e: exception name or "", obs: the observable state afterwards]; a log is accepted
   iff every event is a step of Collections.tla's action of that name with exactly that outcome.  The observable state is
   canonical (independent of object numbering): values in slot order, for every slot the first slot holding the same
   object (aliasing), layouts, times. *)
EXTENDS Collections, Json, IOUtils

Traces == JsonDeserialize(IOEnv.TRACE_FILE)
VARIABLE tid
tvars == <<st, n, tid>>

EvMems(s) == [e \in Range(Len(s.ev)) |-> s.ems[s.ev[e]].mem]
TcMems(s) == Flat([c \in Range(Len(s.tcs)) |-> Flat([i \in Range(Len(s.tcs[c].ems)) |-> s.ems[s.tcs[c].ems[i]].mem])])
DropSlots(s) == s.refs \o Flat(EvMems(s)) \o TcMems(s) \o Flat([k \in Range(Len(s.trks)) |-> s.trks[k].objs]) \o s.arr
EmSlots(s) == s.ev \o Flat([c \in Range(Len(s.tcs)) |-> s.tcs[c].ems])
FirstOf(F, i) == CHOOSE j \in Range(Len(F)) : F[j] = F[i] /\ \A k \in Range(Len(F)) : F[k] = F[i] => j <= k
Canon(s) ==
    LET F == DropSlots(s)  G == EmSlots(s) IN
    [vals |-> [i \in Range(Len(F)) |-> s.drops[F[i]]],
     rep |-> [i \in Range(Len(F)) |-> FirstOf(F, i)],
     erep |-> [i \in Range(Len(G)) |-> FirstOf(G, i)],
     nrefs |-> Len(s.refs),
     ev |-> [e \in Range(Len(s.ev)) |-> [len |-> Len(s.ems[s.ev[e]].mem), dt |-> s.ems[s.ev[e]].dt]],
     tcs |-> [c \in Range(Len(s.tcs)) |->
                [times |-> s.tcs[c].times,
                 ems |-> [i \in Range(Len(s.tcs[c].ems)) |-> [len |-> Len(s.ems[s.tcs[c].ems[i]].mem), dt |-> s.ems[s.tcs[c].ems[i]].dt]]]],
     trks |-> [k \in Range(Len(s.trks)) |-> [times |-> s.trks[k].times, len |-> Len(s.trks[k].objs)]],
     tls |-> s.tls,
     files |-> [p \in 1..2 |-> [kind |-> s.files[p].kind, nsets |-> Len(s.files[p].sets)]],
     narr |-> Len(s.arr)]

Events == Traces[tid].events
ObserveTrace(op, s2, err) ==
    /\ n < Len(Events)
    /\ Events[n + 1].o.op = op.op
    /\ Events[n + 1].o = op
    /\ Events[n + 1].e = err
    /\ Canon(s2) = Events[n + 1].obs

TInit == /\ tid \in Range(Len(Traces))
         /\ st = [drops |-> Traces[tid].init, refs |-> [i \in Range(Len(Traces[tid].init)) |-> i],
                  ems |-> <<>>, ev |-> <<>>, tcs |-> <<>>, trks |-> <<>>, tls |-> <<>>, arr |-> <<>>, files |-> [p \in 1..2 |-> NoFile], shared |-> {}, eshared |-> {}]
         /\ n = 0
TNext == Next /\ tid' = tid
TSpec == TInit /\ [][TNext]_tvars
\* one line per matched prefix; a log is accepted iff a line with n = Len(events) appears
Progress == PrintT(ToJson([tid |-> tid, n |-> n, len |-> Len(Events)]))
=============================================================================
