SPECIFICATION Spec
CONSTANTS
  Inf <- InfC
  Ov <- OvL
  DKey <- DKeyL
  L = 4
  Dim = 2
  Periodic = TRUE
  OpenAxes = {2}
  Radii = {1}
  MaxPer = 2
  NFrames = 2
  MethodC = "distance"
  MaxD2 = 2
INVARIANT Partition
INVARIANT NoForeign
INVARIANT GapFree
INVARIANT OverlapLinks
INVARIANT DistanceLinks
INVARIANT Emit
PROPERTY FramesIntact
PROPERTY TracksGrow
PROPERTY Termination
