SPECIFICATION Spec
CONSTANTS
  Dim = 3
  N = 3
  Radii = {0, 2}
  Pos <- Pos3
  Widths <- WDiff
  Diffuse = TRUE
INVARIANT TotalVolume
INVARIANT TotalMoment
INVARIANT Commutative
INVARIANT Associative
INVARIANT FinalUnique
INVARIANT Emit
PROPERTY OperandsIntact
