----------------------------- MODULE LocateCart -----------------------------
(***************************************************************************)
(* _locate_droplets_in_mask_cartesian up to (not including) the overlap    *)
(* removal, which is Overlap.tla.                                          *)
(*                                                                         *)
(*   Label      ndimage.label: face-connected components of the UNWRAPPED  *)
(*              image, numbered by their first cell in C order; integer    *)
(*              moments V (cell count) and S (sum of cell indices)         *)
(*   MergeStep  one boundary point (l, h) of one periodic axis, in the     *)
(*              implementation's iteration order                           *)
(*   Select     surviving clusters in ascending label order                *)
(*                                                                         *)
(* Two designs of MergeStep are specified:                                 *)
(*   "original"   the code as found: the position slot of the high-side    *)
(*                label is shifted by one period and both slots are        *)
(*                overwritten by the weighted mean; cells are relabelled.  *)
(*                TLC refutes Correct for it (finding F1: clusters that    *)
(*                were merged earlier are combined in different frames).   *)
(*   "unionfind"  the repaired code: labels are kept, a union-find forest  *)
(*                records for every label its parent and the number of     *)
(*                periods it is shifted relative to the parent.            *)
(* The property side (Correct) is declarative: torus components and their  *)
(* lifts from Lattice.tla, independent of labels and iteration order.      *)
(***************************************************************************)
EXTENDS Lattice, TLC

CONSTANTS Variant

VARIABLES mask,      \* the binary image: set of cells; never changes
          pc,        \* "label" | "merge" | "select" | "done"
          lab,       \* [mask -> label]
          nl,        \* number of raster labels
          V, S,      \* per label: cell count, per-axis sum of cell indices
          par, sh,   \* union-find: parent label, shift (periods per axis) relative to parent
          axi, pt,   \* position in the merge loop: index into PerAxes, index of boundary point
          clusters   \* result: Seq([rep, v, s, cells])

vars == <<mask, pc, lab, nl, V, S, par, sh, axi, pt, clusters>>

Range(n) == 1..n
PerAxes == SelectSeq([a \in Axes |-> a], LAMBDA a : P[a])

InitWith(m) ==
    /\ mask = m /\ pc = "label"
    /\ lab = <<>> /\ nl = 0 /\ V = <<>> /\ S = <<>> /\ par = <<>> /\ sh = <<>>
    /\ axi = 1 /\ pt = 1 /\ clusters = <<>>

RECURSIVE SumCells(_, _)
SumCells(C, a) == IF C = {} THEN 0
                  ELSE LET c == CHOOSE x \in C : TRUE IN c[a] + SumCells(C \ {c}, a)

\* the open components ordered by their first cell (= the raster labels 1, 2, ...)
RECURSIVE OrderComps(_)
OrderComps(Cs) == IF Cs = {} THEN <<>>
                  ELSE LET keys == [C \in Cs |-> MinKey(C)]
                           m == CHOOSE C \in Cs : \A E \in Cs : keys[C] <= keys[E]
                       IN <<m>> \o OrderComps(Cs \ {m})

LabelWith(seq) ==
    /\ nl' = Len(seq)
    /\ lab' = [c \in mask |-> CHOOSE k \in Range(Len(seq)) : c \in seq[k]]
    /\ V' = [k \in Range(Len(seq)) |-> Cardinality(seq[k])]
    /\ S' = [k \in Range(Len(seq)) |-> [a \in Axes |-> SumCells(seq[k], a)]]
    /\ par' = [k \in Range(Len(seq)) |-> k]
    /\ sh' = [k \in Range(Len(seq)) |-> Zero]

Label ==
    /\ pc = "label"
    /\ LabelWith(OrderComps(CompsO(mask)))
    /\ pc' = IF mask = {} THEN "done" ELSE IF Len(PerAxes) = 0 THEN "select" ELSE "merge"
    /\ UNCHANGED <<mask, axi, pt, clusters>>

\* boundary points of axis ax in itertools.product order (= C order)
BPs(ax) == {c \in Cells : c[ax] = 0}
BPk(ax, k) == CHOOSE c \in BPs(ax) : Cardinality({d \in BPs(ax) : Key(d) < Key(c)}) = k - 1
NumBP(ax) == Cardinality(BPs(ax))

RECURSIVE Root(_)
Root(i) == IF par[i] = i THEN i ELSE Root(par[i])
RECURSIVE Tot(_)
Tot(i) == IF par[i] = i THEN Zero ELSE Plus(sh[i], Tot(par[i]))

Advance ==
    IF pt < NumBP(PerAxes[axi]) THEN axi' = axi /\ pt' = pt + 1 /\ pc' = pc
    ELSE IF axi < Len(PerAxes) THEN axi' = axi + 1 /\ pt' = 1 /\ pc' = pc
    ELSE axi' = axi /\ pt' = pt /\ pc' = "select"

MergeStep ==
    /\ pc = "merge"
    /\ LET ax == PerAxes[axi]
           l == BPk(ax, pt)
           h == [l EXCEPT ![ax] = N[ax] - 1]
       IN IF l \in mask /\ h \in mask
          THEN IF Variant = "unionfind"
               THEN LET rl == Root(lab[l])  rh == Root(lab[h])
                        sl == Tot(lab[l])   shh == Tot(lab[h])
                    IN IF rl # rh
                       THEN /\ par' = [par EXCEPT ![rh] = rl]
                            /\ sh' = [sh EXCEPT ![rh] =
                                        [a \in Axes |-> sl[a] - shh[a] - (IF a = ax THEN 1 ELSE 0)]]
                            /\ UNCHANGED <<lab, V, S>>
                       ELSE UNCHANGED <<lab, V, S, par, sh>>
               ELSE \* the code as found
                    LET il == lab[l]  ih == lab[h] IN
                    IF il # ih
                    THEN LET vn == V[il] + V[ih]
                             \* (pos_l v_l + (pos_h - N e_ax) v_h) kept as integer sums; the slots hold
                             \* sums over the merged cluster, so the weighted mean of means is S/V again
                             sn == [a \in Axes |-> S[il][a] + S[ih][a]
                                                    - (IF a = ax THEN N[ax] * V[ih] ELSE 0)]
                         IN /\ lab' = [c \in mask |-> IF lab[c] = ih THEN il ELSE lab[c]]
                            /\ S' = [k \in Range(nl) |-> IF k \in {il, ih} THEN sn ELSE S[k]]
                            /\ V' = [k \in Range(nl) |-> IF k \in {il, ih} THEN vn ELSE V[k]]
                            /\ UNCHANGED <<par, sh>>
                    ELSE UNCHANGED <<lab, V, S, par, sh>>
          ELSE UNCHANGED <<lab, V, S, par, sh>>
    /\ Advance
    /\ UNCHANGED <<mask, nl, clusters>>

\* ascending sequence of the elements of a finite set of naturals
RECURSIVE AscSeq(_)
AscSeq(X) == IF X = {} THEN <<>>
              ELSE LET m == CHOOSE x \in X : \A y \in X : x <= y IN <<m>> \o AscSeq(X \ {m})

RECURSIVE SumOver(_, _, _)
SumOver(X, r, a) ==   \* sum over labels i in X with root r of S_i + N * tot_i * V_i along a
    IF X = {} THEN 0
    ELSE LET i == CHOOSE x \in X : TRUE
         IN (IF Root(i) = r THEN S[i][a] + N[a] * Tot(i)[a] * V[i] ELSE 0) + SumOver(X \ {i}, r, a)
RECURSIVE VolOver(_, _)
VolOver(X, r) ==
    IF X = {} THEN 0
    ELSE LET i == CHOOSE x \in X : TRUE
         IN (IF Root(i) = r THEN V[i] ELSE 0) + VolOver(X \ {i}, r)

Select ==
    /\ pc = "select"
    /\ clusters' =
         IF Variant = "unionfind"
         THEN LET reps == AscSeq({Root(i) : i \in Range(nl)})
              IN [k \in Range(Len(reps)) |->
                    [rep |-> reps[k],
                     v |-> VolOver(Range(nl), reps[k]),
                     s |-> [a \in Axes |-> SumOver(Range(nl), reps[k], a)],
                     cells |-> {c \in mask : Root(lab[c]) = reps[k]}]]
         ELSE LET reps == AscSeq({lab[c] : c \in mask})
              IN [k \in Range(Len(reps)) |->
                    [rep |-> reps[k], v |-> V[reps[k]], s |-> S[reps[k]],
                     cells |-> {c \in mask : lab[c] = reps[k]}]]
    /\ pc' = "done"
    /\ UNCHANGED <<mask, lab, nl, V, S, par, sh, axi, pt>>

Next == Label \/ MergeStep \/ Select

-----------------------------------------------------------------------------
(* Property (C02, locate stage): clusters correspond one-to-one to the torus components;
   volume = number of cells; for non-winding components the moment equals the moment of
   the lifted component modulo one period (per unit volume) on periodic axes. *)

Cong(x, y, a, v) == IF P[a] THEN (x - y) % (N[a] * v) = 0 ELSE x = y

Correct == pc = "done" =>
    LET CP == CompsP(mask) IN
    /\ Len(clusters) = Cardinality(CP)
    /\ \A k \in Range(Len(clusters)) :
         /\ clusters[k].cells \in CP
         /\ clusters[k].v = Cardinality(clusters[k].cells)
         /\ LET Lf == Lift(clusters[k].cells) IN
            ~Winding(Lf) => \A a \in Axes : Cong(clusters[k].s[a], SumLift(Lf, a), a, clusters[k].v)
    /\ \A k, m \in Range(Len(clusters)) : k # m => clusters[k].cells # clusters[m].cells

\* the order of the result is the order of the representatives' labels
Ordered == \A k \in Range(Len(clusters) - 1) : clusters[k].rep < clusters[k + 1].rep

MaskIntact == [][mask' = mask]_vars
Termination == <>(pc = "done")
=============================================================================
