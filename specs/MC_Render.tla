------------------------------- MODULE MC_Render -------------------------------
EXTENDS Render, Json, TLC
CONSTANTS DimC, N1, N2, N3, P1, P2, P3, DX1, DX2, DX3, O1, O2, O3
NC == SubSeq(<<N1, N2, N3>>, 1, DimC)
PC == SubSeq(<<P1, P2, P3>>, 1, DimC)
DXC == SubSeq(<<DX1, DX2, DX3>>, 1, DimC)
X0C == SubSeq(<<O1 - 16, O2 - 16, O3 - 16>>, 1, DimC)
RECURSIVE Order(_)
Order(S) == IF S = {} THEN <<>> ELSE LET c == CHOOSE x \in S : \A y \in S : Key(x) <= Key(y) IN <<c>> \o Order(S \ {c})
CellSeq == Order(Cells)
Emit == pc = 1 => PrintT(ToJson([drops |-> drops,
                       q |-> [i \in DOMAIN drops |-> [k \in 1..Len(CellSeq) |-> Q(CellSeq[k], drops[i])]]]))
=============================================================================
