SPECIFICATION Spec
CONSTANTS
  N <- NC
  P <- PC
  DimC = 3
  N1 = 2
  N2 = 3
  N3 = 3
  P1 = FALSE
  P2 = TRUE
  P3 = TRUE
  Variant = "unionfind"
INVARIANT Correct
INVARIANT Ordered
INVARIANT Emit
PROPERTY MaskIntact
PROPERTY Termination
