SPECIFICATION Spec
CONSTANTS
  Inf <- InfC
  Ov <- OvL
  DKey <- DKeyL
  L = 4
  Dim = 1
  Periodic = FALSE
  OpenAxes = {}
  Radii = {1, 2}
  MaxPer = 2
  NFrames = 3
  MethodC = "distance"
  MaxD2 = 0
INVARIANT Partition
INVARIANT NoForeign
INVARIANT GapFree
INVARIANT OverlapLinks
INVARIANT DistanceLinks
INVARIANT Emit
PROPERTY FramesIntact
PROPERTY TracksGrow
PROPERTY Termination
