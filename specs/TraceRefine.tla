---------------------------- MODULE TraceRefine ----------------------------
(* Validation of recorded executions of the real refine_droplet against Refine.tla,
   many traces per TLC run (code -> spec).

   A trace holds
     req   the request as the harness issued it (grid family with its coordinate constraints and periodic
           Cartesian axes read off the pde grid, candidate class, number of modes, width and level options)
     env   the facts the protocol branches on, computed by the harness INDEPENDENTLY of the call
           (support: the candidate's dilated binary image holds a support point; flat: intensity range zero;
            w2 = floor(2 w) of the starting width)
     obs   what the implementation was SEEN to do: the class of the result, the width the solver was started
           with, the number of solver calls, the dilation counts compatible with the number of residuals, the
           parameter slots handed to the solver, the kinds of their bounds, the intensity parameters and their
           bounds, whether the handed-over objective grew / left the bounds, which coordinates differ between the
           solver's result and the returned droplet, and the sanity of the returned droplet.
   The spec's actions are executed on (req, env); after every action the observation belonging to that action
   is compared with the new state.  The first failing clause is remembered in `bad`; one verdict per trace is
   printed at the end, so verdicts are total. *)
EXTENDS Refine, TLC, Json, IOUtils

Traces == JsonDeserialize(IOEnv.TRACE_FILE)
ToSet(s) == {s[i] : i \in DOMAIN s}
SeqOfSet(S) == Ordered(S)

VARIABLES tid, bad
tvars == <<vars, tid, bad>>

ReqOf(t) == LET r == Traces[t].req IN
    [fam |-> [name |-> r.fam.name, dim |-> r.fam.dim, constraints |-> ToSet(r.fam.constraints),
              periodic |-> ToSet(r.fam.periodic)],
     cand |-> r.cand, modes |-> r.modes, width |-> r.width, levels |-> r.levels]
EnvOf(t) == [support |-> Traces[t].env.support, flat |-> Traces[t].env.flat, w2 |-> Traces[t].env.w2]

TInit == \E t \in 1..Len(Traces) :
          /\ tid = t /\ bad = IF Traces[t].obs.raised # "" THEN "raised: " \o Traces[t].obs.raised
                              ELSE IF ~Valid(ReqOf(t)) THEN "harness: request outside the spec's domain" ELSE ""
          /\ req = ReqOf(t) /\ env = EnvOf(t)
          /\ pc = "promote" /\ cls = req.cand /\ width = req.width /\ iters = 0 /\ free = {} /\ lower = <<>> /\ upper = <<>>
          /\ nextra = 0 /\ xlo = <<>> /\ xhi = <<>> /\ cost = "initial" /\ wrapped = {}

O == Traces[tid].obs
Note(ok, what) == bad' = IF bad # "" THEN bad ELSE IF ok THEN "" ELSE what
TNext ==
    /\ tid' = tid
    /\ \/ Promote /\ Note(cls' = O.cls, "Promote: class of the result")
       \/ DefaultWidth /\ Note(width' = O.width, "DefaultWidth: width the fit started with")
       \/ Region /\ Note(O.calls = 1 /\ iters' \in ToSet(O.iters), "Region: solver calls / size of the fit region")
       \/ NoSupport /\ Note(O.calls = 0, "NoSupport: solver called without any support point")
       \/ FreeMask /\ Note(SeqOfSet(free') = O.free, "FreeMask: parameters handed to the solver")
       \/ Bounds /\ Note(lower' = O.lower /\ upper' = O.upper, "Bounds: layout of the bounds")
       \/ Levels /\ Note(nextra' = O.nextra /\ xlo' = O.xlo /\ xhi' = O.xhi, "Levels: intensity parameters / bounds")
       \/ Solve /\ Note(O.notworse /\ O.inbounds, "Solve: objective grew or result outside the bounds")
       \/ Wrap /\ Note(/\ ToSet(O.changed) \subseteq wrapped'
                       /\ O.frozen_ok /\ O.inbox /\ O.finite /\ O.nonneg /\ O.amps_ok /\ O.image_intact
                       /\ O.width_set,
                       "Wrap/Return: " \o O.why)
TSpec == TInit /\ [][TNext]_tvars

Verdict == pc = "done" =>
    PrintT(ToJson([tid |-> tid, mode |-> "run", accepted |-> (bad = ""), clause |-> bad,
                   classkept |-> ClassKept, frozen |-> ConstraintsFrozen, layout |-> BoundsLayout,
                   levels |-> LevelsLayout, region |-> RegionRule, neverworse |-> NeverWorse]))
=============================================================================
