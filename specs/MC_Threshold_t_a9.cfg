SPECIFICATION Spec
CONSTANTS
  N = 6
  Alphabet <- A9
  NBins = 4
  NumThr2 <- ThrA9
  AffA = {1, 2, 4}
  AffB <- AffBs
  RMin2 = {0, 1, 2}
INVARIANT AffineInvariant
INVARIANT StrictThreshold
INVARIANT OtsuSplits
INVARIANT FilterStrict
INVARIANT PeriodicRuns
INVARIANT Emit
