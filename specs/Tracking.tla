------------------------------ MODULE Tracking ------------------------------
(***************************************************************************)
(* DropletTrackList.from_emulsion_time_course — both matching methods.     *)
(*                                                                         *)
(* One action per block of the implementation:                             *)
(*   Begin     tracks_alive = [track for track in tracks if end == t_last] *)
(*             and, for the distance method, the cdist matrix with cut-off *)
(*   MatchOv   one iteration of `for droplet in emulsion` (overlap method) *)
(*   Pick      one iteration of the `while True` argmin loop               *)
(*   AddUn     one iteration of the "droplets that have not been matched"  *)
(*   EndFrame  t_last = t                                                  *)
(*                                                                         *)
(* Geometry is abstract: the module is parameterised by                    *)
(*   Ov(a, b)    droplet values a and b overlap                            *)
(*   DKey(a, b)  an order preserving integer key of the centre distance,   *)
(*               Inf when the distance exceeds the cut-off                 *)
(* so that the same actions are used on the exact integer lattice          *)
(* (MC_Tracking*.tla) and on traces of the implementation in which the     *)
(* relations are supplied as tables (TraceTracking.tla).                   *)
(***************************************************************************)
EXTENDS Naturals, Integers, Sequences, FiniteSets

CONSTANTS Inf,          \* larger than any finite DKey
          Ov(_, _),
          DKey(_, _)

VARIABLES method,       \* "overlap" or "distance"; never changes
          frames,       \* the time course: Seq(Seq(droplet value)); never changes
          pc, f, j,
          tracks,       \* Seq(Seq(<<frame, index>>)): entries refer to frames[frame][index]
          alive,        \* Seq of track indices (order of `tracks`)
          D,            \* working distance matrix: alive x frames[f]
          added         \* indices of frames[f] linked by the distance method

vars == <<method, frames, pc, f, j, tracks, alive, D, added>>

T == Len(frames)
Drop(e) == frames[e[1]][e[2]]
LastEntry(k) == tracks[k][Len(tracks[k])]
LastDrop(k) == Drop(LastEntry(k))

Range(n) == 1..n

InitWith(m, fr) ==
    /\ method = m /\ frames = fr
    /\ pc = "begin" /\ f = 1 /\ j = 1
    /\ tracks = <<>> /\ alive = <<>> /\ D = <<>> /\ added = {}

(* tracks whose last droplet stems from the previous frame, in list order *)
AliveAt(fr) == SelectSeq([k \in Range(Len(tracks)) |-> k],
                         LAMBDA k : LastEntry(k)[1] = fr - 1)

Begin ==
    /\ pc = "begin" /\ f <= T
    /\ alive' = AliveAt(f)
    /\ j' = 1 /\ added' = {}
    /\ IF method = "overlap"
       THEN pc' = "match" /\ D' = <<>>
       ELSE /\ IF Len(alive') > 0 /\ Len(frames[f]) > 0
               THEN /\ D' = [a \in Range(Len(alive')) |->
                              [b \in Range(Len(frames[f])) |->
                                 DKey(LastDrop(alive'[a]), frames[f][b])]]
                    /\ pc' = "pick"
               ELSE D' = <<>> /\ pc' = "unmatched"
    /\ UNCHANGED <<method, frames, f, tracks>>

(* `track.last` is read in the CURRENT state: a track extended earlier in this frame
   presents its new droplet (this is what the implementation does). *)
MatchOv ==
    /\ pc = "match" /\ j <= Len(frames[f])
    /\ LET ov == SelectSeq(alive, LAMBDA k : Ov(LastDrop(k), frames[f][j]))
       IN tracks' = IF Len(ov) = 1
                    THEN [tracks EXCEPT ![ov[1]] = Append(@, <<f, j>>)]
                    ELSE Append(tracks, << <<f, j>> >>)
    /\ j' = j + 1
    /\ UNCHANGED <<method, frames, f, alive, pc, D, added>>

EndMatch ==
    /\ pc = "match" /\ j > Len(frames[f])
    /\ pc' = "endframe"
    /\ UNCHANGED <<method, frames, f, j, tracks, alive, D, added>>

(* np.argmin: first minimum in row-major order *)
Pairs == {<<a, b>> : a \in DOMAIN D, b \in Range(Len(frames[f]))}
Before(p, q) == p[1] < q[1] \/ (p[1] = q[1] /\ p[2] < q[2])
MinPair == CHOOSE p \in Pairs :
              \A q \in Pairs : D[p[1]][p[2]] < D[q[1]][q[2]]
                               \/ (D[p[1]][p[2]] = D[q[1]][q[2]] /\ (p = q \/ Before(p, q)))

Pick ==
    /\ pc = "pick"
    /\ IF D[MinPair[1]][MinPair[2]] >= Inf
       THEN pc' = "unmatched" /\ UNCHANGED <<tracks, D, added>>
       ELSE LET p == MinPair IN
            /\ tracks' = [tracks EXCEPT ![alive[p[1]]] = Append(@, <<f, p[2]>>)]
            /\ added' = added \cup {p[2]}
            /\ D' = [a \in DOMAIN D |-> [b \in DOMAIN D[a] |->
                        IF a = p[1] \/ b = p[2] THEN Inf ELSE D[a][b]]]
            /\ pc' = pc
    /\ UNCHANGED <<method, frames, f, j, alive>>

AddUn ==
    /\ pc = "unmatched" /\ j <= Len(frames[f])
    /\ tracks' = IF j \in added THEN tracks ELSE Append(tracks, << <<f, j>> >>)
    /\ j' = j + 1
    /\ UNCHANGED <<method, frames, f, alive, pc, D, added>>

EndUn ==
    /\ pc = "unmatched" /\ j > Len(frames[f])
    /\ pc' = "endframe"
    /\ UNCHANGED <<method, frames, f, j, tracks, alive, D, added>>

EndFrame ==
    /\ pc = "endframe"
    /\ f' = f + 1
    /\ pc' = IF f = T THEN "done" ELSE "begin"
    /\ UNCHANGED <<method, frames, j, tracks, alive, D, added>>

Empty ==   \* a time course without frames
    /\ pc = "begin" /\ f > T /\ pc' = "done"
    /\ UNCHANGED <<method, frames, f, j, tracks, alive, D, added>>

Next == Begin \/ MatchOv \/ EndMatch \/ Pick \/ AddUn \/ EndUn \/ EndFrame \/ Empty

-----------------------------------------------------------------------------
(* Properties — C06 *)

AllEntries(upto) == UNION {{<<a, b>> : b \in Range(Len(frames[a]))} : a \in Range(upto)}
Slots == UNION {{<<k, i>> : i \in Range(Len(tracks[k]))} : k \in Range(Len(tracks))}
Occ(e) == Cardinality({s \in Slots : tracks[s[1]][s[2]] = e})

\* frames completely processed so far
Processed == IF pc \in {"endframe", "done"} THEN (IF pc = "done" THEN T ELSE f) ELSE f - 1

Partition == \A e \in AllEntries(Processed) : Occ(e) = 1
NoForeign == \A k \in Range(Len(tracks)) : \A i \in Range(Len(tracks[k])) :
                 tracks[k][i] \in AllEntries(T) /\ tracks[k][i][1] <= f

NonOvFrames == \A a \in Range(T) : \A b, c \in Range(Len(frames[a])) :
                  b # c => ~Ov(frames[a][b], frames[a][c])

\* at most one droplet per frame and gap free: frame index advances by exactly one
GapFree == NonOvFrames =>
             \A k \in Range(Len(tracks)) : \A i \in Range(Len(tracks[k]) - 1) :
                 tracks[k][i + 1][1] = tracks[k][i][1] + 1

FramesIntact == [][frames' = frames /\ method' = method]_vars
TracksGrow == [][\A k \in Range(Len(tracks)) :
                   /\ k <= Len(tracks')
                   /\ Len(tracks[k]) <= Len(tracks'[k])
                   /\ \A i \in Range(Len(tracks[k])) : tracks'[k][i] = tracks[k][i]]_vars

-----------------------------------------------------------------------------
(* Properties — C07 (time courses whose frames are internally non-overlapping) *)

Links(fr) == {<<tracks[s[1]][s[2]][2], tracks[s[1]][s[2] + 1][2]>> :
                 s \in {s \in Slots : /\ s[2] < Len(tracks[s[1]])
                                      /\ tracks[s[1]][s[2]][1] = fr - 1
                                      /\ tracks[s[1]][s[2] + 1][1] = fr}}

OvRel(fr) == {<<a, b>> \in Range(Len(frames[fr - 1])) \X Range(Len(frames[fr])) :
                 Ov(frames[fr - 1][a], frames[fr][b])}
IsPartialBijection(R) == \A p, q \in R : (p[1] = q[1]) <=> (p[2] = q[2])

OverlapLinks == (pc = "done" /\ method = "overlap" /\ NonOvFrames) =>
    \A fr \in 2..T :
       /\ \A l \in Links(fr) : Ov(frames[fr - 1][l[1]], frames[fr][l[2]])
       /\ \A b \in Range(Len(frames[fr])) :     \* no overlap with the previous frame => starts a track
             (\A a \in Range(Len(frames[fr - 1])) : <<a, b>> \notin OvRel(fr))
                => \E k \in Range(Len(tracks)) : tracks[k][1] = <<fr, b>>
       /\ IsPartialBijection(OvRel(fr)) => Links(fr) = OvRel(fr)

\* declarative greedy matching, independent of the Pick action
RECURSIVE Greedy(_, _)
Greedy(P, key) ==   \* P: set of candidate pairs; key: function pair -> distance key
    IF P = {} THEN {}
    ELSE LET m == CHOOSE p \in P : \A q \in P : key[p] <= key[q]
         IN {m} \cup Greedy({q \in P : q[1] # m[1] /\ q[2] # m[2]}, key)

DistKeys(fr) == [p \in Range(Len(frames[fr - 1])) \X Range(Len(frames[fr])) |->
                    DKey(frames[fr - 1][p[1]], frames[fr][p[2]])]
Distinct(fn) == \A p, q \in DOMAIN fn : (p # q /\ fn[p] < Inf) => fn[p] # fn[q]

DistanceLinks == (pc = "done" /\ method = "distance" /\ NonOvFrames) =>
    \A fr \in 2..T :
       LET key == DistKeys(fr)
           matchedPrev == {l[1] : l \in Links(fr)}
           matchedNow  == {l[2] : l \in Links(fr)}
       IN /\ \A l \in Links(fr) : key[l] < Inf                      \* within the cut-off
          /\ \A a \in Range(Len(frames[fr - 1])), b \in Range(Len(frames[fr])) :
                (a \notin matchedPrev /\ b \notin matchedNow) => key[<<a, b>>] >= Inf
          /\ Distinct(key) => Links(fr) = Greedy({p \in DOMAIN key : key[p] < Inf}, key)

Termination == <>(pc = "done")
=============================================================================
