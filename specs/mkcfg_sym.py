#!/usr/bin/env python3
"""Generate MC_LocateSym_*.cfg (static, committed)."""
CFGS = {
    # name: family, Nr, Nz, PZ, DR, DZ, Z0(+16), mode, R2S, ZStep
    "q_rad_free": ("radial", 8, 1, 0, 4, 4, 16, "free", "{0}", 1),
    "q_rad_ren": ("radial", 12, 1, 0, 4, 4, 16, "render", "36..1600", 1),
    "q_cyl_free": ("cyl", 3, 3, 0, 4, 4, 16, "free", "{0}", 1),
    "q_cylp_free": ("cyl", 3, 3, 1, 4, 4, 16, "free", "{0}", 1),
    "q_cyl_ren": ("cyl", 4, 8, 0, 4, 4, 13, "render", "{36, 41, 50, 64, 81}", 1),
    "q_cylp_ren": ("cyl", 4, 8, 1, 4, 4, 16, "render", "{36, 41, 50, 64, 81}", 1),
    "q_cylp_ren9": ("cyl", 4, 9, 1, 4, 4, 16, "render", "{36, 41, 50, 64, 81}", 1),
    "t_rad_free": ("radial", 14, 1, 0, 4, 4, 16, "free", "{0}", 1),
    "t_cyl_free": ("cyl", 3, 4, 0, 4, 4, 16, "free", "{0}", 1),
    "t_cylp_free": ("cyl", 3, 4, 1, 4, 4, 16, "free", "{0}", 1),
    "t_cyl_free2": ("cyl", 4, 4, 0, 4, 4, 16, "free", "{0}", 1),
    "t_cylp_free2": ("cyl", 4, 4, 1, 4, 4, 16, "free", "{0}", 1),
    "t_cylp_free3": ("cyl", 2, 6, 1, 4, 4, 16, "free", "{0}", 1),
    "t_cylp_free4": ("cyl", 3, 6, 1, 4, 4, 16, "free", "{0}", 1),
    # the implementation before the repair of F18 (refuted by TLC): closed central filter / one-period span rule
    "dev_cylp_closed": ("cyl", 3, 3, 1, 4, 4, 16, "free", "{0}", 1, "closed", "whole"),
    "dev_cylp_span": ("cyl", 3, 6, 1, 4, 4, 16, "free", "{0}", 1, "halfopen", "one-period"),
    "t_cyl_ren": ("cyl", 6, 12, 0, 4, 8, 16, "render", "{144, 150, 170, 200, 256, 300}", 1),
    "t_cylp_ren": ("cyl", 6, 12, 1, 8, 4, 17, "render", "{144, 150, 170, 200, 256, 300}", 1),
}
for name, v in CFGS.items():
    fam, nr, nz, pz, dr, dz, z0, mode, r2s, zstep = v[:10]
    central, span = (v[10], v[11]) if len(v) > 10 else ("halfopen", "whole")
    open(f"MC_LocateSym_{name}.cfg", "w").write(
        "SPECIFICATION Spec\nCONSTANTS\n  N <- NC\n  P <- PC\n  Z0 <- Z0C\n"
        f'  Family = "{fam}"\n  NrC = {nr}\n  NzC = {nz}\n  PZC = {"TRUE" if pz else "FALSE"}\n'
        f"  DR = {dr}\n  DZ = {dz}\n  Z0P = {z0}\n  Mode = \"{mode}\"\n  R2S <- R2Sdef_{name}\n  ZStep = {zstep}\n"
        f"  CentralRule = \"{central}\"\n  SpanRule = \"{span}\"\n"
        "INVARIANT SingleCorrect\nINVARIANT PeriodicCorrect\nINVARIANT SpanSound\nINVARIANT NoAxisNoDroplet\nINVARIANT RadialCorrect\n"
        "INVARIANT RadialHalfCell\nINVARIANT CylOne\nINVARIANT Emit\nPROPERTY MaskIntact\nPROPERTY Termination\n"
    )
# R2S cannot hold ranges in a cfg either: emit definitions into the MC module
defs = "".join(f"R2Sdef_{n} == {v[8]}\n" for n, v in CFGS.items())
s = open("MC_LocateSym.tla").read()
marker = "\\* --- generated R2S definitions ---\n"
if marker in s:
    s = s[: s.index(marker)] + s[s.index("\\* --- end generated ---\n") + len("\\* --- end generated ---\n"):]
s = s.replace("VARIABLES drop ", marker + "CONSTANTS Z0P\nZ0C == Z0P - 16\n" + defs + "\\* --- end generated ---\nVARIABLES drop ")
open("MC_LocateSym.tla", "w").write(s)
