SPECIFICATION RSpec
CONSTANTS
  N <- NC
  P <- PC
  DX <- DXC
  X0 <- X0C
  Variant = "unionfind"
  DimC = 3
  N1 = 6
  N2 = 6
  N3 = 7
  P1 = TRUE
  P2 = TRUE
  P3 = TRUE
  DX1 = 4
  DX2 = 4
  DX3 = 4
  O1 = 16
  O2 = 16
  O3 = 17
  R2S = {36, 41, 50, 59}
  NDrops = 1
  Margin = 4
  PosStep = 4
INVARIANT OnePerOriginal
INVARIANT ExactVolume
INVARIANT HalfCell
INVARIANT NoWinding
INVARIANT Correct
INVARIANT Emit
PROPERTY MaskIntact
PROPERTY Termination
