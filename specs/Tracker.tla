-------------------------------- MODULE Tracker --------------------------------
(***************************************************************************)
(* DropletTracker / LengthScaleTracker driven by a simulation, the storage *)
(* that records the same frames, the file written by finalize(), and the   *)
(* offline analysis EmulsionTimeCourse.from_storage.                       *)
(*                                                                         *)
(* The image analysis itself is an uninterpreted function of (field,       *)
(* settings): a call is represented by the record of its arguments.  What  *)
(* is specified is WHICH arguments reach it for which frame, in which      *)
(* order results and times are recorded, and what the file holds.          *)
(***************************************************************************)
EXTENDS Integers, Sequences, FiniteSets

CONSTANTS FieldIds,      \* abstract frames ("none", "one", "two", "small", ...)
          TimeSeqs,      \* set of time sequences (any order: a tracker can be driven with any times)
          SettingsSet,   \* set of records [threshold, minimal_radius, refine, refine_args, modes]
          Sources,       \* how the scalar field is extracted: "none" | "index" | "callable"
          Methods,       \* length-scale methods of the LengthScaleTracker run alongside
          MaxLen,
          ReaderOrder    \* "key": datasets are read in the order of their zero-padded keys (design)
                         \* "time": ordered by their time attribute (a plausible but wrong design)

VARIABLES sim,       \* Seq of [f, t]: what the simulation hands to the trackers
          settings, source,
          i,         \* next frame
          data,      \* the tracker's time course: Seq of [t, em]
          stor,      \* the storage written alongside: Seq of [f, t]
          file,      \* Seq of datasets [key, time, em] written by finalize()
          method,    \* the LengthScaleTracker's method
          ls,        \* its record: Seq of [t, v]; v is the value the analysis returns for that frame
                     \* (the harness maps "the analysis raises" to NaN, as the tracker must)
          lsfile,    \* the JSON file it writes: [times, length_scales]
          pc
vars == <<sim, settings, source, i, data, stor, file, method, ls, lsfile, pc>>

Range(k) == 1..k
\* the analysis call made for frame f with settings s, field extraction included
Call(f, s, src) == [field |-> f, source |-> src, threshold |-> s.threshold, minimal_radius |-> s.minimal_radius,
                    refine |-> s.refine, refine_args |-> s.refine_args, modes |-> s.modes]

Init ==
    /\ \E ts \in TimeSeqs : \E k \in 0..MaxLen : k <= Len(ts) /\
          \E fs \in [Range(k) -> FieldIds] : sim = [j \in Range(k) |-> [f |-> fs[j], t |-> ts[j]]]
    /\ settings \in SettingsSet /\ source \in Sources /\ method \in Methods
    /\ i = 1 /\ data = <<>> /\ stor = <<>> /\ file = <<>> /\ ls = <<>> /\ lsfile = <<>> /\ pc = "run"

\* one interrupt of the simulation: both trackers see the same state and time
Handle ==
    /\ pc = "run" /\ i <= Len(sim)
    /\ data' = Append(data, [t |-> sim[i].t, em |-> Call(sim[i].f, settings, source)])
    /\ stor' = Append(stor, sim[i])
    /\ ls' = Append(ls, [t |-> sim[i].t, v |-> [field |-> sim[i].f, method |-> method]])   \* never raises
    /\ i' = i + 1
    /\ UNCHANGED <<sim, settings, source, file, method, lsfile, pc>>

\* finalize(): one dataset per recorded frame, keyed by its index
Finalize ==
    /\ pc = "run" /\ i > Len(sim)
    /\ file' = [k \in Range(Len(data)) |-> [key |-> k, time |-> data[k].t, em |-> data[k].em]]
    /\ lsfile' = [times |-> [k \in Range(Len(ls)) |-> ls[k].t], length_scales |-> [k \in Range(Len(ls)) |-> ls[k].v]]
    /\ pc' = "done"
    /\ UNCHANGED <<sim, settings, source, i, data, stor, method, ls>>

Next == Handle \/ Finalize
Spec == Init /\ [][Next]_vars /\ WF_vars(Next)

-----------------------------------------------------------------------------
\* stable insertion sort of datasets by time (only for the refuted reader design)
RECURSIVE InsertByTime(_, _)
InsertByTime(s, d) ==
    IF Len(s) = 0 THEN <<d>>
    ELSE IF s[Len(s)].time <= d.time THEN Append(s, d)
    ELSE Append(InsertByTime(SubSeq(s, 1, Len(s) - 1), d), s[Len(s)])
RECURSIVE SortByTime(_)
SortByTime(s) == IF Len(s) = 0 THEN <<>> ELSE InsertByTime(SortByTime(SubSeq(s, 1, Len(s) - 1)), s[Len(s)])

ReadFile(f) ==
    LET ordered == IF ReaderOrder = "key" THEN f ELSE SortByTime(f)     \* keys are written in increasing order
    IN [k \in Range(Len(ordered)) |-> [t |-> ordered[k].time, em |-> ordered[k].em]]
\* from_storage: the same analysis mapped over the stored frames, with the storage's times
Offline == [k \in Range(Len(stor)) |-> [t |-> stor[k].t, em |-> Call(stor[k].f, settings, "none")]]
Strip(d) == [k \in Range(Len(d)) |-> [t |-> d[k].t, em |-> [d[k].em EXCEPT !.source = "none"]]]

IsPrefix(s, t) == Len(s) <= Len(t) /\ \A k \in Range(Len(s)) : s[k] = t[k]
\* C14
OnlineEqualsOffline == pc = "done" => Strip(data) = Offline
FilePersists == pc = "done" => ReadFile(file) = data
FramePerInterrupt == Len(data) = i - 1 /\ Len(stor) = i - 1 /\ Len(ls) = i - 1
\* the length-scale tracker records exactly one value per frame, that frame's, with that frame's time
LengthScalePerFrame == \A k \in Range(Len(ls)) : ls[k].t = sim[k].t /\ ls[k].v.field = sim[k].f /\ ls[k].v.method = method
LengthScaleFile == pc = "done" => (lsfile.times = [k \in Range(Len(sim)) |-> sim[k].t] /\ Len(lsfile.length_scales) = Len(sim))
TimesIdentical == \A k \in Range(Len(data)) : data[k].t = sim[k].t
AppendOnly == [][IsPrefix(data, data')]_vars
Termination == <>(pc = "done")
=============================================================================
