------------------------------- MODULE Threshold -------------------------------
(***************************************************************************)
(* The head of locate_droplets on integer-valued images, in exact          *)
(* arithmetic: threshold rule -> threshold -> binary image (strict ">")    *)
(* -> clusters -> size filter (strict ">" on the radius).                  *)
(*                                                                         *)
(*   numeric   t (given as 2t, so that half-integers are exact)            *)
(*   extrema   (min + max) / 2         ("auto" is the same rule)           *)
(*   mean      sum / N                                                     *)
(*   otsu      histogram with NBins bins over [min, max] (the maximum      *)
(*             belongs to the last bin); classes split after bin i;        *)
(*             var12(i) = w1 w2 (m1 - m2)^2 with class means taken over    *)
(*             BIN CENTRES; the threshold is the centre of a bin that      *)
(*             maximises var12.  The property does not fix tie-breaking,   *)
(*             so the spec yields the SET of acceptable outcomes.          *)
(* Images are one-dimensional rows of N cells (the mask stage itself is    *)
(* LocateCart.tla); clusters are maximal runs, a run of n cells of width   *)
(* dx is a droplet of radius n dx / 2.                                     *)
(***************************************************************************)
EXTENDS Integers, Sequences, FiniteSets

CONSTANTS N,          \* number of cells
          Alphabet,   \* set of integer intensities
          NBins,      \* histogram bins of the Otsu rule
          NumThr2,    \* numeric thresholds, doubled (2t)
          AffA, AffB, \* affine maps v -> a v + b, a > 0
          RMin2       \* minimal radii in units of dx / 2  (radius of an n-cell run is n in these units)

VARIABLES img, pc     \* pc = 0: only the first two cells are chosen (lets TLC spread the work), pc = 1: complete image
vars == <<img, pc>>

Cells == 1..N
Min(S) == CHOOSE x \in S : \A y \in S : x <= y
Max(S) == CHOOSE x \in S : \A y \in S : x >= y
RECURSIVE SumF(_, _)
SumF(f, S) == IF S = {} THEN 0 ELSE LET x == CHOOSE x \in S : TRUE IN f[x] + SumF(f, S \ {x})

Lo(im) == Min({im[c] : c \in Cells})
Hi(im) == Max({im[c] : c \in Cells})
Constant(im) == Lo(im) = Hi(im)

(* ---- simple rules: the mask directly, by cross-multiplication *)
MaskNumeric(im, t2) == {c \in Cells : 2 * im[c] > t2}
MaskExtrema(im) == {c \in Cells : 2 * im[c] > Lo(im) + Hi(im)}
MaskMean(im) == {c \in Cells : N * im[c] > SumF(im, Cells)}

(* ---- Otsu *)
\* everything is computed once per image (LET definitions and functions are evaluated once)
OtsuData(im) ==
    LET lo == Lo(im)  hi == Hi(im)  rng == hi - lo
        B == [c \in Cells |-> IF im[c] = hi THEN NBins - 1 ELSE ((im[c] - lo) * NBins) \div rng]
        occ == {B[c] : c \in Cells}
        top == Max(occ)
        cuts == occ \ {top}                                    \* both classes non-empty
        \* class sizes and (index-weighted) sums when the classes are split after bin b
        w1 == [b \in cuts |-> Cardinality({c \in Cells : B[c] <= b})]
        s1 == [b \in cuts |-> SumF([c \in Cells |-> IF B[c] <= b THEN B[c] ELSE 0], Cells)]
        s2 == [b \in cuts |-> SumF([c \in Cells |-> IF B[c] > b THEN B[c] ELSE 0], Cells)]
        \* var12 = num / den  (in units of the squared bin width)
        num == [b \in cuts |-> LET d == s1[b] * (N - w1[b]) - s2[b] * w1[b] IN d * d]
        den == [b \in cuts |-> w1[b] * (N - w1[b])]
        best == {b \in cuts : \A a \in cuts : ~(num[b] * den[a] < num[a] * den[b])}
    IN [lo |-> lo, rng |-> rng, B |-> B, occ |-> occ, best |-> best]
\* threshold = centre of bin i = lo + (2 i + 1) rng / (2 NBins);   v > centre(i)
\* acceptable outcomes: for a best cut after occupied bin b every bin i of the plateau b .. next-1 has the
\* same var12; the mask is the one of centre(b) for i = b and the upper class for the other bins
Outcomes(im) ==
    LET d == OtsuData(im) IN
    {[b |-> b, nxt |-> Min({x \in d.occ : x > b}),
      maskAtB |-> {c \in Cells : 2 * NBins * (im[c] - d.lo) > (2 * b + 1) * d.rng},
      maskAbove |-> {c \in Cells : d.B[c] > b}] : b \in d.best}
OtsuMasks(im) == LET O == Outcomes(im) IN
                 {o.maskAtB : o \in O} \cup {o.maskAbove : o \in {x \in O : x.nxt > x.b + 1}}

(* ---- clusters of a mask on an open row, and the size filter *)
RunStarts(m) == {c \in m : c - 1 \notin m}
RunLen(m, s) == Min({k \in 1..N : s + k \notin m})
Runs(m) == LET starts == RunStarts(m)
               RECURSIVE Ord(_)
               Ord(S) == IF S = {} THEN <<>> ELSE <<Min(S)>> \o Ord(S \ {Min(S)})
           IN [i \in 1..Cardinality(starts) |-> RunLen(m, Ord(starts)[i])]
\* the same on a periodic row: runs touching both ends are one cluster
RunsP(m) == LET r == Runs(m) IN
            IF 1 \in m /\ N \in m /\ Len(r) > 1
            THEN <<r[1] + r[Len(r)]>> \o SubSeq(r, 2, Len(r) - 1) ELSE r
Filter(runs, r2) == SelectSeq(runs, LAMBDA n : n > r2)      \* strictly larger than the minimal radius

-----------------------------------------------------------------------------
A0 == Min(Alphabet)
Init == pc = 0 /\ img \in {f \in [Cells -> Alphabet] : \A c \in Cells : c > 2 => f[c] = A0}
Complete == /\ pc = 0 /\ pc' = 1
            /\ \E t \in [3..N -> Alphabet] : img' = [c \in Cells |-> IF c <= 2 THEN img[c] ELSE t[c]]
Spec == Init /\ [][Complete]_vars

Affine(im, a, b) == [c \in Cells |-> a * im[c] + b]
\* C18: a positive affine change of the intensities does not change the binary image
AffineInvariant == pc = 1 =>
    LET me == MaskExtrema(img)  mm == MaskMean(img)
        mo == IF Constant(img) THEN {} ELSE OtsuMasks(img)
        mn == [t2 \in NumThr2 |-> MaskNumeric(img, t2)]
    IN \A a \in AffA, b \in AffB :
        LET jm == Affine(img, a, b) IN
        /\ MaskExtrema(jm) = me
        /\ MaskMean(jm) = mm
        /\ \A t2 \in NumThr2 : MaskNumeric(jm, a * t2 + 2 * b) = mn[t2]
        /\ ~Constant(img) => OtsuMasks(jm) = mo
\* the comparison is strict: a cell exactly at the threshold is outside
StrictThreshold == pc = 1 => \A t2 \in NumThr2 : \A c \in Cells : (2 * img[c] = t2) => c \notin MaskNumeric(img, t2)
\* Otsu's outcome separates the two classes it optimised (every acceptable mask lies between them)
OtsuSplits == (pc = 1 /\ ~Constant(img)) => \A o \in Outcomes(img) :
                  o.maskAbove \subseteq o.maskAtB /\ o.maskAbove # {} /\ o.maskAtB # Cells
\* the filter keeps exactly the runs above the minimal radius, in order
FilterStrict == pc = 1 => \A r2 \in RMin2 : \A m \in {MaskExtrema(img), MaskMean(img)} : \A rr \in {Runs(m), RunsP(m)} :
                    LET f == Filter(rr, r2) IN
                    /\ \A i \in 1..Len(f) : f[i] > r2
                    /\ Len(f) = Cardinality({i \in 1..Len(rr) : rr[i] > r2})
\* a periodic row has the same cells in clusters, in at most one cluster fewer
PeriodicRuns == pc = 1 => \A m \in {MaskExtrema(img), MaskMean(img)} :
                    LET a == Runs(m)  b == RunsP(m)
                        RECURSIVE Tot(_) Tot(q) == IF Len(q) = 0 THEN 0 ELSE Head(q) + Tot(Tail(q))
                    IN Tot(a) = Cardinality(m) /\ Tot(b) = Cardinality(m) /\ Len(b) \in {Len(a), Len(a) - 1}
=============================================================================
